#!/bin/bash
# usage: try_seed.sh <outdir-with-patch.diff-and-demo.py> <seed-name> <check ids...>
# 1) confirm the demonstration in a fresh scratch worktree (passes without, fails with the patch, baseline tests keep passing)
# 2) apply the patch to /repo, run the named checks (quick tier), undo
OUT=$1; NAME=$2; shift 2
WT=/tmp/wt/confirm-$NAME
git -C /repo worktree remove --force $WT 2>/dev/null
git -C /repo worktree add --detach $WT HEAD -q || exit 2
( cd $WT && /venv/bin/python $OUT/demo.py >/dev/null 2>&1; echo "demo without patch: rc=$?" )
git -C $WT apply $OUT/patch.diff || { echo "patch does not apply"; exit 2; }
( cd $WT && /venv/bin/python $OUT/demo.py >/dev/null 2>&1; echo "demo with patch: rc=$?" )
/venv/bin/python /tmp/wt/tools/baseline_cmp.py $WT | head -1
git -C /repo worktree remove --force $WT
if [ -n "$(git -C /repo status --porcelain)" ]; then echo "/repo not clean"; exit 2; fi
git -C /repo apply $OUT/patch.diff
for c in "$@"; do
  ( cd /verif && timeout 1200 ./check $c --tier quick 2>&1 | grep -E "^VIOLATION|^KNOWN|^C[0-9]+ quick|MACHINERY" | head -4 ; echo "check $c rc=${PIPESTATUS[0]}" )
done
git -C /repo checkout -- .
git -C /verif checkout -- evidence 2>/dev/null
echo "repo restored: $(git -C /repo status --porcelain | wc -l) dirty files"
