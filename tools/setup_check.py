#!/venv/bin/python
"""setup_cmd: offline sanity build - byte-compile the harness and parse every specification."""
import compileall, glob, os, subprocess, sys
ROOT = os.path.dirname(os.path.dirname(os.path.abspath(__file__)))
ok = compileall.compile_dir(os.path.join(ROOT, "harness"), quiet=1)
sys.path.insert(0, ROOT)
from harness import tlc
bad = []
for f in sorted(glob.glob(os.path.join(ROOT, "spec", "*.tla"))):
    m = os.path.basename(f)[:-4]
    good, out = tlc.sany(m)
    if not good:
        bad.append(m); print(out[-1500:])
print("specs parsed: %d, failed: %s" % (len(glob.glob(os.path.join(ROOT, 'spec', '*.tla'))), bad))
os.makedirs(os.path.join(ROOT, "evidence"), exist_ok=True)
sys.exit(0 if ok and not bad else 1)
