#!/usr/bin/env python3
"""print python source without docstrings (reading aid)"""
import ast, sys
for p in sys.argv[1:]:
    t = ast.parse(open(p).read())
    for n in ast.walk(t):
        if isinstance(n, (ast.FunctionDef, ast.ClassDef, ast.Module, ast.AsyncFunctionDef)):
            if n.body and isinstance(n.body[0], ast.Expr) and isinstance(getattr(n.body[0], 'value', None), ast.Constant) and isinstance(n.body[0].value.value, str):
                n.body = n.body[1:] or [ast.Pass()]
    print("#### " + p); print(ast.unparse(t))
