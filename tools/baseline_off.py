#!/usr/bin/env python3
"""Run the repository's pinned baseline with the verification guard OFF and compare with
/root/.vp/BASELINE.json (every stable_pass test must pass)."""
import json, os, subprocess, sys, tempfile
import xml.etree.ElementTree as ET

base = json.load(open("/root/.vp/BASELINE.json"))
env = dict(os.environ)
env.pop("MENPO_VERIF", None)
fd, junit = tempfile.mkstemp(suffix=".xml"); os.close(fd)
cmd = ["/venv/bin/python", "-m", "pytest", "-ra", "-q", "-p", "no:cacheprovider", "--timeout=900",
       "--continue-on-collection-errors", "--junitxml=" + junit]
p = subprocess.run(cmd, cwd="/repo", env=env, capture_output=True, text=True)
passed = set()
for tc in ET.parse(junit).getroot().iter("testcase"):
    if not any(ch.tag in ("failure", "error", "skipped") for ch in tc):
        passed.add(tc.get("classname") + "::" + tc.get("name"))
os.unlink(junit)
missing = [t for t in base["stable_pass"] if t not in passed]
print("baseline stable_pass: %d, passing now: %d, newly passing: %d, missing: %d" % (
    len(base["stable_pass"]), len(passed & set(base["stable_pass"])), len(passed - set(base["stable_pass"])), len(missing)))
for t in missing[:50]:
    print("MISSING", t)
print(p.stdout.splitlines()[-1] if p.stdout else "")
sys.exit(1 if missing else 0)
