#!/usr/bin/env python3
"""save_seed.py <outdir> <seed-name> <detected-by> <notes>: keep a confirmed seeded change under /verif/seeded/<seed-name>/"""
import json, os, shutil, sys
out, name, detected, notes = sys.argv[1:5]
d = os.path.join("/verif/seeded", name)
os.makedirs(d, exist_ok=True)
shutil.copy(os.path.join(out, "patch.diff"), d)
shutil.copy(os.path.join(out, "demo.py"), d)
m = json.load(open(os.path.join(out, "meta.json")))
m["confirmed"] = ("demo.py exits 0 on the unchanged tree and non-zero with patch.diff applied (fresh scratch worktree of /repo HEAD); "
                  "baseline comparison with the patch: all 753 stable tests still pass (tools/try_seed.sh)")
m["detected_by"] = detected
m["notes"] = notes
json.dump(m, open(os.path.join(d, "meta.json"), "w"), indent=1)
print("saved", d)
