"""code -> spec for C03 / C04: compositions, in-place compositions and pseudoinverses executed by the repository's own
test-suite and by a random float-parameter driver are recorded (harness/pytest_comprec.py) and validated against
Transforms.tla by Trace_Compose.tla.  judge = "compose" (C03) or "pinv" (C04)."""
import copy
import json
import os
import re
import subprocess
import sys

from .. import tlc
from ..core import ROOT, validate_traces


def _record_repo_tests(s):
    out = s.path("comprec.json")
    env = dict(os.environ)
    env["COMPREC_OUT"] = out
    env["PYTHONPATH"] = ROOT + os.pathsep + env.get("PYTHONPATH", "")
    repo = os.environ.get("MENPO_REPO", "/repo")
    p = subprocess.run([sys.executable, "-m", "pytest", "-q", "-p", "no:cacheprovider", "--continue-on-collection-errors",
                        "-p", "harness.pytest_comprec", "menpo"], cwd=repo, env=env, capture_output=True, text=True)
    if not os.path.exists(out):
        raise tlc.MachineryError("recording the repository tests failed:\n" + (p.stdout + p.stderr)[-2000:])
    return json.load(open(out))


def _record_random(s, seed, n_traces, n_ops):
    out = s.path("comprnd.json")
    from ..adapters import comprec_driver as drv

    p = subprocess.run([sys.executable, os.path.abspath(drv.__file__), out, str(seed), str(n_traces), str(n_ops)], capture_output=True, text=True)
    if p.returncode != 0 or not os.path.exists(out):
        raise tlc.MachineryError("random compose driver failed:\n" + (p.stdout + p.stderr)[-2000:])
    return json.load(open(out))


def run(chk, s, judge, tier, seed):
    cfg = "MC_Trace_Compose_c03.cfg" if judge == "compose" else "MC_Trace_Compose_c04.cfg"
    repo_tr = _record_repo_tests(s)
    if len(repo_tr) < 30:
        raise tlc.MachineryError("only %d repository tests with transform compositions recorded" % len(repo_tr))
    rnd_tr = _record_random(s, seed, 24 if tier == "quick" else 120, 40 if tier == "quick" else 80)
    traces = repo_tr + rnd_tr
    mine = lambda e: e["op"] not in ("intro", "sync") and ((e["op"] == "pinv") == (judge == "pinv"))
    rej, r = validate_traces(chk, "compose_traces", "MC_Trace_Compose", cfg, traces, s)
    clauses = {(int(t) - 1, int(l)): sorted(re.findall(r'"([a-z_]+)"', body)) for t, l, body in re.findall(r'<<"CLAUSES", (\d+), (\d+), \{(.*?)\}>>', r.stdout)}
    chk.replayed += len(traces)
    chk.count("compose_trace_events_judged", sum(1 for t in traces for e in t["events"] if mine(e)))
    chk.count("compose_traces_from_repository_tests", len(repo_tr))
    chk.count("compose_traces_recorder_gave_up", sum(1 for t in traces if t.get("recorder_gave_up")))
    for t in traces:
        chk.case(("compose-trace", t["test"]))
    chk.sample({"trace": traces[0]["test"], "events": traces[0]["events"][:6]})
    for ti, k in sorted(rej.items())[:5]:
        if ti < 0:
            chk.mismatch({"trace": "?"}, {"what": "a property of Transforms.tla failed on a recorded execution", "note": chk.notes.get("trace_property_violated_compose_traces")})
            continue
        t = traces[ti]
        bad = t["events"][k] if k < len(t["events"]) else None
        chk.mismatch({"compose_trace": t["test"], "events": t["events"][:k + 1]},
                     {"events_matched": k, "offending_event": bad, "failed_clauses": clauses.get((ti, k + 1), ["not a step of the specification"])},
                     what="transform operations recorded from %s are not a behaviour of Transforms.tla" % t["test"])
    # binding self-test: corrupt one judged event in two ways (class, law flag): both must be rejected at that event
    victim = next(((i, j) for i, t in enumerate(traces) for j, e in enumerate(t["events"]) if mine(e) and e["err"] == "" and e["cls"] != "Chain"), None)
    if victim is None:
        raise tlc.MachineryError("no judged event to corrupt")
    i, j = victim
    b1, b2 = copy.deepcopy(traces[i]), copy.deepcopy(traces[i])
    b1["events"][j]["cls"] = "Rotation" if b1["events"][j]["cls"] != "Rotation" else "Affine"
    b2["events"][j]["law"] = False
    rej2, r2 = validate_traces(chk, "compose_selftest", "MC_Trace_Compose", cfg, [b1, b2], s)
    if rej2.get(0) != j or rej2.get(1) != j:
        raise tlc.MachineryError("binding self-test failed: corrupted traces not rejected at the corrupted event: %r (expected %d)" % (rej2, j))
    chk.note("compose_trace_selftest", {"corrupted_event": j, "rejected_at": rej2})


def replay(chk, case, judge):
    """re-validate a stored recorded trace against the specification (recorded executions cannot be re-run)"""
    cfg = "MC_Trace_Compose_c03.cfg" if judge == "compose" else "MC_Trace_Compose_c04.cfg"
    chk.case("replay")
    with tlc.Scratch("comptrace") as s:
        rej, _ = validate_traces(chk, "replay", "MC_Trace_Compose", cfg, [{"test": case["compose_trace"], "events": case["events"]}], s)
    if rej:
        chk.mismatch(case, {"events_matched": rej.get(0)}, what="the stored trace is still rejected by Trace_Compose")
