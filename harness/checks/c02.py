"""C02 - transforming a shape moves points and landmarks as one and mutates nothing.

ShapeCases.tla enumerates the cross product  shape class (8) x dimension (2, 3) x landmark
configuration (none / one group of each of the 8 classes / two groups / a group that itself has
landmarks) x transform (7 homogeneous classes, their 5 alignment variants, 2 chains, dimension
slicing in 3-D, piecewise affine and thin-plate splines in 2-D) with the exact image of every
point (StructureKept checked by TLC).  Each case is replayed: result class, exact coordinates of
the shape and of every landmark group, bit-identical and un-aliased structure, deep digest of
shape / landmarks / transform before and after, and agreement with the bare-array route."""
from ._cases import run_families

FAM = [("apply", "ShapeCases", "MC_ShapeCases_c02.cfg", "MC_ShapeCases_c02.cfg", "shapes", True)]


def run(chk, tier, seed, replay):
    chk.rule = ("case = (shape class, dimension, landmark configuration, transform) with pooled rational coordinates; "
                "distinct = distinct tuples; all non-trivial (every shape has >= 4 points and non-empty structure)")
    chk.assumptions = ["for piecewise-affine and thin-plate-spline transforms the moved coordinates are checked against the "
                       "bare-array route of the same transform (their values are specified in Warps.tla / left uninterpreted)"]
    run_families(chk, tier, seed, replay, FAM, "c02")
