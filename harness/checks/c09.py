"""C09 - apply() is pure: no history, aliasing or batch-size effects.

ApplyCache.tla: all histories (depth 4; 6 in the thorough tier by simulation) of apply(array) /
apply(shape) / in-place write over two caller-owned arrays and four values (two far apart, one
within allclose tolerance of another, one leaving the domain), batched or not.  TLC proves Pure
for the memo design of the code as repaired and refutes it for two broken designs (reference +
allclose; snapshot stored before the lookup) - non-vacuity.  Every history is replayed on the
cached and uncached piecewise-affine transforms, TPS, homogeneous classes, an alignment and a
chain; the oracle is a FRESH transform on a FRESH copy of the value.
Warps.tla `mask` cases: every in/out pattern of 5 points x batch sizes {none,1,2,3,5,7}: the
containment error must flag exactly the outside points, once per input point."""
import json

from ..adapters import applycache as ad
from ..adapters import warps
from ..core import generate, parallel_map, run_cases
from .. import tlc


def run(chk, tier, seed, replay):
    chk.rule = ("case = (transform kind, history of apply / apply-to-shape / in-place write calls with batch sizes) replayed "
                "against a fresh transform on fresh input; or (mesh, in/out mask, batch size); distinct = distinct tuples; "
                "non-trivial = history with at least two applications")
    chk.assumptions = ["batched and unbatched results may differ by 1e-12 (BLAS summation order); error masks must be identical"]
    if replay:
        case = json.load(open(replay))["case"]
        chk.case("replay")
        if "hist" in case:
            chk.sample(case["hist"])
            bad = ad.replay((case["kind"], case["hist"]))
            if bad:
                chk.mismatch(case, bad, kind=bad.get("sig"))
        else:
            chk.sample(case["emitted"]["case"])
            for w, detail, kind in warps.run_case(case["emitted"]):
                chk.mismatch(case, {"what": w, **detail}, kind=kind, what=w)
        return
    with tlc.Scratch("c09") as s:
        for d in ("asimpl", "snapfirst"):
            r = tlc.run("ApplyCache", "MC_ApplyCache_%s.cfg" % d, s, workers=8, expect_violation=True)
            if r.violation != "Pure":
                raise tlc.MachineryError("non-vacuity check failed: design %s should violate Pure" % d)
        chk.note("nonvacuity", "TLC refutes Pure for the memo designs 'asimpl' (reference + allclose) and 'snapfirst'")
        out, r = generate(chk, "histories", "ApplyCache", "MC_ApplyCache_fixed.cfg", s, workers=16)
        behs = list(tlc.iter_emitted(out))
        # complete state graph of the memo model (no depth bound): Pure at every reachable state, one history per transition
        out3, r3 = generate(chk, "complete_graph", "ApplyCache", "MC_ApplyCache_unb.cfg", s, workers=16)
        behs += list(tlc.iter_emitted(out3))
        chk.note("complete_graph", {"distinct_states": r3.distinct, "transitions": r3.generated})
        if tier == "thorough":
            out2, r2 = generate(chk, "histories_sim", "ApplyCache", "MC_ApplyCache_sim.cfg", s, workers=16, simulate=320, depth=8, seed=seed + 1)
            behs += list(tlc.iter_emitted(out2))
        jobs = []
        for i, h in enumerate(behs):
            for j, kind in enumerate(ad.KINDS):
                if j == 0 or (i + j) % 4 == 0:
                    jobs.append((kind, h))
        res = parallel_map(ad.replay, jobs, chunk=1000)
        for (kind, h), bad in zip(jobs, res):
            chk.case((kind, json.dumps([(e["op"], e["a"], e["v"], e["batch"]) for e in h])),
                     nontrivial=sum(1 for e in h if e["op"] in ("apply", "apply_shape")) >= 2)
            chk.replayed += 1
            if bad:
                chk.mismatch({"kind": kind, "hist": h}, bad, kind=bad.get("sig"), what=bad["what"])
        chk.sample({"kind": jobs[0][0], "history": jobs[0][1]})
        chk.count("histories", len(behs))
        run_cases(chk, "masks", "Warps", "MC_Warps_c09.cfg", s, warps.run_case, parallel=True)
