"""C05 - vectorisation round-trips the whole object and never mutates it.

TransCases.tla: parameterisations of every vectorizable transform class in 2-D and 3-D
(row-major / column-major delta-from-identity / [a,b,tx,ty] / quaternion), laws RoundTrip,
VecRoundTrip, Length, FromVecHonest checked by TLC; alignment variants must re-synchronise their
target; every wrong length 0..n+2 must raise or give a well-formed object.
ShapeCases.tla: all 8 shape classes in 2-D/3-D with and without landmarks.
ImageCases.tla: Image / MaskedImage / BooleanImage (shapes, channels, dtypes, masks)."""
from ._cases import run_families

FAM = [("transforms", "TransCases", "MC_TransCases_c05.cfg", "MC_TransCases_c05t.cfg", "transcases", False),
       ("shapes", "ShapeCases", "MC_ShapeCases_c05.cfg", "MC_ShapeCases_c05.cfg", "shapes", False),
       ("images", "MC_ImageCases", "MC_ImageCases_c05.cfg", "MC_ImageCases_c05.cfg", "images", False)]


def run(chk, tier, seed, replay):
    chk.rule = ("case = one vectorizable object (class x dimension x pooled instance x landmark configuration) with the "
                "pooled vectors of its class and every wrong length; distinct = distinct (class, instance); all non-trivial")
    chk.assumptions = ["'well-formed' = the class invariant WellFormed of DESIGN.md 5/C05 evaluated on the returned object"]
    run_families(chk, tier, seed, replay, FAM, "c05")
