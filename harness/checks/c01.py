"""C01 - image geometry ops keep landmarks and mask registered to pixel content.

Image.tla transcribes the conventions of rescale (3 rounding modes) / resize / zoom / rotate about
the centre (retain_shape on/off) / mirror / crop / warp_to_shape (order 1 and 0) as template->source
affine maps over Q and tracks, through every sequence of operations, the affine map A to the ORIGINAL
image, the set of valid pixels, the landmarks and a nearest-neighbour mask table.  TLC checks
Registered (A(landmarks) is constant) and ValidInsideOriginal for every sequence of depth 2
(depth 3 by simulation in the thorough tier).  Replay on coordinate-ramp images of the three
image classes: shape, returned transform, landmarks, content of every valid pixel, sample at the
returned landmarks, mask table, exact source index of every pixel for order-0 warps."""
import json

from ..adapters import imageops as ad
from ..core import generate, parallel_map
from .. import tlc


def _guarded(beh):
    try:
        return ad.replay(beh)
    except Exception as e:
        from ..core import from_library

        if not from_library(e):
            raise
        return {"what": "%s raised by menpo: %s" % (type(e).__name__, str(e)[:200])}


def run(chk, tier, seed, replay):
    chk.rule = ("case = one sequence of geometry operations with exact rational parameters, replayed on Image, MaskedImage and "
                "BooleanImage ramp images; distinct = distinct op/arg sequences; all non-trivial")
    chk.assumptions = ["pixels whose sampling stencil touched a border or fill value are not judged (valid-set bookkeeping)",
                       "samples exactly on rounding ties / float-fragile borders are not judged",
                       "2-D images; piecewise-affine / thin-plate-spline warps are judged relationally against the real transform's own map "
                       "(a TPS moves landmarks with its reverse-fitted spline, which is only approximately the inverse map: by design)",
                       "derived scales (norm ratios, square roots) whose product with the shape is exactly integral / half-integral are not judged"]
    if replay:
        case = json.load(open(replay))["case"]
        if "emitted" in case:
            from ..adapters import images

            chk.case("replay"); chk.sample(case["emitted"]["case"])
            for w, detail, kind in images.run_case(case["emitted"]):
                chk.mismatch(case, {"what": w, **detail}, kind=kind, what=w)
            return
        chk.case("replay"); chk.sample([(e["op"], e["args"]) for e in case["beh"]["hist"]])
        bad = ad.replay(case["beh"])
        if bad:
            chk.mismatch(case, bad)
        return
    with tlc.Scratch("c01") as s:
        # ext*: the derived members of the crop / rescale families, transform_about_centre with shears and non-uniform
        # scales, warp_to_mask, pyramids and smooth PWA / TPS warps - alone on a 6x8 image and after one framing operation
        # fullmask: the same operations started from an all-true mask (what every MaskedImage has by default)
        plan = [("depth2", "MC_Image_quick.cfg", {}), ("ext_depth1", "MC_Image_ext68.cfg", {}), ("ext_depth2", "MC_Image_extq.cfg", {}),
                ("fullmask_depth1", "MC_Image_fullmask.cfg", {})]
        if tier == "thorough":
            plan = [("depth2", "MC_Image_thorough.cfg", {}), ("sim3", "MC_Image_sim.cfg", dict(simulate=32, depth=4, seed=seed + 1)),
                    ("ext_depth1", "MC_Image_ext68.cfg", {}), ("ext_depth2", "MC_Image_ext.cfg", {}), ("fullmask_depth1", "MC_Image_fullmask.cfg", {})]
        for label, cfg, kw in plan:
            out, r = generate(chk, label, "MC_Image", cfg, s, workers=16, timeout=3000, **kw)
            behs = tlc.read_emitted(out)
            if not behs:
                raise tlc.MachineryError("no behaviour emitted")
            res = parallel_map(_guarded, behs, chunk=40)
            for i, (b, bad) in enumerate(zip(behs, res)):
                chk.case((label, json.dumps([(e["op"], e["args"]) for e in b["hist"]])))
                chk.replayed += 1
                if i < 2:
                    chk.sample([{"op": e["op"], "args": e["args"], "shape": e["exp"].get("shape")} for e in b["hist"]])
                if bad:
                    chk.mismatch({"beh": b}, bad, what=bad["what"])
        # the n-D members of the family on 3-D images (per-axis maps; ImageCases.tla, kind geom3d)
        from ..adapters import images
        from ..core import run_cases

        run_cases(chk, "geom3d", "MC_ImageCases", "MC_ImageCases_c01.cfg", s, images.run_case)
