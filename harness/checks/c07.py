"""C07 - alignments recover exact maps, fit optimally where promised, and interpolate.

Alignment.tla: the closed-form fit (over Q) of every alignment class / option set to every pooled
target (exact family images: exact recovery; noisy and mirrored integer targets whose optimum is
rational).  TLC checks on the model Optimal (translation, rotation, affine fits beat every pooled
competitor), ProperUnlessMirror, Orthogonal, SizeExact.  Replay: h_matrix, apply(source),
aligned_source, alignment_error against the closed form; optimality again against competitors
evaluated in the real code.  Warps.tla: PWA / TPS interpolation, PWA affine per triangle and
continuous across edges.  3-D: exact recovery of every alignment class from family images."""
import json

import numpy as np

from ..adapters import alignment as ad
from ..adapters import transforms as tad
from ..adapters import warps
from ..core import generate, run_cases
from .. import tlc
from . import c08


def optimality_in_code(chk, pool):
    """no pooled competitor of the same family does better (evaluated with the real classes)"""
    from menpo.shape import PointCloud

    src = np.array(pool["src"], dtype=float)
    T = [np.array(t, dtype=float) for t in pool["targets"]]
    for cfg in ("translation", "rotation", "rotation_m", "affine"):
        fits = []
        for t in T:
            try:
                fits.append(ad._ctor(cfg)(PointCloud(src), PointCloud(t)))
            except Exception:
                fits.append(None)
        for i, t in enumerate(T):
            if fits[i] is None:
                continue
            mine = np.linalg.norm(fits[i].apply(src) - t)
            chk.case(("optimal", cfg, i))
            for j, f in enumerate(fits):
                if f is None:
                    continue
                other = np.linalg.norm(f.apply(src) - t)
                if other < mine - 1e-9:
                    chk.mismatch({"optimality": {"cfg": cfg, "target": i + 1, "competitor_fitted_to": j + 1}},
                                 {"what": "a family member does better than the alignment", "error": mine, "competitor_error": other},
                                 what="%s alignment is not least-squares optimal" % cfg)
            if cfg in ("rotation",) and np.linalg.det(fits[i].h_matrix[:2, :2]) < 0:
                chk.mismatch({"optimality": {"cfg": cfg, "target": i + 1}}, {"what": "reflection returned although mirroring was not allowed"})


def gpa_family(chk, pool):
    """generalized Procrustes on shapes that differ by members of the similarity family (mirrored members included when
    mirroring is allowed): every input is recovered onto the common target, i.e. all aligned sources coincide"""
    from menpo.shape import PointCloud
    from menpo.transform import GeneralizedProcrustesAnalysis

    src = np.array(pool["src"], dtype=float)
    c, s_ = 0.6, 0.8
    R = np.array([[c, -s_], [s_, c]])
    F = np.array([[1.0, 0.0], [0.0, -1.0]])
    members = {"rotated+scaled": 1.5 * src @ R.T + [2.0, -1.0], "translated": src + [4.0, 0.5], "shrunk": 0.5 * src @ R.T @ R.T,
               "mirrored": src @ F.T + [1.0, 3.0], "mirrored+rotated": 2.0 * src @ F.T @ R.T - [3.0, 1.0]}
    for names, mirror in ((("rotated+scaled", "translated", "shrunk"), False), (("rotated+scaled", "translated", "shrunk"), True),
                          (("rotated+scaled", "mirrored", "translated"), True), (("mirrored", "mirrored+rotated", "shrunk", "translated"), True)):
        shapes = [PointCloud(src.copy())] + [PointCloud(members[n].copy()) for n in names]
        keep = [x.points.copy() for x in shapes]
        g = GeneralizedProcrustesAnalysis(shapes, allow_mirror=mirror)
        chk.case(("gpa_family", names, mirror))
        chk.replayed += 1
        al = [t.apply(k) for t, k in zip(g.transforms, keep)]
        spread = max(float(np.abs(a - al[0]).max()) for a in al)
        what = None
        if spread > 1e-6:
            what = "generalized Procrustes does not bring shapes that differ by similarity-family members onto one another (spread %.3g)" % spread
        elif any(not np.array_equal(x.points, k) for x, k in zip(shapes, keep)):
            what = "generalized Procrustes modified an input shape"
        elif not mirror and any(np.linalg.det(t.h_matrix[:2, :2]) < 0 for t in g.transforms):
            what = "generalized Procrustes returned a reflection although mirroring was not allowed"
        if what:
            chk.mismatch({"gpa_family": {"members": list(names), "allow_mirror": mirror}}, {"what": what}, what=what)


def recover_3d(chk, s):
    out, r = generate(chk, "pool3d", "MC_Transforms3", "MC_Transforms3_pool.cfg", s, workers=4)
    recs = tlc.read_emitted(out)
    pool = [x for x in recs if isinstance(x, dict)][0]
    bad, _ = tad.replay(pool["pool"], pool["pts"], [], full_init=True)
    n = sum(1 for o in pool["pool"] if o["al"])
    for o in pool["pool"]:
        if o["al"]:
            chk.case(("recover3d", o["cls"]))
    chk.replayed += n
    if bad:
        chk.mismatch({"pool3d": True}, bad, what="3-D alignment does not recover the family member the target was synthesised with")


def unsigned_point_sets(chk, pool):
    """point sets stored as unsigned integers (pixel coordinates often are): every alignment class must fit the VALUES.  The
    reference is the fit of the same values stored as float64; a disagreement that disappears when the values are stored as
    int64 instead carries the signature of the known finding about unsigned arithmetic."""
    import numpy as np
    from menpo.shape import PointCloud, TriMesh

    from ..adapters.alignment import _ctor

    src = np.array(pool["src"], dtype=float)
    shift = np.array([20.0, 30.0])
    probe = np.array([[0.5, 1.0], [1.0, 2.5], [0.0, 2.0], [1.5, 1.5]]) + shift
    tri = np.array([[0, 1, 2], [0, 2, 3]])
    for cfg in ("translation", "uniformscale", "rotation", "similarity", "similarity_norot", "affine", "pwa", "tps"):
        for ti in (1, 2, 6):
            tgt = np.array(pool["targets"][ti - 1], dtype=float)
            S, T = src + shift, tgt + shift

            def fit(dt):
                s_ = TriMesh(S.astype(dt), trilist=tri) if cfg == "pwa" else PointCloud(S.astype(dt))
                return np.asarray(_ctor(cfg)(s_, PointCloud(T.astype(dt))).apply(probe), dtype=float)

            try:
                ref = fit(np.float64)
            except Exception:
                continue
            for dt in (np.uint8, np.uint16, np.uint32):
                chk.case(("unsigned", cfg, ti, np.dtype(dt).name))
                chk.replayed += 1
                try:
                    got = fit(dt)
                    ok = got.shape == ref.shape and np.allclose(got, ref, rtol=0, atol=1e-6)
                    why = "is a different map"
                except Exception as e:
                    ok, why = False, "raises %s" % type(e).__name__
                if ok:
                    continue
                try:
                    as_int = fit(np.int64)
                    int_ok = as_int.shape == ref.shape and np.allclose(as_int, ref, rtol=0, atol=1e-6)
                except Exception:
                    int_ok = False
                chk.mismatch({"unsigned_point_sets": {"cfg": cfg, "target": ti, "dtype": np.dtype(dt).name}},
                             {"what": "the fit to point sets stored as %s %s (the same values as float64 / int64 fit correctly)" % (np.dtype(dt).name, why)},
                             kind="unsigned_point_set_arithmetic_wraps" if int_ok else None,
                             what="alignment of unsigned-integer point sets")


def run(chk, tier, seed, replay):
    chk.rule = ("case = (alignment class + options, target value) with the exact closed-form fit; (mesh, class, target kind) / "
                "(mesh, kernel, options) for the interpolating warps; 3-D family images; distinct = distinct tuples; all non-trivial")
    chk.assumptions = ["optimality is exact where the optimum is rational (2-D, perfect-square filter) and 'no pooled competitor "
                       "does better' otherwise; 3-D is exact recovery only"]
    if replay:
        case = json.load(open(replay))["case"]
        chk.case("replay")
        if "hist" in case:
            bad = ad.replay(case["src"], case["targets"], case["hist"])
            chk.sample(case["hist"][0]["als"][0]["cfg"])
            if bad:
                chk.mismatch(case, bad)
        elif "emitted" in case:
            chk.sample(case["emitted"]["case"])
            for w, detail, kind in warps.run_case(case["emitted"]):
                chk.mismatch(case, {"what": w, **detail}, kind=kind, what=w)
        else:       # a relational family (optimality in code, GPA family): re-run it on the current tree
            with tlc.Scratch("c07") as s:
                pool = c08.run_histories(chk, s, "fits", "MC_Alignment_fits.cfg")
                optimality_in_code(chk, pool)
                gpa_family(chk, pool)
                unsigned_point_sets(chk, pool)
        return
    with tlc.Scratch("c07") as s:
        pool = c08.run_histories(chk, s, "fits", "MC_Alignment_fits.cfg")
        optimality_in_code(chk, pool)
        unsigned_point_sets(chk, pool)
        run_cases(chk, "warps", "Warps", "MC_Warps_c04.cfg", s, warps.run_case)
        recover_3d(chk, s)
        gpa_family(chk, pool)
