"""C12 - GMRF precision is storage-independent, graph-sparse, symmetric PSD, exact.

GMRF.tla: EVERY undirected graph on 2, 3 and 4 vertices (incl. edgeless graphs and isolated
vertices) x edge mode {concatenation, subtraction} x bias {0, 1}, one feature per vertex, integer
data: the precision is the sum over edges of the exactly inverted block covariances (over Q);
TLC checks Symmetric, GraphSparse, PSDOnPool, ZeroAtMean on the model.  Replay: x graph class
{undirected, directed} x storage {sparse, dense} x dtype {float64, float32}: precision, sparsity
pattern, definiteness, mean, Mahalanobis values (single and batched), sparse == dense."""
import json

from ..adapters import gmrf as gad
from ..core import run_cases
from .. import tlc


def incremental(chk, tier, s):
    run_cases(chk, "gmrf_incr", "MC_GMRF", "MC_GMRF_i3.cfg", s, gad.run_case, parallel=True)


def run(chk, tier, seed, replay):
    chk.rule = ("case = (graph on 2..4 vertices - all of them, edge mode, bias) with the exact precision, mean and Mahalanobis "
                "values over Q, replayed for 2 graph classes x 2 storages x 2 dtypes; distinct = distinct tuples; all non-trivial")
    chk.assumptions = ["one feature per vertex (block inverses are exact in the model)", "float32 storage is compared at 2e-3 relative"]
    if replay:
        case = json.load(open(replay))["case"]
        chk.case("replay")
        chk.sample(case["emitted"]["case"])
        for w, detail, kind in gad.run_case(case["emitted"]):
            chk.mismatch(case, {"what": w, **detail}, kind=kind, what=w)
        return
    with tlc.Scratch("c12") as s:
        for nv in (2, 3, 4):
            run_cases(chk, "gmrf_nv%d" % nv, "MC_GMRF", "MC_GMRF_b%d.cfg" % nv, s, gad.run_case, parallel=(nv == 4))
        run_cases(chk, "gmrf_k2", "MC_GMRF", "MC_GMRF_k2.cfg", s, gad.run_case)
