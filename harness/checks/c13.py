"""C13 - crops and patches are pixel-exact and honour their boundary contract.

ImageCases.tla: every crop box with corners on a lattice of integers and half-integers around a
4x5 image (and a thinner lattice around a 3x4x3 image), constraining on and off: floor/ceil,
clipping to [0, shape], both-ends-unclipped-or-refused (CropSound checked by TLC).  Patch
extraction: per axis the exact source index of every patch element for the slicing path and for
the resampling path (round-half-even rule for odd / even / non-square patch shapes incl. mixed
parity, integer and fractional centres inside, on and beyond the borders, offset sets, fill value);
TLC checks PathsAgree (integer centres) and Contiguous.  Replay on Image / MaskedImage (float32,
float64, uint8; 1, 2, 3, 5 channels): bit-exact blocks, landmarks, mask, error kind, returned
transform, crop_to_pointcloud, both extraction paths, order-1 route, set_patches write-back."""
from ._cases import run_families

FAM = [("pixels", "MC_ImageCases", "MC_ImageCases_c13.cfg", "MC_ImageCases_c13t.cfg", "images", True)]


def run(chk, tier, seed, replay):
    chk.rule = ("case = (image shape, crop box, constrain flag) or (image shape, channels, patch shape, centre set, offset set, fill "
                "value); distinct = distinct tuples; all non-trivial")
    chk.assumptions = ["crops whose intersection with the image is empty are not judged", "sampling coordinates that are exact rounding ties are not judged"]
    run_families(chk, tier, seed, replay, FAM, "c13")
