"""C17 - mesh masking keeps whole triangles and attributes; mesh geometry is sound.

ShapeCases.tla: every vertex mask and every triangle mask (keeping at least one whole triangle)
of 7 pooled meshes (2x2 and 2x3 grids, a fan, two isolated triangles + an orphan vertex, a
non-manifold fin, a closed tetrahedron, a 3-D grid) x {TriMesh, ColouredTriMesh, TexturedTriMesh};
expected vertices / renumbered trilist / attribute rows computed declaratively (VMaskSound,
TMaskSound checked by TLC); exact squared areas, squared edge lengths, un-normalised normals,
boundary flags and unique edges over Q (GeomSound); invariances evaluated in the real code."""
from ._cases import run_families

FAM = [("mesh", "ShapeCases", "MC_ShapeCases_c17.cfg", "MC_ShapeCases_c17t.cfg", "shapes", True)]


def run(chk, tier, seed, replay):
    chk.rule = ("case = (mesh, class, vertex or triangle mask) or (mesh geometry); every mask keeping >= 1 whole triangle is "
                "enumerated; distinct = distinct tuples; non-trivial = all")
    chk.assumptions = ["vertex normals are judged only for vertices referenced by a triangle"]
    run_families(chk, tier, seed, replay, FAM, "c17")
