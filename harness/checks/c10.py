"""C10 - PCA models satisfy the defining identities, also after trimming.

PCABook.tla: the bookkeeping code (n_active_components setter in its integer and variance-fraction
forms, trim_components, noise / variance accounting) transcribed branch by branch; every history
of depth 3 (4 in the thorough tier) over two spectra; TLC checks OrigConstant, Accounting,
Consistent, TrimIsBuild, TieFree.  Replayed on PCAVectorModel and a PointCloud-backed PCAModel.
PCA.tla: exact sample mean and covariance over Q for integer data sets on both sides of n = d,
centred and uncentred; the real model must diagonalise exactly that matrix with orthonormal
components and positive descending eigenvalues, reconstruct training samples exactly, satisfy
the projection identities, and trimming must equal building with max_n_components."""
import json

from ..adapters import pca as ad
from ..core import generate, parallel_map, run_cases
from .. import tlc

SPECTRA = {"MC_PCABook_quick.cfg": [9, 5, 3, 2, 1], "MC_PCABook_b.cfg": [20, 7, 6, 4, 2, 1], "MC_PCABook_d4.cfg": [9, 5, 3, 2, 1],
           # complete state graph (no depth bound, history hidden by a VIEW): one emitted history per TRANSITION
           "MC_PCABook_unb_a.cfg": [9, 5, 3, 2, 1], "MC_PCABook_unb_b.cfg": [20, 7, 6, 4, 2, 1], "MC_PCABook_unb_c.cfg": [50, 21, 13, 8, 5, 3, 2, 1]}


def run(chk, tier, seed, replay):
    chk.rule = ("case = one history of active-component changes (integer and variance-fraction form) and trims on a model with a "
                "known spectrum, or one data set (n above / below / equal d, centred or not) with its exact statistics; "
                "distinct = distinct histories / (data set, centre); all non-trivial")
    chk.assumptions = ["variance fractions are tie-free against the cumulative ratios (checked by TLC: TieFree)",
                       "the spectrum oracle for a data set is numpy.linalg.eigh of the EXACT rational covariance computed by the spec"]
    if replay:
        case = json.load(open(replay))["case"]
        chk.case("replay")
        if "hist" in case:
            chk.sample(case["hist"])
            bad = ad.replay_book((case["model"], case["spectrum"], case["hist"]))
            if bad:
                chk.mismatch(case, bad)
        else:
            chk.sample(case["emitted"]["case"])
            for w, detail, kind in ad.run_case(case["emitted"]):
                chk.mismatch(case, {"what": w, **detail}, kind=kind, what=w)
        return
    with tlc.Scratch("c10") as s:
        cfgs = ["MC_PCABook_quick.cfg", "MC_PCABook_b.cfg", "MC_PCABook_unb_a.cfg", "MC_PCABook_unb_b.cfg", "MC_PCABook_unb_c.cfg"] + \
               (["MC_PCABook_d4.cfg"] if tier == "thorough" else [])
        for cfg in cfgs:
            out, r = generate(chk, "book_" + cfg[11:-4], "MC_PCABook", cfg, s, workers=16)
            hs = tlc.read_emitted(out)
            if not hs:
                raise tlc.MachineryError("no history emitted")
            jobs = [("vector" if i % 3 else "object", SPECTRA[cfg], h) for i, h in enumerate(hs)]
            res = parallel_map(ad.replay_book, jobs, chunk=500)
            for (kind, sp, h), bad in zip(jobs, res):
                chk.case((cfg, json.dumps([(e["op"], e["arg"]) for e in h])))
                chk.replayed += 1
                if bad:
                    chk.mismatch({"model": kind, "spectrum": sp, "hist": h}, bad, what="PCA bookkeeping history disagrees with the specification")
            chk.sample({"spectrum": SPECTRA[cfg], "history": [{k: e[k] for k in ("op", "arg", "res")} for e in hs[len(hs) // 2]]})
        run_cases(chk, "batch", "MC_PCA", "MC_PCA_c10.cfg" if tier == "quick" else "MC_PCA_c10t.cfg", s, ad.run_case)
        # the blocked in-place products behind the d >= n path (Blocks.tla: the blocks partition the axis for every n, b)
        run_cases(chk, "blocks", "Blocks", "MC_Blocks.cfg", s, ad.run_case, key=lambda o: json.dumps(o["case"], sort_keys=True))
