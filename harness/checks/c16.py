"""C16 - export then import returns the same data; files are never clobbered unasked.

IO.tla: every history of depth 3 of export (2 objects, str / Path x relative / absolute spellings,
overwrite on / off, matching / contradicting / unknown extension) / import / chdir between two
directories, per file kind (multi-dot .ljson, .pkl.gz; .pts, .png, .pkl in the thorough tier).
TLC checks RefusedExportChangesNothing, LastAcceptedWins, NoBadFiles, ImportSeesLastExport.
Replay on a real temporary directory tree: exception class, byte snapshot of the WHOLE tree
before/after every step, imported object against the canonical form of the last accepted export.
Round trips over object pools: every shape class (2-D/3-D, NaN, unicode ordered labels, empty
edge sets) and landmark managers through LJSON, PTS precision, plain and gzipped pickles of every
Copyable class, all 256 8-bit values in L and RGB through PNG and BMP incl. the
import(normalised) -> export -> import loop, float images within one quantisation level."""
import json

from ..adapters import io as ad
from ..core import generate, parallel_map
from .. import tlc


def run(chk, tier, seed, replay):
    chk.rule = ("case = one history of export / import / chdir calls over two directories and path spellings, replayed on a real "
                "temporary tree with byte snapshots; or one (format, object) round trip; distinct = distinct histories / pairs; "
                "non-trivial = history with at least one accepted export")
    chk.assumptions = ["LJSON canonical form: points incl. NaN, undirected edge set, ordered labels, group names; meshes and directed "
                       "graphs come back as (undirected) point graphs", "PTS: three-decimal precision"]
    if replay:
        case = json.load(open(replay))["case"]
        chk.case("replay")
        if "hist" in case:
            chk.sample(case["hist"])
            bad = ad.replay(case["hist"])
            if bad:
                chk.mismatch(case, bad)
        else:
            for c in ad.roundtrip_cases():
                if c[0] == case["roundtrip"]:
                    chk.sample(c[0])
                    bad = ad.run_roundtrip(c)
                    if bad:
                        chk.mismatch(case, {"what": bad})
        return
    with tlc.Scratch("c16") as s:
        # *_unb_*: complete state graph of the file-system model for several file kinds at once (no depth bound, history hidden
        # by a VIEW, inductive step properties checked on every transition): one emitted history per TRANSITION
        cfgs = ["MC_IO_n1.cfg", "MC_IO_n2.cfg", "MC_IO_unb_a.cfg"] + (["MC_IO_n3.cfg", "MC_IO_n4.cfg", "MC_IO_n5.cfg", "MC_IO_unb_b.cfg"] if tier == "thorough" else [])
        for cfg in cfgs:
            out, r = generate(chk, "fs_" + cfg[6:-4], "MC_IO", cfg, s, workers=16)
            hs = tlc.read_emitted(out)
            if not hs:
                raise tlc.MachineryError("no history emitted")
            res = parallel_map(ad.replay, hs, chunk=500)
            for h, bad in zip(hs, res):
                chk.case((cfg, json.dumps([(e["op"], e["name"], e["obj"], e["sp"], e["dir"], e["ow"], e["ext"]) for e in h])),
                         nontrivial=any(e["op"] == "export" and not e["err"] for e in h))
                chk.replayed += 1
                if bad:
                    chk.mismatch({"hist": h}, bad, what=bad["what"])
            chk.sample({"history": [{k: e[k] for k in ("op", "name", "obj", "sp", "dir", "ow", "err")} for e in hs[len(hs) // 3]]})
        # ---- code -> spec: long random histories recorded from the real library, validated by Trace_IO
        import copy
        import random

        from ..core import validate_traces

        rng = random.Random(seed)
        n_tr, n_ops = (80, 40) if tier == "quick" else (800, 60)
        traces = [ad.record_random(rng, n_ops) for _ in range(n_tr)]
        rej, _ = validate_traces(chk, "io_traces", "MC_Trace_IO", "Trace_IO.cfg", traces, s)
        chk.replayed += len(traces)
        chk.count("io_trace_events", sum(len(t["events"]) for t in traces))
        for i, t in enumerate(traces):
            chk.case(("trace", i, json.dumps(t["events"][:6])))
        for ti, k in sorted(rej.items())[:5]:
            t = traces[ti] if ti >= 0 else None
            chk.mismatch({"trace": t}, {"events_matched": k, "offending_event": t["events"][k] if t and k < len(t["events"]) else None},
                         what="recorded export / import history rejected by Trace_IO")
        bad_tr = copy.deepcopy(traces[:10])
        vi, vj = next((i, j) for i, t in enumerate(bad_tr) for j, e in enumerate(t["events"]) if e["op"] == "export" and e["err"] == "OverwriteError")
        bad_tr[vi]["events"][vj]["err"] = ""          # a clobbering export that was "accepted"
        rej2, _ = validate_traces(chk, "io_traces_selftest", "MC_Trace_IO", "Trace_IO.cfg", bad_tr, s)
        if vi not in rej2:
            raise tlc.MachineryError("binding self-test failed: corrupted IO trace accepted")
        for c in ad.roundtrip_cases():
            chk.case(("roundtrip", c[0]))
            chk.replayed += 1
            try:
                bad = ad.run_roundtrip(c)
            except Exception as e:
                from ..core import from_library

                if not from_library(e):
                    raise
                bad = "%s: %s raised by menpo: %s" % (c[0], type(e).__name__, str(e)[:200])
            if bad:
                chk.mismatch({"roundtrip": c[0]}, {"what": bad}, what="round trip")
