"""C11 - incremental model updates equal the batch model on the concatenated data.

PCA.tla: for every data set and EVERY composition of its n samples into an initial batch (>= 2)
plus increments (up to MaxChunks parts), centred and uncentred: the state after each increment is
defined as the batch statistics of the data seen so far (exact over Q); TLC checks that running
sufficient statistics reproduce them for every cut (SumsGiveBatch, Additive).  Replay: after EVERY
increment n_samples, mean, eigenvalues and U^T diag(l) U are compared with the exact statistics,
and the final model with the batch model built by the real code.
GMRF.tla (incremental part): mean and precision after every increment equal the exact batch
precision of the concatenation."""
import json

from ..adapters import pca as ad
from ..core import run_cases
from .. import tlc


def run(chk, tier, seed, replay):
    from . import c12

    chk.rule = ("case = (data set, centred?, composition of n into initial batch + increments) for PCA; (graph, mode, bias, "
                "storage, composition) for the random field; distinct = distinct tuples; all non-trivial (>= 1 increment)")
    chk.assumptions = ["no forgetting (forgetting_factor = 1)", "the covariance comparison needs all directions kept: the eps floor never triggers for the pooled integer data"]
    if replay:
        case = json.load(open(replay))["case"]
        chk.case("replay")
        chk.sample(case["emitted"]["case"])
        mod = ad if case["label"] == "pca_incr" else c12.gad
        for w, detail, kind in mod.run_case(case["emitted"]):
            chk.mismatch(case, {"what": w, **detail}, kind=kind, what=w)
        return
    with tlc.Scratch("c11") as s:
        run_cases(chk, "pca_incr", "MC_PCA", "MC_PCA_c11.cfg" if tier == "quick" else "MC_PCA_c11t.cfg", s, ad.run_case, parallel=True)
        c12.incremental(chk, tier, s)
