"""C20 - convenience transform constructors follow their documented conventions.

TransCases.tla enumerates: 2-D/3-D ccw rotations for Pythagorean angles in all four quadrants,
+-1 turn, degrees and radians; rational unit quaternions; about-centre transforms on point
clouds, meshes and images; the scale factory; tcoords transforms for all shapes 2..6 x 2..6.
TLC checks the conventions against each other on the model (RotZIsRot2, AboutFixesCentre,
TcCorners, QuatIsRotation); every case is replayed on the real constructors."""
import json

from ..adapters import transcases as ad
from ..core import run_cases
from .. import tlc


def run(chk, tier, seed, replay):
    chk.rule = ("case = one constructor call with exact rational parameters (angle given as atan2 of a Pythagorean pair, "
                "quaternion, object + transform, factor tuple, image shape) with the exact matrix / class / error the "
                "specification predicts; distinct = distinct parameter tuples; all non-trivial")
    chk.assumptions = ["angles are handed to menpo as float atan2 of exact rational (cos, sin) pairs; matrices compared at 1e-11",
                       "3-D axis/angle is judged through the rebuilt rotation (Rodrigues), identity and half turns excluded as in the property"]
    if replay:
        case = json.load(open(replay))["case"]
        chk.case("replay"); chk.sample(case["emitted"]["case"])
        for w, detail, kind in ad.run_case(case["emitted"]):
            chk.mismatch(case, {"what": w, **detail}, kind=kind, what=w)
        return
    with tlc.Scratch("c20") as s:
        run_cases(chk, "ctor", "TransCases", "MC_TransCases_c20.cfg" if tier == "quick" else "MC_TransCases_c20t.cfg", s, ad.run_case)
