"""Shared driver for checks that are unions of one-shot case families."""
import importlib
import json

from ..core import run_cases
from .. import tlc


def run_families(chk, tier, seed, replay, families, tag):
    """families: list of (label, module, cfg_quick, cfg_thorough, adapter module name, parallel)"""
    if replay:
        case = json.load(open(replay))["case"]
        chk.case("replay")
        chk.sample(case["emitted"].get("case", case["emitted"]))
        for label, module, cq, ct, adapter, par in families:
            if label == case["label"]:
                mod = importlib.import_module("harness.adapters." + adapter)
                for w, detail, kind in mod.run_case(case["emitted"]):
                    chk.mismatch(case, {"what": w, **detail}, kind=kind, what=w)
                return
        raise tlc.MachineryError("unknown family in replay file: %r" % case.get("label"))
    with tlc.Scratch(tag) as s:
        for label, module, cq, ct, adapter, par in families:
            mod = importlib.import_module("harness.adapters." + adapter)
            run_cases(chk, label, module, cq if tier == "quick" else ct, s, mod.run_case, parallel=par, workers=16)
