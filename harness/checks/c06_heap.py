"""C06 part B: copy() of every Copyable class, recorded as heap events and validated by Trace_Heap.

For each instance:  c = o.copy();  the event records whether the complete observable states are
equal, through which top-level attributes the two object graphs share a buffer
(np.shares_memory over every reachable array / sparse-matrix part), and through which attributes a
write into one side (every reachable buffer, both directions, plus the class's public mutators) is
visible in the other.  Trace_Heap accepts the event iff it is a CopyTop step of Heap.tla: equal,
and sharing / leaking only through the attributes the schema declares shared by design."""
import re

import numpy as np

from ..adapters.shapes import buffers, same, shared, state
from ..core import validate_traces
from .. import tlc


def _top(path):
    m = re.match(r"\.([A-Za-z_0-9]+)", path)
    return m.group(1) if m else path


def _instances():
    """(name, factory) for every Copyable class; factories build a fresh instance each call."""
    from collections import OrderedDict

    import menpo.shape as ms
    import menpo.transform as mt
    from menpo.base import LazyList
    from menpo.image import BooleanImage, Image, MaskedImage
    from menpo.landmark import LandmarkManager
    from menpo.model import LinearVectorModel, MeanLinearVectorModel, PCAModel, PCAVectorModel
    from menpo.transform import rbf
    from menpo.transform.piecewiseaffine.base import CachedPWA, PythonPWA

    P = np.array([[0.0, 0.0], [4.0, 0.5], [3.5, 3.0], [0.5, 4.0], [2.0, 2.0]])
    Q = P @ np.array([[0.8, -0.6], [0.6, 0.8]]).T * 1.5 + np.array([1.0, -2.0])
    tl = np.array([[0, 1, 4], [1, 2, 4], [2, 3, 4], [3, 0, 4]])
    edges = np.array([[0, 1], [1, 2], [2, 3], [3, 4]])
    masks = lambda: OrderedDict([("a", np.array([1, 1, 1, 0, 0], bool)), ("b", np.array([0, 0, 1, 1, 1], bool))])

    def lm(s):
        s.landmarks["zeta_g"] = ms.PointUndirectedGraph.init_from_edges(P[:3] + 1, np.array([[0, 1], [1, 2]]))
        inner = ms.LabelledPointUndirectedGraph.init_from_edges(P.copy(), edges, masks())
        inner.landmarks["deep"] = ms.PointCloud(P[:2])
        s.landmarks["alpha_g"] = inner
        return s

    tex = lambda: Image(np.random.RandomState(0).rand(3, 6, 7))
    out = [
        ("PointCloud", "plain", lambda: lm(ms.PointCloud(P))),
        ("TriMesh", "plain", lambda: lm(ms.TriMesh(P, trilist=tl))),
        ("ColouredTriMesh", "plain", lambda: lm(ms.ColouredTriMesh(P, trilist=tl, colours=np.linspace(0, 1, 15).reshape(5, 3)))),
        ("TexturedTriMesh", "plain", lambda: lm(ms.TexturedTriMesh(P, P / 5.0, lm(tex()), trilist=tl))),
        ("PointUndirectedGraph", "plain", lambda: lm(ms.PointUndirectedGraph.init_from_edges(P, edges))),
        ("PointDirectedGraph", "plain", lambda: lm(ms.PointDirectedGraph.init_from_edges(P, edges))),
        ("PointTree", "plain", lambda: lm(ms.PointTree.init_from_edges(P, np.array([[0, 1], [0, 2], [2, 3], [2, 4]]), root_vertex=0))),
        ("LabelledPointUndirectedGraph", "plain", lambda: lm(ms.LabelledPointUndirectedGraph.init_from_edges(P, edges, masks()))),
        ("Image", "plain", lambda: lm(Image(np.arange(2 * 5 * 6, dtype=float).reshape(2, 5, 6)))),
        ("MaskedImage", "plain", lambda: lm(MaskedImage(np.arange(2 * 5 * 6, dtype=float).reshape(2, 5, 6),
                                                        mask=np.arange(30).reshape(5, 6) % 3 != 0))),
        ("BooleanImage", "plain", lambda: lm(BooleanImage(np.arange(30).reshape(5, 6) % 4 != 0))),
        ("LandmarkManager", "plain", lambda: lm(ms.PointCloud(P)).landmarks),
        ("Homogeneous", "plain", lambda: mt.Homogeneous(np.array([[1, 2, 0], [0, 1, 1], [0.1, 0, 1.0]]))),
        ("Affine", "plain", lambda: mt.Affine(np.array([[2, 1, 3], [-1, 3, 0], [0, 0, 1.0]]))),
        ("Similarity", "plain", lambda: mt.Similarity(np.array([[1.2, -1.6, 1], [1.6, 1.2, -2], [0, 0, 1.0]]))),
        ("Rotation", "plain", lambda: mt.Rotation(np.array([[0.6, -0.8], [0.8, 0.6]]))),
        ("Rotation3D", "plain", lambda: mt.Rotation.init_from_3d_ccw_angle_around_x(30)),
        ("Translation", "plain", lambda: mt.Translation([2.0, -3.0])),
        ("UniformScale", "plain", lambda: mt.UniformScale(0.5, 2)),
        ("NonUniformScale", "plain", lambda: mt.NonUniformScale([2.0, 0.5])),
        ("AlignmentAffine", "homog_alignment", lambda: mt.AlignmentAffine(ms.PointCloud(P), ms.PointCloud(Q))),
        ("AlignmentSimilarity", "homog_alignment", lambda: mt.AlignmentSimilarity(ms.PointCloud(P), ms.PointCloud(Q))),
        ("AlignmentRotation", "homog_alignment", lambda: mt.AlignmentRotation(ms.PointCloud(P), ms.PointCloud(Q))),
        ("AlignmentTranslation", "homog_alignment", lambda: mt.AlignmentTranslation(ms.PointCloud(P), ms.PointCloud(Q))),
        ("AlignmentUniformScale", "homog_alignment", lambda: mt.AlignmentUniformScale(ms.PointCloud(P), ms.PointCloud(Q))),
        ("TransformChain", "chain", lambda: mt.TransformChain([mt.Translation([1.0, 2.0]), mt.UniformScale(2.0, 2)])),
        ("ThinPlateSplines", "plain", lambda: mt.ThinPlateSplines(ms.PointCloud(P), ms.PointCloud(Q))),
        ("PiecewiseAffine", "plain", lambda: CachedPWA(ms.TriMesh(P, trilist=tl), ms.PointCloud(Q))),
        ("PythonPWA", "plain", lambda: PythonPWA(ms.TriMesh(P, trilist=tl), ms.PointCloud(Q))),
        ("WithDims", "plain", lambda: mt.WithDims([1, 0])),
        ("R2LogR2RBF", "plain", lambda: rbf.R2LogR2RBF(P.copy())),
        ("LinearVectorModel", "plain", lambda: LinearVectorModel(np.arange(12, dtype=float).reshape(3, 4))),
        ("MeanLinearVectorModel", "plain", lambda: MeanLinearVectorModel(np.arange(12, dtype=float).reshape(3, 4), np.ones(4))),
        ("PCAVectorModel", "plain", lambda: PCAVectorModel(np.random.RandomState(1).rand(6, 4))),
        ("PCAModel", "plain", lambda: PCAModel([ms.PointCloud(P + np.random.RandomState(k).rand(5, 2)) for k in range(5)])),
        ("LazyList", "lazylist", lambda: LazyList.init_from_iterable([1, 2, 3]).map(lambda x: x + 1)),
    ]
    return out


def _poke(b):
    """reversible in-place edit of a buffer; returns the undo closure"""
    old = b.copy()
    if b.dtype == bool:
        np.logical_not(b, out=b)
    elif b.dtype.kind in "iu":
        b[...] = b + 1
    elif b.dtype.kind == "f":
        b[...] = b * 2.0 + 1.0
    else:
        return None

    def undo():
        b[...] = old

    return undo


def _mutators(name, c):
    """public mutators of the copy that must not reach the original"""
    import menpo.shape as ms

    out = []
    pc = ms.PointCloud(np.array([[9.0, 9.0], [8.0, 8.0]]))
    if hasattr(c, "landmarks") and not name.startswith(("Align", "Thin", "Piece", "Python")):
        out.append(("landmarks.__setitem__", lambda: c.landmarks.__setitem__("zz_new", pc)))
        out.append(("landmarks.__delitem__", lambda: c.landmarks.__delitem__("zeta_g")))
    if name == "LandmarkManager":
        out.append(("__setitem__", lambda: c.__setitem__("zz_new", pc)))
        out.append(("__delitem__", lambda: c.__delitem__("zeta_g")))
    if hasattr(c, "set_target"):
        out.append(("set_target", lambda: c.set_target(ms.PointCloud(c.target.points * 1.25 + 0.5))))
    if hasattr(c, "compose_before_inplace") and name not in ("WithDims",):
        out.append(("compose_before_inplace", lambda: c.compose_before_inplace(c.copy())))
    if hasattr(c, "_from_vector_inplace") and name.split("3D")[0] in ("Homogeneous", "Affine", "Similarity", "Translation", "UniformScale", "NonUniformScale",
                                                                         "AlignmentAffine", "AlignmentSimilarity", "AlignmentTranslation", "AlignmentUniformScale"):
        out.append(("_from_vector_inplace", lambda: c._from_vector_inplace(np.asarray(c.as_vector()) * 1.5)))
        out.append(("from_vector", lambda: c.from_vector(np.asarray(c.as_vector()) * 0.5)))
    if hasattr(c, "trim_components"):
        out.append(("n_active_components", lambda: setattr(c, "n_active_components", 1)))
        out.append(("trim_components", lambda: c.trim_components(1)))
    if name == "PCAVectorModel":
        out.append(("increment", lambda: c.increment(np.random.RandomState(5).rand(3, 4))))
    return out


_DENY = ("view", "init", "copy", "from_", "set_", "as_imageio", "as_PILImage", "rasterize", "pyramid", "gaussian_pyramid", "increment", "trim",
         "orthonormalize", "constrain", "crop", "rescale", "mirror", "normalize", "clip", "invert", "tojson", "erode", "dilate", "warp", "zoom", "rotate",
         "transform", "resize", "extract", "sample", "build_mask", "compose", "apply", "project", "instance", "reconstruct", "component", "map", "repeat",
         "whitened", "principal_components_analysis", "mahalanobis", "with_dims", "with_labels", "without_labels", "add_label", "remove_label", "get_label",
         "find_", "is_edge", "children", "parent", "neighbours", "n_children", "n_parents", "n_neighbours", "minimum_spanning_tree", "depth_of", "vertices_at",
         "n_vertices_at", "n_paths", "has_label", "distance_to", "bounding_box", "relative_location", "decompose", "axis_and_angle", "aligned_source",
         "alignment_error", "pseudoinverse", "n_active", "eigenvalues_ratio", "eigenvalues_cumulative")


def _observers(x):
    """names of the zero-argument public queries of x (properties and methods without required parameters)"""
    import inspect

    out = []
    for n in dir(type(x)):
        if n.startswith("_") or n.startswith(_DENY):
            continue
        a = inspect.getattr_static(type(x), n, None)
        if isinstance(a, property):
            out.append(n)
        elif inspect.isfunction(a):
            try:
                ps = [q for q in inspect.signature(a).parameters.values()][1:]
            except (TypeError, ValueError):
                continue
            if all(q.default is not inspect.Parameter.empty or q.kind in (q.VAR_POSITIONAL, q.VAR_KEYWORD) for q in ps):
                out.append(n)
    return out


def _observe(x, names):
    import types

    out = {}
    for n in names:
        try:
            v = getattr(x, n)
            if callable(v):
                v = v()
            if isinstance(v, types.GeneratorType):
                continue
            if isinstance(v, np.ndarray):
                v = ("array", v.shape, str(v.dtype), v.tobytes())
            elif hasattr(v, "__dict__") and not isinstance(v, type):
                v = ("object", type(v).__name__, repr(sorted((k, _canon(w)) for k, w in state(v).items())) if isinstance(state(v), dict) else repr(state(v)))
            elif hasattr(v, "todense"):
                v = ("sparse", np.asarray(v.todense()).tobytes())
            else:
                v = ("value", repr(v))
        except Exception as e:
            v = ("raises", type(e).__name__)
        out[n] = v
    return out


def _canon(w):
    return w.tobytes() if isinstance(w, np.ndarray) else repr(w)


def stale_observers(name, factory):
    """query - derive - query: every zero-argument query is asked of an object, the object is copied and the copy's buffers are
    edited (one at a time); the copy must then answer every query exactly as an identically edited copy of a twin that was never
    asked anything.  A difference means an answer was remembered from the parent."""
    o = factory()
    names = _observers(o)
    _observe(o, names)                 # warm
    c, twin = o.copy(), factory().copy()
    stale = set()
    bt_by_path = dict(buffers(twin))
    pairs = [(p, b, bt_by_path[p]) for p, b in buffers(c) if p in bt_by_path]      # (a memo may add buffers of its own to the questioned side)
    for path, b1, b2 in pairs:
        if b1.size == 0 or not b1.flags.writeable or not b2.flags.writeable:
            continue
        if path.endswith((".data", ".indices", ".indptr")) or b1.shape != b2.shape or not np.array_equal(b1, b2):
            continue        # (the internals of a sparse matrix are re-laid out by some queries: not an editable coordinate buffer)
        u1, u2 = _poke(b1), _poke(b2)
        if u1 is None or u2 is None:
            continue
        got, want = _observe(c, names), _observe(twin, names)
        u1(); u2()
        for n in names:
            if n in got and n in want and got[n] != want[n]:
                stale.add(n + " (after writing into " + _top(path) + ")")
    # ... and objects DERIVED from a questioned object (other size, other structure) answer like those derived from its twin
    def derivations(x):
        out = []
        if hasattr(x, "from_vector") and hasattr(x, "as_vector"):
            out.append(("from_vector", lambda: x.from_vector(np.asarray(x.as_vector(), dtype=float) * 0.5 + 1.0)))
        if hasattr(x, "from_mask") and hasattr(x, "n_points"):
            m = np.arange(x.n_points) != x.n_points - 1
            if hasattr(x, "trilist") and len(x.trilist):
                m = np.isin(np.arange(x.n_points), x.trilist[0])           # keeps one whole triangle
            out.append(("from_mask", lambda: x.from_mask(m)))
        if hasattr(x, "from_tri_mask"):
            tm = np.arange(x.n_tris) != 0
            out.append(("from_tri_mask", lambda: x.from_tri_mask(tm)))
        if hasattr(x, "extract_channels"):
            out.append(("extract_channels", lambda: x.extract_channels([0])))
            out.append(("crop", lambda: x.crop([0, 1], [3, 4])))
            out.append(("rescale", lambda: x.rescale(0.5)))
        if hasattr(x, "constrain_mask_to_landmarks") and hasattr(x, "mask"):
            out.append(("as_unmasked", lambda: x.as_unmasked()))
        if hasattr(x, "with_dims") and getattr(x, "n_dims", 0) == 3:
            out.append(("with_dims", lambda: x.with_dims([0, 1])))
        return out

    o2, t2 = factory(), factory()
    _observe(o2, names)
    for (dn, f1), (_, f2) in zip(derivations(o2), derivations(t2)):
        try:
            y1 = f1()
        except Exception as e:
            y1 = e
        try:
            y2 = f2()
        except Exception as e:
            y2 = e
        if isinstance(y1, Exception) or isinstance(y2, Exception):
            if type(y1) is not type(y2):
                stale.add("%s() %s on a questioned object, %s on its twin" % (dn, type(y1).__name__, type(y2).__name__))
            continue
        ns = _observers(y1)
        got, want = _observe(y1, ns), _observe(y2, ns)
        for n in ns:
            if got.get(n) != want.get(n):
                stale.add(n + " (of the object derived by " + dn + ")")
    return sorted(stale), names


def _settable(o):
    """public attributes of the object's class that have a setter (alignment end points are the caller's by documented design)"""
    out = []
    for k in dir(type(o)):
        if k.startswith("_") or k in ("target", "source"):
            continue
        a = getattr(type(o), k, None)
        if isinstance(a, property) and a.fset is not None:
            out.append(k)
    return out


def record(name, family, factory):
    o = factory()
    s0 = state(o)
    c = o.copy()
    ev = {"cls": name, "family": family, "equal": True, "shared": [], "leaks": [], "detail": []}
    d = same(s0, state(c))
    if d:
        ev["equal"] = False
        ev["detail"].append("copy differs: " + d)
    if type(c) is not type(o):
        ev["equal"] = False
        ev["detail"].append("copy has class " + type(c).__name__)
    ev["shared"] = sorted({_top(pa) for pa, pb in shared(o, c)})
    leaks = set()
    for a, b, tag in ((c, o, "copy->orig"), (o, c, "orig->copy")):
        ref = state(b)
        for path, buf in buffers(a):
            if buf.size == 0 or not buf.flags.writeable:
                continue
            undo = _poke(buf)
            if undo is None:
                continue
            d = same(ref, state(b))
            undo()
            if d:
                leaks.add(_top(path))
                ev["detail"].append("%s: write into %s visible at %s" % (tag, path, d))
    # public mutators on a fresh pair
    for mname, _ in _mutators(name, factory()):
        o2 = factory()
        c2 = o2.copy()
        ref = state(o2)
        try:
            dict(_mutators(name, c2))[mname]()
        except Exception as e:
            ev["detail"].append("mutator %s raised %s (not judged)" % (mname, type(e).__name__))
            continue
        d = same(ref, state(o2))
        if d:
            leaks.add("mutator:" + mname)
            ev["detail"].append("mutator %s on the copy changed the original: %s" % (mname, d))
    # public SETTERS on a fresh pair: the copy is handed the original's own value of every settable public attribute (the natural
    # way to bring two models in line); whatever is then written into the copy's buffers must stay in the copy
    for pname in _settable(o):
        o2 = factory()
        c2 = o2.copy()
        try:
            setattr(c2, pname, getattr(o2, pname))
        except Exception:
            continue
        ref = state(o2)
        hit = None
        for path, buf in buffers(c2):
            if buf.size == 0 or not buf.flags.writeable:
                continue
            undo = _poke(buf)
            if undo is None:
                continue
            d = same(ref, state(o2))
            undo()
            if d:
                hit = (path, d)
                break
        if hit:
            leaks.add("setter:" + pname)
            ev["detail"].append("after copy.%s = original.%s a write into the copy's %s is visible at the original's %s" % (pname, pname, hit[0], hit[1]))
    # the copy is handed the original's own PARAMETER VECTOR (as_vector() may be a view of the original's matrix): the copy, and the
    # object from_vector makes of it, keep what they are given - a later write into them stays with them
    if hasattr(o, "as_vector") and hasattr(o, "from_vector_inplace") and name.split("3D")[0] in (
            "Homogeneous", "Affine", "Similarity", "Translation", "UniformScale", "NonUniformScale", "Rotation",
            "AlignmentAffine", "AlignmentSimilarity", "AlignmentTranslation", "AlignmentUniformScale", "AlignmentRotation"):
        for vname in ("from_vector_inplace", "from_vector"):
            o2 = factory()
            c2 = o2.copy()
            try:
                v_ = o2.as_vector()
                tgt_ = c2.from_vector(v_) if vname == "from_vector" else (c2.from_vector_inplace(v_), c2)[1]
            except Exception:
                continue
            ref = state(o2)
            hit = None
            for path, buf in buffers(tgt_):
                if buf.size == 0 or not buf.flags.writeable or (path.split(".") + ["", ""])[1].lstrip("_") in ("source", "target"):
                    continue
                undo = _poke(buf)
                if undo is None:
                    continue
                d = same(ref, state(o2))
                undo()
                if d:
                    hit = (path, d)
                    break
            if not hit:
                # ... and the other way round (the handed-over view may be read-only on the copy's side): a write into the original
                ref_t = state(tgt_)
                for path, buf in buffers(o2):
                    if buf.size == 0 or not buf.flags.writeable or (path.split(".") + ["", ""])[1].lstrip("_") in ("source", "target"):
                        continue
                    undo = _poke(buf)
                    if undo is None:
                        continue
                    d = same(ref_t, state(tgt_))
                    undo()
                    if d:
                        hit = ("(original) " + path, d)
                        break
            if hit:
                leaks.add("vector:" + vname)
                ev["detail"].append("after copy.%s(original.as_vector()) a write into the result's %s is visible at the original's %s" % (vname, hit[0], hit[1]))
    # memoised answers must not travel with a copy (reported as leaks of kind "memo:")
    try:
        st, names = stale_observers(name, factory)
    except Exception as e:
        st, names = [], []
        ev["detail"].append("observer sweep raised %s (not judged)" % type(e).__name__)
    ev["n_observers"] = len(names)
    for x in st:
        leaks.add("memo:" + x.split(" ")[0])
        ev["detail"].append("query answered from the parent's memo: " + x)
    ev["leaks"] = sorted(leaks)
    return ev


def run(chk, tier, seed, s):
    r = tlc.run("MC_Heap", "MC_Heap.cfg", s, workers=4)
    chk.add_tlc("heap_model", r)
    r2 = tlc.run("MC_Heap", "MC_Heap_nooverrides.cfg", s, workers=4, expect_violation=True)
    if r2.violation != "NoSharing":
        raise tlc.MachineryError("non-vacuity check failed: without the class overrides NoSharing should be refuted")
    chk.note("heap_model_nonvacuity", "NoSharing is refuted by TLC when the class overrides are switched off")
    events = []
    for name, family, factory in _instances():
        events.append(record(name, family, factory))
    rej, _ = validate_traces(chk, "heap_events", "Trace_Heap", "Trace_Heap.cfg",
                             [{k: e[k] for k in ("cls", "family", "equal", "shared", "leaks")} for e in events], s)
    for i, e in enumerate(events):
        chk.case(("copy", e["cls"]))
        chk.replayed += 1
        if i in rej:
            chk.mismatch({"part": "heap", "cls": e["cls"]}, {"event": {k: e[k] for k in ("equal", "shared", "leaks")}, "detail": e["detail"][:6]},
                         what="copy() of %s is not an independent equal copy" % e["cls"])
    chk.sample({"copy_event": {k: events[0][k] for k in ("cls", "family", "equal", "shared", "leaks")}})
    chk.note("copy_events", {e["cls"]: {"shared": e["shared"], "leaks": e["leaks"]} for e in events})
    # binding self-test: a doctored event (a leak through `points`) must be rejected
    bad = [{"cls": "PointCloud", "family": "plain", "equal": True, "shared": [], "leaks": ["points"]}]
    rej2, _ = validate_traces(chk, "heap_selftest", "Trace_Heap", "Trace_Heap.cfg", bad, s)
    if 0 not in rej2:
        raise tlc.MachineryError("binding self-test failed: Trace_Heap accepted a leaking copy event")


def replay(chk, case):
    for name, family, factory in _instances():
        if name == case["cls"]:
            e = record(name, family, factory)
            chk.sample({k: e[k] for k in ("cls", "equal", "shared", "leaks")})
            allowed = {"homog_alignment": {"_source", "_target"}, "chain": {"transforms"}, "lazylist": {"_callables"}}.get(family, set())
            if not e["equal"] or not set(e["shared"]) <= allowed or not set(e["leaks"]) <= allowed:
                chk.mismatch(case, {"event": e})
            return
    raise tlc.MachineryError("unknown class in replay file")
