"""C06 part B: copy() of every Copyable class, recorded as heap events and validated by Trace_Heap.

For each instance:  c = o.copy();  the event records whether the complete observable states are
equal, through which top-level attributes the two object graphs share a buffer
(np.shares_memory over every reachable array / sparse-matrix part), and through which attributes a
write into one side (every reachable buffer, both directions, plus the class's public mutators) is
visible in the other.  Trace_Heap accepts the event iff it is a CopyTop step of Heap.tla: equal,
and sharing / leaking only through the attributes the schema declares shared by design."""
import re

import numpy as np

from ..adapters.shapes import buffers, same, shared, state
from ..core import validate_traces
from .. import tlc


def _top(path):
    m = re.match(r"\.([A-Za-z_0-9]+)", path)
    return m.group(1) if m else path


def _instances():
    """(name, factory) for every Copyable class; factories build a fresh instance each call."""
    from collections import OrderedDict

    import menpo.shape as ms
    import menpo.transform as mt
    from menpo.base import LazyList
    from menpo.image import BooleanImage, Image, MaskedImage
    from menpo.landmark import LandmarkManager
    from menpo.model import LinearVectorModel, MeanLinearVectorModel, PCAModel, PCAVectorModel
    from menpo.transform import rbf
    from menpo.transform.piecewiseaffine.base import CachedPWA, PythonPWA

    P = np.array([[0.0, 0.0], [4.0, 0.5], [3.5, 3.0], [0.5, 4.0], [2.0, 2.0]])
    Q = P @ np.array([[0.8, -0.6], [0.6, 0.8]]).T * 1.5 + np.array([1.0, -2.0])
    tl = np.array([[0, 1, 4], [1, 2, 4], [2, 3, 4], [3, 0, 4]])
    edges = np.array([[0, 1], [1, 2], [2, 3], [3, 4]])
    masks = lambda: OrderedDict([("a", np.array([1, 1, 1, 0, 0], bool)), ("b", np.array([0, 0, 1, 1, 1], bool))])

    def lm(s):
        s.landmarks["g1"] = ms.PointUndirectedGraph.init_from_edges(P[:3] + 1, np.array([[0, 1], [1, 2]]))
        inner = ms.LabelledPointUndirectedGraph.init_from_edges(P.copy(), edges, masks())
        inner.landmarks["deep"] = ms.PointCloud(P[:2])
        s.landmarks["g2"] = inner
        return s

    tex = lambda: Image(np.random.RandomState(0).rand(3, 6, 7))
    out = [
        ("PointCloud", "plain", lambda: lm(ms.PointCloud(P))),
        ("TriMesh", "plain", lambda: lm(ms.TriMesh(P, trilist=tl))),
        ("ColouredTriMesh", "plain", lambda: lm(ms.ColouredTriMesh(P, trilist=tl, colours=np.linspace(0, 1, 15).reshape(5, 3)))),
        ("TexturedTriMesh", "plain", lambda: lm(ms.TexturedTriMesh(P, P / 5.0, lm(tex()), trilist=tl))),
        ("PointUndirectedGraph", "plain", lambda: lm(ms.PointUndirectedGraph.init_from_edges(P, edges))),
        ("PointDirectedGraph", "plain", lambda: lm(ms.PointDirectedGraph.init_from_edges(P, edges))),
        ("PointTree", "plain", lambda: lm(ms.PointTree.init_from_edges(P, np.array([[0, 1], [0, 2], [2, 3], [2, 4]]), root_vertex=0))),
        ("LabelledPointUndirectedGraph", "plain", lambda: lm(ms.LabelledPointUndirectedGraph.init_from_edges(P, edges, masks()))),
        ("Image", "plain", lambda: lm(Image(np.arange(2 * 5 * 6, dtype=float).reshape(2, 5, 6)))),
        ("MaskedImage", "plain", lambda: lm(MaskedImage(np.arange(2 * 5 * 6, dtype=float).reshape(2, 5, 6),
                                                        mask=np.arange(30).reshape(5, 6) % 3 != 0))),
        ("BooleanImage", "plain", lambda: lm(BooleanImage(np.arange(30).reshape(5, 6) % 4 != 0))),
        ("LandmarkManager", "plain", lambda: lm(ms.PointCloud(P)).landmarks),
        ("Homogeneous", "plain", lambda: mt.Homogeneous(np.array([[1, 2, 0], [0, 1, 1], [0.1, 0, 1.0]]))),
        ("Affine", "plain", lambda: mt.Affine(np.array([[2, 1, 3], [-1, 3, 0], [0, 0, 1.0]]))),
        ("Similarity", "plain", lambda: mt.Similarity(np.array([[1.2, -1.6, 1], [1.6, 1.2, -2], [0, 0, 1.0]]))),
        ("Rotation", "plain", lambda: mt.Rotation(np.array([[0.6, -0.8], [0.8, 0.6]]))),
        ("Rotation3D", "plain", lambda: mt.Rotation.init_from_3d_ccw_angle_around_x(30)),
        ("Translation", "plain", lambda: mt.Translation([2.0, -3.0])),
        ("UniformScale", "plain", lambda: mt.UniformScale(0.5, 2)),
        ("NonUniformScale", "plain", lambda: mt.NonUniformScale([2.0, 0.5])),
        ("AlignmentAffine", "homog_alignment", lambda: mt.AlignmentAffine(ms.PointCloud(P), ms.PointCloud(Q))),
        ("AlignmentSimilarity", "homog_alignment", lambda: mt.AlignmentSimilarity(ms.PointCloud(P), ms.PointCloud(Q))),
        ("AlignmentRotation", "homog_alignment", lambda: mt.AlignmentRotation(ms.PointCloud(P), ms.PointCloud(Q))),
        ("AlignmentTranslation", "homog_alignment", lambda: mt.AlignmentTranslation(ms.PointCloud(P), ms.PointCloud(Q))),
        ("AlignmentUniformScale", "homog_alignment", lambda: mt.AlignmentUniformScale(ms.PointCloud(P), ms.PointCloud(Q))),
        ("TransformChain", "chain", lambda: mt.TransformChain([mt.Translation([1.0, 2.0]), mt.UniformScale(2.0, 2)])),
        ("ThinPlateSplines", "plain", lambda: mt.ThinPlateSplines(ms.PointCloud(P), ms.PointCloud(Q))),
        ("PiecewiseAffine", "plain", lambda: CachedPWA(ms.TriMesh(P, trilist=tl), ms.PointCloud(Q))),
        ("PythonPWA", "plain", lambda: PythonPWA(ms.TriMesh(P, trilist=tl), ms.PointCloud(Q))),
        ("WithDims", "plain", lambda: mt.WithDims([1, 0])),
        ("R2LogR2RBF", "plain", lambda: rbf.R2LogR2RBF(P.copy())),
        ("LinearVectorModel", "plain", lambda: LinearVectorModel(np.arange(12, dtype=float).reshape(3, 4))),
        ("MeanLinearVectorModel", "plain", lambda: MeanLinearVectorModel(np.arange(12, dtype=float).reshape(3, 4), np.ones(4))),
        ("PCAVectorModel", "plain", lambda: PCAVectorModel(np.random.RandomState(1).rand(6, 4))),
        ("PCAModel", "plain", lambda: PCAModel([ms.PointCloud(P + np.random.RandomState(k).rand(5, 2)) for k in range(5)])),
        ("LazyList", "lazylist", lambda: LazyList.init_from_iterable([1, 2, 3]).map(lambda x: x + 1)),
    ]
    return out


def _poke(b):
    """reversible in-place edit of a buffer; returns the undo closure"""
    old = b.copy()
    if b.dtype == bool:
        np.logical_not(b, out=b)
    elif b.dtype.kind in "iu":
        b[...] = b + 1
    elif b.dtype.kind == "f":
        b[...] = b * 2.0 + 1.0
    else:
        return None

    def undo():
        b[...] = old

    return undo


def _mutators(name, c):
    """public mutators of the copy that must not reach the original"""
    import menpo.shape as ms

    out = []
    pc = ms.PointCloud(np.array([[9.0, 9.0], [8.0, 8.0]]))
    if hasattr(c, "landmarks") and not name.startswith(("Align", "Thin", "Piece", "Python")):
        out.append(("landmarks.__setitem__", lambda: c.landmarks.__setitem__("zz_new", pc)))
        out.append(("landmarks.__delitem__", lambda: c.landmarks.__delitem__("g1")))
    if name == "LandmarkManager":
        out.append(("__setitem__", lambda: c.__setitem__("zz_new", pc)))
        out.append(("__delitem__", lambda: c.__delitem__("g1")))
    if hasattr(c, "set_target"):
        out.append(("set_target", lambda: c.set_target(ms.PointCloud(c.target.points * 1.25 + 0.5))))
    if hasattr(c, "compose_before_inplace") and name not in ("WithDims",):
        out.append(("compose_before_inplace", lambda: c.compose_before_inplace(c.copy())))
    if hasattr(c, "_from_vector_inplace") and name.split("3D")[0] in ("Homogeneous", "Affine", "Similarity", "Translation", "UniformScale", "NonUniformScale",
                                                                         "AlignmentAffine", "AlignmentSimilarity", "AlignmentTranslation", "AlignmentUniformScale"):
        out.append(("_from_vector_inplace", lambda: c._from_vector_inplace(np.asarray(c.as_vector()) * 1.5)))
        out.append(("from_vector", lambda: c.from_vector(np.asarray(c.as_vector()) * 0.5)))
    if hasattr(c, "trim_components"):
        out.append(("n_active_components", lambda: setattr(c, "n_active_components", 1)))
        out.append(("trim_components", lambda: c.trim_components(1)))
    if name == "PCAVectorModel":
        out.append(("increment", lambda: c.increment(np.random.RandomState(5).rand(3, 4))))
    return out


def record(name, family, factory):
    o = factory()
    s0 = state(o)
    c = o.copy()
    ev = {"cls": name, "family": family, "equal": True, "shared": [], "leaks": [], "detail": []}
    d = same(s0, state(c))
    if d:
        ev["equal"] = False
        ev["detail"].append("copy differs: " + d)
    if type(c) is not type(o):
        ev["equal"] = False
        ev["detail"].append("copy has class " + type(c).__name__)
    ev["shared"] = sorted({_top(pa) for pa, pb in shared(o, c)})
    leaks = set()
    for a, b, tag in ((c, o, "copy->orig"), (o, c, "orig->copy")):
        ref = state(b)
        for path, buf in buffers(a):
            if buf.size == 0 or not buf.flags.writeable:
                continue
            undo = _poke(buf)
            if undo is None:
                continue
            d = same(ref, state(b))
            undo()
            if d:
                leaks.add(_top(path))
                ev["detail"].append("%s: write into %s visible at %s" % (tag, path, d))
    # public mutators on a fresh pair
    for mname, _ in _mutators(name, factory()):
        o2 = factory()
        c2 = o2.copy()
        ref = state(o2)
        try:
            dict(_mutators(name, c2))[mname]()
        except Exception as e:
            ev["detail"].append("mutator %s raised %s (not judged)" % (mname, type(e).__name__))
            continue
        d = same(ref, state(o2))
        if d:
            leaks.add("mutator:" + mname)
            ev["detail"].append("mutator %s on the copy changed the original: %s" % (mname, d))
    ev["leaks"] = sorted(leaks)
    return ev


def run(chk, tier, seed, s):
    r = tlc.run("MC_Heap", "MC_Heap.cfg", s, workers=4)
    chk.add_tlc("heap_model", r)
    r2 = tlc.run("MC_Heap", "MC_Heap_nooverrides.cfg", s, workers=4, expect_violation=True)
    if r2.violation != "NoSharing":
        raise tlc.MachineryError("non-vacuity check failed: without the class overrides NoSharing should be refuted")
    chk.note("heap_model_nonvacuity", "NoSharing is refuted by TLC when the class overrides are switched off")
    events = []
    for name, family, factory in _instances():
        events.append(record(name, family, factory))
    rej, _ = validate_traces(chk, "heap_events", "Trace_Heap", "Trace_Heap.cfg",
                             [{k: e[k] for k in ("cls", "family", "equal", "shared", "leaks")} for e in events], s)
    for i, e in enumerate(events):
        chk.case(("copy", e["cls"]))
        chk.replayed += 1
        if i in rej:
            chk.mismatch({"part": "heap", "cls": e["cls"]}, {"event": {k: e[k] for k in ("equal", "shared", "leaks")}, "detail": e["detail"][:6]},
                         what="copy() of %s is not an independent equal copy" % e["cls"])
    chk.sample({"copy_event": {k: events[0][k] for k in ("cls", "family", "equal", "shared", "leaks")}})
    chk.note("copy_events", {e["cls"]: {"shared": e["shared"], "leaks": e["leaks"]} for e in events})
    # binding self-test: a doctored event (a leak through `points`) must be rejected
    bad = [{"cls": "PointCloud", "family": "plain", "equal": True, "shared": [], "leaks": ["points"]}]
    rej2, _ = validate_traces(chk, "heap_selftest", "Trace_Heap", "Trace_Heap.cfg", bad, s)
    if 0 not in rej2:
        raise tlc.MachineryError("binding self-test failed: Trace_Heap accepted a leaking copy event")


def replay(chk, case):
    for name, family, factory in _instances():
        if name == case["cls"]:
            e = record(name, family, factory)
            chk.sample({k: e[k] for k in ("cls", "equal", "shared", "leaks")})
            allowed = {"homog_alignment": {"_source", "_target"}, "chain": {"transforms"}, "lazylist": {"_callables"}}.get(family, set())
            if not e["equal"] or not set(e["shared"]) <= allowed or not set(e["leaks"]) <= allowed:
                chk.mismatch(case, {"event": e})
            return
    raise tlc.MachineryError("unknown class in replay file")
