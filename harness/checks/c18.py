"""C18 - features agree on arrays and images and keep annotations attached.

Features.tla: the decorator protocol with the numeric content of each feature as an uninterpreted
symbol: 15 features / compositions (gradient, Gaussian filter, IGO, double IGO, ES, DAISY x 3
parameter sets, no-op, the three normalisers, three 2-fold compositions) x {Image, MaskedImage
all-true, MaskedImage sparse} x 1/3/4 channels x float32/float64 x 0/2 landmark groups with the
predicted kind, channel count, output shape, landmark coordinates (rescaled by the shape ratio for
DAISY) and mask rule; normalisers exactly over integer pixel grids (ZeroMean, UnitStat checked by
TLC) x {std, norm, var} x {all, per_channel} x zero-scale policy."""
from ._cases import run_families

FAM = [("features", "Features", "MC_Features.cfg", "MC_Features.cfg", "features", True)]


def run(chk, tier, seed, replay):
    chk.rule = ("case = (feature, image kind, channels, dtype, size, landmark groups) or (pixel grid, statistic, mode, zero policy); "
                "distinct = distinct tuples; all non-trivial")
    chk.assumptions = ["feature values themselves are uninterpreted: the two calling conventions of the real code must agree bit for bit"]
    run_families(chk, tier, seed, replay, FAM, "c18")
