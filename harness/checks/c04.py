"""C04 - pseudoinverse really inverts; alignment inverses swap source and target.

(a) Transforms.tla: pseudoinverse of every pooled family member (incl. alignment variants:
    end points swapped) and of every depth-2 result (inverse of a composite, composite of
    inverses, inverse of an inverse) - InverseLaw checked by TLC, replayed on the real classes;
(b) TransCases.tla: exact 3-D inverses per class (closed forms of rotation / scale / translation
    must agree with the adjugate inverse over Q);
(c) Warps.tla: piecewise-affine inverse = the warp fitted in the reverse direction (exact over Q,
    TwoSided checked by TLC on rational interior/edge/vertex points), thin-plate splines as a
    symbol with the reverse interpolation law, kernel and options preserved."""
import json

from ..adapters import transcases, warps
from ..core import generate, run_cases
from .. import tlc
from . import c03


def run(chk, tier, seed, replay):
    chk.rule = ("case = (a) a program of compose / pseudoinverse calls over the transform pool, (b) one 3-D family member, "
                "(c) one warp configuration (mesh x class x target kind / kernel x options); expected inverse is exact "
                "over Q except for TPS (laws only); all non-trivial")
    chk.assumptions = ["TPS values away from the landmarks are not specified (uninterpreted symbol); interpolation tolerance 1e-8 x diameter"]
    if replay:
        case = json.load(open(replay))["case"]
        if "compose_trace" in case:
            from . import _comptrace
            return _comptrace.replay(chk, case, "pinv")
        chk.case("replay")
        if "hist" in case and "targets" in case:
            from ..adapters import alignment as aad
            bad = aad.replay(case["src"], case["targets"], case["hist"])
            if bad:
                chk.mismatch(case, bad)
        elif "hist" in case:
            from ..adapters import transforms as ad
            bad, _ = ad.replay(case["pool"], case["pts"], case["hist"])
            chk.sample(case["hist"])
            if bad:
                chk.mismatch(case, bad)
        else:
            mod = warps if case["module"] == "Warps" else transcases
            chk.sample(case["emitted"]["case"])
            for w, detail, kind in mod.run_case(case["emitted"]):
                chk.mismatch(case, {"what": w, **detail}, kind=kind, what=w)
        return
    with tlc.Scratch("c04") as s:
        out, r = generate(chk, "pinv_pairs", "MC_Transforms", "MC_Transforms_c04a.cfg", s, workers=16)
        c03._run_file(chk, out, "pinv_pairs")
        out, r = generate(chk, "pinv_depth2", "MC_Transforms", "MC_Transforms_c04b.cfg", s, workers=16)
        c03._run_file(chk, out, "pinv_depth2")
        run_cases(chk, "inv3", "TransCases", "MC_TransCases_c04.cfg", s, transcases.run_case)
        from . import _comptrace
        _comptrace.run(chk, s, "pinv", tier, seed)
        run_cases(chk, "warps", "Warps", "MC_Warps_c04.cfg", s, warps.run_case)
        # inverses interleaved with retargeting (the inverse must follow the CURRENT state of an alignment)
        from . import c08
        c08.run_histories(chk, s, "pinv_after_retarget", "MC_Alignment_pinv.cfg", sample=False)
