"""C14 - graphs, trees and their queries agree with the edges they were built from.

Graphs.tla defines every query declaratively (reachability by fixed point, cycle = more edges than
a forest can have / a vertex reaching itself, BFS distance, Bellman-Ford cost, number of simple
paths, minimum over ALL spanning trees, induced subgraph with order-preserving renumbering, tree
masking = component of the root) and TLC evaluates them for EVERY undirected graph on <= 4 (5)
vertices, EVERY directed graph on <= 3 (4) vertices and EVERY rooted tree on <= 5 vertices,
cross-checking the definitions against each other (ReachConsistent, TreeIffUnique,
TreeDepthIsDistance).  Each graph is replayed on the abstract and the point-carrying classes:
every query x every vertex / pair / mask / root."""
import json

from ..adapters import graphs as ad
from ..core import run_cases
from .. import tlc


def random_graphs(seed, tier):
    import random

    rng = random.Random(1000 + seed)
    out = []

    def masks(n, root=None):
        ms = []
        for _ in range(4):
            m = sorted(rng.sample(range(n), rng.randint(2, n - 1)))
            if root is not None and rng.random() < 0.8 and root not in m:
                m = sorted(m + [root])
            ms.append(m)
        return ms

    sizes_u = [6, 7, 9, 12, 16, 24] + ([32, 40] if tier == "thorough" else [])
    sizes_d = [5, 6, 8, 12] + ([16, 24] if tier == "thorough" else [])
    sizes_t = [6, 9, 14, 20, 40]
    reps = 3 if tier == "quick" else 10
    for n in sizes_u:
        for k in range(reps):
            p = rng.choice((1.2, 2.0, 3.5)) / n
            e = [[a, b] for a in range(n) for b in range(a + 1, n) if rng.random() < p]
            if k == 0:      # a connected one: random spanning tree + extras
                e = sorted({tuple(sorted((v, rng.randrange(v)))) for v in range(1, n)} | {tuple(x) for x in e})
                e = [list(x) for x in e]
            out.append({"kind": "ug", "n": n, "edges": e, "masks": masks(n), "root": 0, "par": []})
    for n in sizes_d:
        for k in range(reps):
            p = rng.choice((1.0, 2.0)) / n
            e = [[a, b] for a in range(n) for b in range(n) if a != b and rng.random() < p]
            out.append({"kind": "dg", "n": n, "edges": e, "masks": masks(n), "root": 0, "par": []})
    for n in sizes_t:
        for k in range(reps):
            order = list(range(n))
            rng.shuffle(order)
            root = order[0]
            par = [0] * n
            par[root] = root
            for i in range(1, n):
                par[order[i]] = order[rng.randrange(i)]
            out.append({"kind": "tree", "n": n, "edges": [], "masks": masks(n, root), "root": root, "par": par})
    return out


def run(chk, tier, seed, replay):
    chk.rule = ("case = one graph (all undirected graphs on <= NU vertices, all directed graphs on <= ND vertices, all rooted "
                "trees on <= 5 vertices) with the declarative answer to every query, every vertex mask and every root; "
                "distinct = distinct (kind, n, edge set, root); non-trivial = all (graphs with >= 1 vertex)")
    chk.assumptions = ["find_path(v, v) is not judged (its contract is ambiguous)", "edge weights are a fixed function of the end points with values in {1,2,3,5}"]
    if replay:
        case = json.load(open(replay))["case"]
        chk.case("replay"); chk.sample({k: case["emitted"][k] for k in ("kind", "n", "edges")})
        for w, detail, kind in ad.run_case(case["emitted"]):
            chk.mismatch(case, {"what": w, **detail}, kind=kind, what=w)
        return
    with tlc.Scratch("c14") as s:
        # random graphs, trees and weighted graphs above the exhaustive scope (drawn here, answered by the same definitions)
        rnd = s.path("random_graphs.json")
        json.dump(random_graphs(seed, tier), open(rnd, "w"))
        run_cases(chk, "random", "Graphs", "MC_Graphs_rnd.cfg", s, ad.run_case, env={"TRACE_FILE": rnd},
                  key=lambda o: json.dumps([o["kind"], o["n"], o["edges"], o.get("root")]), parallel=True, workers=16)
        run_cases(chk, "graphs", "Graphs", "MC_Graphs_quick.cfg" if tier == "quick" else "MC_Graphs_thorough.cfg", s, ad.run_case,
                  key=lambda o: json.dumps([o["kind"], o["n"], o["edges"], o.get("root")]), parallel=True, workers=16)
