"""C14 - graphs, trees and their queries agree with the edges they were built from.

Graphs.tla defines every query declaratively (reachability by fixed point, cycle = more edges than
a forest can have / a vertex reaching itself, BFS distance, Bellman-Ford cost, number of simple
paths, minimum over ALL spanning trees, induced subgraph with order-preserving renumbering, tree
masking = component of the root) and TLC evaluates them for EVERY undirected graph on <= 4 (5)
vertices, EVERY directed graph on <= 3 (4) vertices and EVERY rooted tree on <= 5 vertices,
cross-checking the definitions against each other (ReachConsistent, TreeIffUnique,
TreeDepthIsDistance).  Each graph is replayed on the abstract and the point-carrying classes:
every query x every vertex / pair / mask / root."""
import json

from ..adapters import graphs as ad
from ..core import run_cases
from .. import tlc


def run(chk, tier, seed, replay):
    chk.rule = ("case = one graph (all undirected graphs on <= NU vertices, all directed graphs on <= ND vertices, all rooted "
                "trees on <= 5 vertices) with the declarative answer to every query, every vertex mask and every root; "
                "distinct = distinct (kind, n, edge set, root); non-trivial = all (graphs with >= 1 vertex)")
    chk.assumptions = ["find_path(v, v) is not judged (its contract is ambiguous)", "edge weights are a fixed function of the end points with values in {1,2,3,5}"]
    if replay:
        case = json.load(open(replay))["case"]
        chk.case("replay"); chk.sample({k: case["emitted"][k] for k in ("kind", "n", "edges")})
        for w, detail, kind in ad.run_case(case["emitted"]):
            chk.mismatch(case, {"what": w, **detail}, kind=kind, what=w)
        return
    with tlc.Scratch("c14") as s:
        run_cases(chk, "graphs", "Graphs", "MC_Graphs_quick.cfg" if tier == "quick" else "MC_Graphs_thorough.cfg", s, ad.run_case,
                  key=lambda o: json.dumps([o["kind"], o["n"], o["edges"], o.get("root")]), parallel=True, workers=16)
