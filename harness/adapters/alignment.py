"""Adapter for Alignment.tla: replay build / set_target / in-place target edit / copy histories on
the real alignment classes (C07, C08)."""
import math

import numpy as np

from .. import lattice as L

TOL = 1e-9


def _ctor(cfg):
    import menpo.transform as mt
    from menpo.transform import rbf

    return {
        "translation": lambda s, t: mt.AlignmentTranslation(s, t),
        "uniformscale": lambda s, t: mt.AlignmentUniformScale(s, t),
        "rotation": lambda s, t: mt.AlignmentRotation(s, t),
        "rotation_m": lambda s, t: mt.AlignmentRotation(s, t, allow_mirror=True),
        "similarity": lambda s, t: mt.AlignmentSimilarity(s, t),
        "similarity_m": lambda s, t: mt.AlignmentSimilarity(s, t, allow_mirror=True),
        "similarity_norot": lambda s, t: mt.AlignmentSimilarity(s, t, rotation=False),
        "similarity_norot_m": lambda s, t: mt.AlignmentSimilarity(s, t, rotation=False, allow_mirror=True),
        "affine": lambda s, t: mt.AlignmentAffine(s, t),
        "pwa": lambda s, t: mt.PiecewiseAffine(s, t),
        "tps": lambda s, t: mt.ThinPlateSplines(s, t),
        "tps_r2logr": lambda s, t: mt.ThinPlateSplines(s, t, kernel=rbf.R2LogRRBF(s.points)),
        "tps_msv": lambda s, t: mt.ThinPlateSplines(s, t, min_singular_val=1e-3),
    }[cfg]


SYM = ("pwa", "tps", "tps_r2logr", "tps_msv")


def fit_matrix(fit):
    """3x3 matrix of the map x -> k A (x - cS) + cT, k = sqrt(k2)"""
    A = np.array([[L.fl(x) for x in row] for row in fit["A"]])
    k = math.sqrt(L.fl(fit["k2"]))
    cS = np.array([L.fl(x) for x in fit["cS"]])
    cT = np.array([L.fl(x) for x in fit["cT"]])
    M = np.eye(3)
    M[:2, :2] = k * A
    M[:2, 2] = cT - k * A @ cS
    return M


def fit_error(fit, err):
    k = math.sqrt(L.fl(fit["k2"]))
    v = L.fl(err["e0"]) + L.fl(err["e1"]) * k
    return math.sqrt(max(v, 0.0))


class World:
    def __init__(self, src, targets):
        from menpo.shape import PointCloud, TriMesh

        self.src_pts = np.array(src, dtype=float)
        self.targets = [None] + [np.array(t, dtype=float) for t in targets]
        self.tobj = {}
        self.als = []
        self.src_objs = []
        self.diam = float(np.max(np.linalg.norm(self.src_pts[:, None] - self.src_pts[None], axis=2)))
        bad3 = PointCloud(self.targets[1][:-1])
        bad4 = PointCloud(np.hstack([self.targets[1], np.ones((len(src), 1))]))
        self.tobj[3], self.tobj[4] = bad3, bad4
        self.tobj[5] = PointCloud(self.targets[1].reshape(len(src) // 2, -1).copy())      # same number of coordinates, other shape
        # a 3-D shadow of every homogeneous-family alignment: the same history on point sets lifted out of the plane (no closed form -
        # the reference is a fresh construction, which is what C08 states: independent of what was set before)
        self.als3 = []
        self.zs = np.array([0.0, 1.0, -2.0, 3.0, 1.5, -0.5, 2.5, -1.5])[:len(src)]

    def lift(self, P, v=0):
        """3-D lift of a planar point set; the third coordinate depends on the value index, not coplanar"""
        z = self.zs * (1.0 + 0.5 * (v % 3)) + 0.25 * v
        return np.hstack([np.asarray(P, dtype=float), z[:len(P), None]])

    def source(self, cfg):
        from menpo.shape import PointCloud, TriMesh

        if cfg == "pwa":
            return TriMesh(self.src_pts, trilist=np.array([[0, 1, 2], [0, 2, 3]]))
        return PointCloud(self.src_pts)

    def step(self, ev):
        from menpo.shape import PointCloud

        op = ev["op"]
        err = ""
        if op == "build":
            vals = ev["vals"]
            for o in (1, 2):
                self.tobj[o] = PointCloud(self.targets[vals[o - 1]])
            cfg = ev["als"][0]["cfg"]
            s = self.source(cfg)
            self.src_objs.append(s)
            self.als.append(_ctor(cfg)(s, self.tobj[1]))
            self.als3.append(None if cfg in SYM else _ctor(cfg)(PointCloud(self.lift(self.src_pts)), PointCloud(self.lift(self.targets[vals[0]], vals[0]))))
        elif op == "set_target":
            try:
                self.als[ev["a"] - 1].set_target(self.tobj[ev["o"]])
                a3 = self.als3[ev["a"] - 1]
                if a3 is not None and ev["o"] <= 2:
                    v = ev["vals"][ev["o"] - 1]
                    a3.set_target(PointCloud(self.lift(self.targets[v], v)))
            except ValueError:
                err = "ValueError"
            except Exception as e:       # the target was not refused up front and something deeper fell over
                return "set_target raised %s instead of accepting or refusing the target with a ValueError" % type(e).__name__
        elif op == "edit":
            self.tobj[ev["o"]].points[...] = self.targets[ev["v"]]
        elif op == "perturb":
            al = self.als[ev["a"] - 1]
            import zlib

            by_matrix = zlib.crc32(repr((ev["a"], ev["vals"], [v["cfg"] for v in ev["als"]], len(self.als))).encode()) % 2 == 0
            if type(al).__name__ == "AlignmentRotation" and (by_matrix or al.n_dims == 2):
                # the other public way to overwrite the parameters of a rotation by hand: an improper matrix (a reflection) - whatever
                # is put there, the next set_target fits afresh with the options the alignment was built with
                al.set_rotation_matrix(np.array([[1.0, 0.0], [0.0, -1.0]]), skip_checks=True)
            else:
                v = np.array(al.as_vector(), dtype=float)
                al.from_vector_inplace(v + np.array([0.3, 0.7, -0.2, 0.5, 0.25, -0.4, 0.1, 0.6])[:len(v)])
            self.als3[ev["a"] - 1] = None       # (the shadow follows fits only)
        elif op == "pinv":
            al = self.als[ev["a"] - 1]
            inv = al.pseudoinverse()
            if type(inv) is not type(al):
                return "pseudoinverse changed the class to " + type(inv).__name__
            if not (L.close(inv.source.points, al.target.points, 1e-12) and L.close(inv.target.points, al.source.points, 1e-12)):
                return "pseudoinverse does not have source and target exchanged"
            pts = self.src_pts
            if getattr(al, "has_true_inverse", False):
                img = al.apply(pts)
                if not L.close(inv.apply(img), pts, 1e-8):
                    return "pseudoinverse does not undo the current fit (stale inverse?)"
            else:
                if not np.allclose(inv.apply(al.target.points), al.source.points, atol=1e-8 * self.diam):
                    return "pseudoinverse of the warp does not send target landmarks back onto source landmarks"
            # the inverse is itself an alignment (from the old target to the old source): retargeting it equals building the
            # same class, with the same options, from ITS source to the new target
            cfg = ev["als"][ev["a"] - 1]["cfg"]
            if cfg != "pwa":
                for v in (1, 2, 6):
                    X = self.targets[v]
                    inv2 = al.pseudoinverse()
                    src2 = inv2.source.points.copy()
                    inv2.set_target(PointCloud(X.copy()))
                    fresh = _ctor(cfg)(PointCloud(src2.copy()), PointCloud(X.copy()))
                    same = (L.close(inv2.h_matrix, fresh.h_matrix, 1e-9) if hasattr(fresh, "h_matrix")
                            else np.allclose(inv2.apply(self.src_pts), fresh.apply(self.src_pts), atol=1e-8 * self.diam))
                    if not same or not np.array_equal(inv2.source.points, src2) or not L.close(inv2.target.points, X, 0):
                        return "retargeting the inverse alignment differs from building it afresh from its own source (target value %d)" % v
        elif op == "copy":
            self.als.append(self.als[ev["a"] - 1].copy())
            a3 = self.als3[ev["a"] - 1]
            self.als3.append(None if a3 is None else a3.copy())
            self.src_objs.append(self.src_objs[ev["a"] - 1])
        if err != ev["err"]:
            return "outcome %r, expected %r" % (err or "ok", ev["err"] or "ok")
        return self.compare(ev)

    def compare(self, ev):
        from menpo.shape import PointCloud

        for i, v in enumerate(ev["vals"]):
            if not np.array_equal(self.tobj[i + 1].points, self.targets[v]):
                return "the caller's target array %d was modified" % (i + 1)
        if not np.array_equal(self.tobj[3].points, self.targets[1][:-1]):
            return "a rejected target was modified"
        for i, view in enumerate(ev["als"]):
            al = self.als[i]
            cfg = view["cfg"]
            tag = "alignment %d (%s)" % (i + 1, cfg)
            if not np.array_equal(al.source.points, self.src_pts):
                return tag + ": source changed"
            if view["pert"]:
                # parameters overwritten by hand: not a fit of anything; its target is its own aligned source (C05's clause)
                if not L.close(al.target.points, al.apply(self.src_pts), 1e-9):
                    return tag + ": after a parameter update the target is not the aligned source"
                continue
            tcur = self.targets[view["tval"]]
            if view["tobj"] and al.target is not self.tobj[view["tobj"]] and not np.array_equal(al.target.points, tcur):
                return tag + ": target is not the point set it was (re)targeted to"
            if not L.close(al.target.points, tcur, TOL):
                return tag + ": target coordinates differ from the point set it was (re)targeted to"
            fitted_to = self.targets[view["fitval"]]
            fresh = _ctor(cfg)(self.source(cfg), PointCloud(fitted_to.copy()))
            probe = np.array([[0.5, 1.0], [1.0, 2.5], [0.0, 2.0], [1.5, 1.5]])
            if "sym" in view["fit"]:
                # uninterpreted warp: indistinguishable from a fresh construction, and interpolating
                tol = 1e-8 * self.diam
                if not np.allclose(al.apply(self.src_pts), fitted_to, atol=tol):
                    return tag + ": does not send source landmarks onto the target it was last fitted to"
                if not np.allclose(al.apply(probe), fresh.apply(probe), atol=1e-9):
                    return tag + ": differs from a freshly constructed alignment to the same target"
            else:
                M = fit_matrix(view["fit"])
                if not L.close(al.h_matrix, M, TOL):
                    return tag + ": h_matrix differs from the closed-form fit (max diff %.3g)" % L.maxdiff(al.h_matrix, M)
                if not L.close(al.h_matrix, fresh.h_matrix, TOL):
                    return tag + ": differs from a freshly constructed alignment to the same target"
                if not L.close(al.apply(self.src_pts), L.apply_h(M, self.src_pts), TOL):
                    return tag + ": apply(source) differs from the fitted map"
                want_err = fit_error(view["fit"], view["err"])
                got_err = al.alignment_error()
                if abs(got_err - want_err) > 1e-7 * max(1.0, want_err):
                    return tag + ": alignment_error %.12g, expected %.12g" % (got_err, want_err)
            if not L.close(al.aligned_source().points, al.apply(self.src_pts), 1e-12):
                return tag + ": aligned_source() is not the transform applied to the source"
            if cfg in ("translation", "similarity", "similarity_m", "similarity_norot", "similarity_norot_m", "affine", "tps"):
                # the families that contain translations are translation-equivariant: the same configuration far from the origin
                # (offsets 1e5, not whole numbers) gives the same fit carried along - "all non-degenerate point sets"
                far_t = np.array([1.0e5 + 0.25, -2.0e5 + 0.5])
                far = _ctor(cfg)(PointCloud(self.src_pts + far_t), PointCloud(fitted_to + far_t))
                if not np.allclose(far.apply(self.src_pts + far_t) - far_t, fresh.apply(self.src_pts), rtol=0, atol=1e-4):
                    return tag + ": the same alignment problem translated far from the origin is not solved by the translated fit"
                # (the affine fit solves uncentred normal equations: at offsets of 1e5 it keeps ~6 digits - accuracy, not the property)
                if hasattr(far, "h_matrix") and not np.allclose(far.h_matrix[:2, :2], fresh.h_matrix[:2, :2], rtol=0, atol=1e-5 if cfg == "affine" else 1e-9):
                    return tag + ": the linear part of the fit changes when both point sets are translated far from the origin"
            r = self._derived(al, cfg, fresh, fitted_to, probe, tag) or self._number_types(cfg, fresh, fitted_to, probe, tag, ev, i) \
                or self._shadow(i, cfg, view, tag)
            if r:
                return r
            e2 = float(np.linalg.norm(al.target.points - al.aligned_source().points))
            if abs(al.alignment_error() - e2) > 1e-9 * max(1.0, e2):
                return tag + ": alignment_error is not the distance between aligned source and target"
        return None


    # ---- clauses shared by every configuration -------------------------------------------------------------------------
    def _maps(self, a, b, probe, tol=1e-9):
        if hasattr(a, "h_matrix") and hasattr(b, "h_matrix"):
            return L.close(a.h_matrix, b.h_matrix, tol)
        return np.allclose(a.apply(probe), b.apply(probe), atol=max(tol, 1e-8 * self.diam), rtol=0)

    def _derived(self, al, cfg, fresh, fitted_to, probe, tag):
        """objects derived from an alignment (its inverse, a copy) are independent of it: retargeting one never moves the other"""
        from menpo.shape import PointCloud

        if cfg == "pwa":
            return None
        X = self.targets[6] if not np.array_equal(fitted_to, self.targets[6]) else self.targets[2]
        c = al.copy()
        inv = c.pseudoinverse()
        inv_ref = c.pseudoinverse()
        before_c = c.apply(probe)
        src_inv = inv.source.points.copy()
        try:
            inv.set_target(PointCloud(X.copy()))
        except Exception as e:
            return tag + ": retargeting the inverse raised %s" % type(e).__name__
        if not np.array_equal(c.apply(probe), before_c):
            return tag + ": retargeting the pseudoinverse of an alignment changed the alignment it was derived from"
        before_inv = inv.apply(probe)
        c.set_target(PointCloud(X.copy()))
        if not np.array_equal(inv.apply(probe), before_inv):
            return tag + ": retargeting an alignment changed the pseudoinverse taken from it earlier"
        if not np.array_equal(inv_ref.source.points, src_inv):
            return tag + ": retargeting changed the source of an inverse taken earlier"
        # ... also when source and target are of different point-carrying classes (a cloud aligned to a mesh): a parameter update of
        # a copy must not reach the original (the two share their end points by documented design - so those must be REPLACED)
        if hasattr(al, "h_matrix") and hasattr(al, "from_vector_inplace"):
            from menpo.shape import TriMesh

            try:
                o_ = _ctor(cfg)(self.source(cfg), TriMesh(fitted_to.copy(), trilist=np.array([[0, 1, 2], [0, 2, 3]])))
                k_ = o_.copy()
                h0, t0 = o_.h_matrix.copy(), o_.target.points.copy()
                v_ = np.array(k_.as_vector(), dtype=float)
                k_.from_vector_inplace(v_ + np.array([0.3, 0.7, -0.2, 0.5, 0.25, -0.4, 0.1, 0.6])[:len(v_)])
                if not np.array_equal(o_.h_matrix, h0) or not np.array_equal(o_.target.points, t0):
                    return tag + ": a parameter update of a COPY of an alignment (cloud source, mesh target) changed the original's %s" % (
                        "matrix" if not np.array_equal(o_.h_matrix, h0) else "target")
            except NotImplementedError:
                pass
        # the plain (non-alignment) transform taken from an alignment is its own object as well
        if hasattr(al, "as_non_alignment") and hasattr(al, "h_matrix"):
            c3 = al.copy()
            plain = c3.as_non_alignment()
            if type(plain).__name__.startswith("Alignment") or not L.close(plain.h_matrix, c3.h_matrix, 0):
                return tag + ": as_non_alignment() is not the same map as a plain family member"
            if np.shares_memory(plain.h_matrix, c3.h_matrix):
                return tag + ": as_non_alignment() shares its matrix with the alignment it was taken from"
        fx = _ctor(cfg)(self.source(cfg), PointCloud(X.copy()))
        if not self._maps(c, fx, probe):
            return tag + ": a copy retargeted after its inverse was taken and retargeted differs from a fresh construction"
        return None

    def _number_types(self, cfg, fresh, fitted_to, probe, tag, ev, i):
        """point sets stored as float32 / whole numbers are the same point sets (the pooled coordinates are whole numbers)"""
        from menpo.shape import PointCloud, TriMesh

        if ev["op"] not in ("build", "set_target") or i != (ev.get("a") or 1) - 1:
            return None
        # a target may be a mesh with a connectivity of ITS OWN (the other diagonal of the quadrilateral): an alignment - also a
        # piecewise-affine one, whose triangulation is the source's - retargeted to it is the map a fresh construction to the same
        # POINTS gives, and its aligned source lands on them
        T3 = fitted_to + np.array([0.37, -0.21]) + 0.03 * fitted_to[::-1]
        try:
            ref3 = _ctor(cfg)(self.source(cfg), PointCloud(T3.copy()))
            a3 = _ctor(cfg)(self.source(cfg), PointCloud(fitted_to.copy()))
            a3.set_target(TriMesh(T3.copy(), trilist=np.array([[1, 2, 3], [1, 3, 0]])))
            g3, w3 = np.asarray(a3.apply(probe), dtype=float), np.asarray(ref3.apply(probe), dtype=float)
            as3, ar3 = np.asarray(a3.aligned_source().points, dtype=float), np.asarray(ref3.aligned_source().points, dtype=float)
        except Exception as e:
            from ..core import from_library

            if not from_library(e):
                raise
            return tag + ": retargeting to a mesh that carries its own triangle list failed (%s: %s)" % (type(e).__name__, str(e)[:100])
        if not np.allclose(g3, w3, rtol=0, atol=1e-6 * max(1.0, self.diam)) or not np.allclose(as3, ar3, rtol=0, atol=1e-6 * max(1.0, self.diam)):
            return tag + ": retargeted to a mesh that carries its own (different) triangle list, the alignment is not the map a fresh construction to the same points gives"
        for dt in (np.float32, np.int64, np.uint16, np.uint32):
            if np.dtype(dt).kind == "u":
                # unsigned pixel coordinates: the same problem shifted into the positive quadrant (the fit of the shifted sets is
                # the reference; families that contain translations only - the others are not translation-equivariant)
                if cfg not in ("translation", "similarity", "similarity_m", "similarity_norot", "similarity_norot_m", "affine"):
                    continue
                sh_ = np.array([20.0, 30.0])
                ref_u = _ctor(cfg)(PointCloud(self.src_pts + sh_), PointCloud(fitted_to + sh_))
                try:
                    other = _ctor(cfg)(PointCloud((self.src_pts + sh_).astype(dt)), PointCloud((fitted_to + sh_).astype(dt)))
                    got = np.asarray(other.apply(probe + sh_), dtype=float)
                except Exception as e:
                    return tag + ": refused / failed on point sets stored as %s (%s: %s)" % (np.dtype(dt).name, type(e).__name__, str(e)[:100])
                if not np.allclose(got, ref_u.apply(probe + sh_), rtol=0, atol=1e-6 * max(1.0, self.diam)):
                    return tag + ": the fit to point sets stored as %s (unsigned) is a different map" % np.dtype(dt).name
                continue
            S = self.src_pts.astype(dt)
            src = TriMesh(S, trilist=np.array([[0, 1, 2], [0, 2, 3]])) if cfg == "pwa" else PointCloud(S)
            try:
                other = _ctor(cfg)(src, PointCloud(fitted_to.astype(dt)))
                got = np.asarray(other.apply(probe), dtype=float)
            except Exception as e:
                return tag + ": refused / failed on the same point sets stored as %s (%s: %s)" % (np.dtype(dt).name, type(e).__name__, str(e)[:100])
            if not np.allclose(got, fresh.apply(probe), rtol=0, atol=1e-4 * max(1.0, self.diam)):
                return tag + ": the fit to the same point sets stored as %s is a different map" % np.dtype(dt).name
            # ... and an alignment BUILT on such point sets is retargeted like any other: to a target that is not whole-numbered
            # (float64) it becomes the map a fresh construction gives, and its inverse still undoes it
            T2 = fitted_to + np.array([0.37, -0.21]) + 0.03 * fitted_to[::-1]
            try:
                fresh2 = _ctor(cfg)(self.source(cfg), PointCloud(T2.copy()))
                other.set_target(PointCloud(T2.copy()))
                got2 = np.asarray(other.apply(probe), dtype=float)
                want2 = np.asarray(fresh2.apply(probe), dtype=float)
                back2 = np.asarray(other.pseudoinverse().apply(got2), dtype=float) if not cfg.startswith("tps") else probe
            except Exception as e:
                from ..core import from_library

                if not from_library(e):
                    raise
                return tag + ": an alignment built on %s point sets fails when retargeted to a float64 target / inverted afterwards (%s: %s)" % (
                    np.dtype(dt).name, type(e).__name__, str(e)[:100])
            if not np.allclose(got2, want2, rtol=0, atol=1e-4 * max(1.0, self.diam)):
                return tag + ": an alignment built on %s point sets and retargeted to a float64 target differs from a fresh construction" % np.dtype(dt).name
            if not np.allclose(back2, probe, rtol=0, atol=1e-4 * max(1.0, self.diam)):
                return tag + ": the inverse of an alignment built on %s point sets and retargeted does not undo it" % np.dtype(dt).name
        return None

    def _shadow(self, i, cfg, view, tag):
        """the 3-D shadow, carried through the same build / set_target / copy history, equals a fresh 3-D construction"""
        from menpo.shape import PointCloud

        a3 = self.als3[i]
        if a3 is None:
            return None
        v = view["fitval"]
        T3 = self.lift(self.targets[v], v)
        f3 = _ctor(cfg)(PointCloud(self.lift(self.src_pts)), PointCloud(T3.copy()))
        if not L.close(a3.h_matrix, f3.h_matrix, 1e-9):
            return tag + ": the same history on 3-D point sets leaves a map that differs from a freshly constructed 3-D alignment"
        if not L.close(a3.aligned_source().points, f3.aligned_source().points, 1e-9) or abs(a3.alignment_error() - f3.alignment_error()) > 1e-9 * max(1.0, f3.alignment_error()):
            return tag + ": 3-D aligned source / alignment error depend on the history"
        if not L.close(a3.target.points, T3, 0):
            return tag + ": 3-D target is not the point set it was (re)targeted to"
        return None


def replay(src, targets, hist):
    w = World(src, targets)
    for k, ev in enumerate(hist):
        try:
            bad = w.step(ev)
        except Exception as e:
            from ..core import from_library

            if not from_library(e):
                raise
            cfgs = [v["cfg"] for v in ev.get("als", [])]
            bad = "%s raised by menpo while the step was executed / its result inspected (configurations %s): %s" % (type(e).__name__, cfgs, str(e)[:120])
        if bad:
            return {"step": k, "op": ev["op"], "a": ev["a"], "o": ev["o"], "v": ev["v"], "what": bad}
    return None
