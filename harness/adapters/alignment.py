"""Adapter for Alignment.tla: replay build / set_target / in-place target edit / copy histories on
the real alignment classes (C07, C08)."""
import math

import numpy as np

from .. import lattice as L

TOL = 1e-9


def _ctor(cfg):
    import menpo.transform as mt
    from menpo.transform import rbf

    return {
        "translation": lambda s, t: mt.AlignmentTranslation(s, t),
        "uniformscale": lambda s, t: mt.AlignmentUniformScale(s, t),
        "rotation": lambda s, t: mt.AlignmentRotation(s, t),
        "rotation_m": lambda s, t: mt.AlignmentRotation(s, t, allow_mirror=True),
        "similarity": lambda s, t: mt.AlignmentSimilarity(s, t),
        "similarity_m": lambda s, t: mt.AlignmentSimilarity(s, t, allow_mirror=True),
        "similarity_norot": lambda s, t: mt.AlignmentSimilarity(s, t, rotation=False),
        "affine": lambda s, t: mt.AlignmentAffine(s, t),
        "pwa": lambda s, t: mt.PiecewiseAffine(s, t),
        "tps": lambda s, t: mt.ThinPlateSplines(s, t),
        "tps_r2logr": lambda s, t: mt.ThinPlateSplines(s, t, kernel=rbf.R2LogRRBF(s.points)),
        "tps_msv": lambda s, t: mt.ThinPlateSplines(s, t, min_singular_val=1e-3),
    }[cfg]


def fit_matrix(fit):
    """3x3 matrix of the map x -> k A (x - cS) + cT, k = sqrt(k2)"""
    A = np.array([[L.fl(x) for x in row] for row in fit["A"]])
    k = math.sqrt(L.fl(fit["k2"]))
    cS = np.array([L.fl(x) for x in fit["cS"]])
    cT = np.array([L.fl(x) for x in fit["cT"]])
    M = np.eye(3)
    M[:2, :2] = k * A
    M[:2, 2] = cT - k * A @ cS
    return M


def fit_error(fit, err):
    k = math.sqrt(L.fl(fit["k2"]))
    v = L.fl(err["e0"]) + L.fl(err["e1"]) * k
    return math.sqrt(max(v, 0.0))


class World:
    def __init__(self, src, targets):
        from menpo.shape import PointCloud, TriMesh

        self.src_pts = np.array(src, dtype=float)
        self.targets = [None] + [np.array(t, dtype=float) for t in targets]
        self.tobj = {}
        self.als = []
        self.src_objs = []
        self.diam = float(np.max(np.linalg.norm(self.src_pts[:, None] - self.src_pts[None], axis=2)))
        bad3 = PointCloud(self.targets[1][:-1])
        bad4 = PointCloud(np.hstack([self.targets[1], np.ones((len(src), 1))]))
        self.tobj[3], self.tobj[4] = bad3, bad4
        self.tobj[5] = PointCloud(self.targets[1].reshape(len(src) // 2, -1).copy())      # same number of coordinates, other shape

    def source(self, cfg):
        from menpo.shape import PointCloud, TriMesh

        if cfg == "pwa":
            return TriMesh(self.src_pts, trilist=np.array([[0, 1, 2], [0, 2, 3]]))
        return PointCloud(self.src_pts)

    def step(self, ev):
        from menpo.shape import PointCloud

        op = ev["op"]
        err = ""
        if op == "build":
            vals = ev["vals"]
            for o in (1, 2):
                self.tobj[o] = PointCloud(self.targets[vals[o - 1]])
            cfg = ev["als"][0]["cfg"]
            s = self.source(cfg)
            self.src_objs.append(s)
            self.als.append(_ctor(cfg)(s, self.tobj[1]))
        elif op == "set_target":
            try:
                self.als[ev["a"] - 1].set_target(self.tobj[ev["o"]])
            except ValueError:
                err = "ValueError"
            except Exception as e:       # the target was not refused up front and something deeper fell over
                return "set_target raised %s instead of accepting or refusing the target with a ValueError" % type(e).__name__
        elif op == "edit":
            self.tobj[ev["o"]].points[...] = self.targets[ev["v"]]
        elif op == "perturb":
            al = self.als[ev["a"] - 1]
            v = np.array(al.as_vector(), dtype=float)
            al.from_vector_inplace(v + np.array([0.3, 0.7, -0.2, 0.5, 0.25, -0.4, 0.1, 0.6])[:len(v)])
        elif op == "pinv":
            al = self.als[ev["a"] - 1]
            inv = al.pseudoinverse()
            if type(inv) is not type(al):
                return "pseudoinverse changed the class to " + type(inv).__name__
            if not (L.close(inv.source.points, al.target.points, 1e-12) and L.close(inv.target.points, al.source.points, 1e-12)):
                return "pseudoinverse does not have source and target exchanged"
            pts = self.src_pts
            if getattr(al, "has_true_inverse", False):
                img = al.apply(pts)
                if not L.close(inv.apply(img), pts, 1e-8):
                    return "pseudoinverse does not undo the current fit (stale inverse?)"
            else:
                if not np.allclose(inv.apply(al.target.points), al.source.points, atol=1e-8 * self.diam):
                    return "pseudoinverse of the warp does not send target landmarks back onto source landmarks"
            # the inverse is itself an alignment (from the old target to the old source): retargeting it equals building the
            # same class, with the same options, from ITS source to the new target
            cfg = ev["als"][ev["a"] - 1]["cfg"]
            if cfg != "pwa":
                for v in (1, 2, 6):
                    X = self.targets[v]
                    inv2 = al.pseudoinverse()
                    src2 = inv2.source.points.copy()
                    inv2.set_target(PointCloud(X.copy()))
                    fresh = _ctor(cfg)(PointCloud(src2.copy()), PointCloud(X.copy()))
                    same = (L.close(inv2.h_matrix, fresh.h_matrix, 1e-9) if hasattr(fresh, "h_matrix")
                            else np.allclose(inv2.apply(self.src_pts), fresh.apply(self.src_pts), atol=1e-8 * self.diam))
                    if not same or not np.array_equal(inv2.source.points, src2) or not L.close(inv2.target.points, X, 0):
                        return "retargeting the inverse alignment differs from building it afresh from its own source (target value %d)" % v
        elif op == "copy":
            self.als.append(self.als[ev["a"] - 1].copy())
            self.src_objs.append(self.src_objs[ev["a"] - 1])
        if err != ev["err"]:
            return "outcome %r, expected %r" % (err or "ok", ev["err"] or "ok")
        return self.compare(ev)

    def compare(self, ev):
        from menpo.shape import PointCloud

        for i, v in enumerate(ev["vals"]):
            if not np.array_equal(self.tobj[i + 1].points, self.targets[v]):
                return "the caller's target array %d was modified" % (i + 1)
        if not np.array_equal(self.tobj[3].points, self.targets[1][:-1]):
            return "a rejected target was modified"
        for i, view in enumerate(ev["als"]):
            al = self.als[i]
            cfg = view["cfg"]
            tag = "alignment %d (%s)" % (i + 1, cfg)
            if not np.array_equal(al.source.points, self.src_pts):
                return tag + ": source changed"
            if view["pert"]:
                # parameters overwritten by hand: not a fit of anything; its target is its own aligned source (C05's clause)
                if not L.close(al.target.points, al.apply(self.src_pts), 1e-9):
                    return tag + ": after a parameter update the target is not the aligned source"
                continue
            tcur = self.targets[view["tval"]]
            if view["tobj"] and al.target is not self.tobj[view["tobj"]] and not np.array_equal(al.target.points, tcur):
                return tag + ": target is not the point set it was (re)targeted to"
            if not L.close(al.target.points, tcur, TOL):
                return tag + ": target coordinates differ from the point set it was (re)targeted to"
            fitted_to = self.targets[view["fitval"]]
            fresh = _ctor(cfg)(self.source(cfg), PointCloud(fitted_to.copy()))
            probe = np.array([[0.5, 1.0], [1.0, 2.5], [0.0, 2.0], [1.5, 1.5]])
            if "sym" in view["fit"]:
                # uninterpreted warp: indistinguishable from a fresh construction, and interpolating
                tol = 1e-8 * self.diam
                if not np.allclose(al.apply(self.src_pts), fitted_to, atol=tol):
                    return tag + ": does not send source landmarks onto the target it was last fitted to"
                if not np.allclose(al.apply(probe), fresh.apply(probe), atol=1e-9):
                    return tag + ": differs from a freshly constructed alignment to the same target"
            else:
                M = fit_matrix(view["fit"])
                if not L.close(al.h_matrix, M, TOL):
                    return tag + ": h_matrix differs from the closed-form fit (max diff %.3g)" % L.maxdiff(al.h_matrix, M)
                if not L.close(al.h_matrix, fresh.h_matrix, TOL):
                    return tag + ": differs from a freshly constructed alignment to the same target"
                if not L.close(al.apply(self.src_pts), L.apply_h(M, self.src_pts), TOL):
                    return tag + ": apply(source) differs from the fitted map"
                want_err = fit_error(view["fit"], view["err"])
                got_err = al.alignment_error()
                if abs(got_err - want_err) > 1e-7 * max(1.0, want_err):
                    return tag + ": alignment_error %.12g, expected %.12g" % (got_err, want_err)
            if not L.close(al.aligned_source().points, al.apply(self.src_pts), 1e-12):
                return tag + ": aligned_source() is not the transform applied to the source"
            if cfg in ("translation", "similarity", "similarity_m", "similarity_norot", "affine", "tps"):
                # the families that contain translations are translation-equivariant: the same configuration far from the origin
                # (offsets 1e5, not whole numbers) gives the same fit carried along - "all non-degenerate point sets"
                far_t = np.array([1.0e5 + 0.25, -2.0e5 + 0.5])
                far = _ctor(cfg)(PointCloud(self.src_pts + far_t), PointCloud(fitted_to + far_t))
                if not np.allclose(far.apply(self.src_pts + far_t) - far_t, fresh.apply(self.src_pts), rtol=0, atol=1e-4):
                    return tag + ": the same alignment problem translated far from the origin is not solved by the translated fit"
                # (the affine fit solves uncentred normal equations: at offsets of 1e5 it keeps ~6 digits - accuracy, not the property)
                if hasattr(far, "h_matrix") and not np.allclose(far.h_matrix[:2, :2], fresh.h_matrix[:2, :2], rtol=0, atol=1e-5 if cfg == "affine" else 1e-9):
                    return tag + ": the linear part of the fit changes when both point sets are translated far from the origin"
            e2 = float(np.linalg.norm(al.target.points - al.aligned_source().points))
            if abs(al.alignment_error() - e2) > 1e-9 * max(1.0, e2):
                return tag + ": alignment_error is not the distance between aligned source and target"
        return None


def replay(src, targets, hist):
    w = World(src, targets)
    for k, ev in enumerate(hist):
        bad = w.step(ev)
        if bad:
            return {"step": k, "op": ev["op"], "a": ev["a"], "o": ev["o"], "v": ev["v"], "what": bad}
    return None
