"""Adapters for PCABook.tla (bookkeeping histories) and PCA.tla (exact statistics: batch identities,
incremental = batch)."""
import numpy as np

from .. import lattice as L

TOL = 1e-8


# ------------------------------------------------------------------ bookkeeping histories (C10)
def _book_model(kind, spectrum):
    from menpo.model import PCAModel, PCAVectorModel
    from menpo.shape import PointCloud

    k = len(spectrum)
    d = k + 2 if (k + 2) % 2 == 0 else k + 3
    comps = np.eye(k, d)
    ev = np.array(spectrum, dtype=float)
    if kind == "vector":
        return PCAVectorModel.init_from_components(comps, ev, np.zeros(d), 10, True)
    return PCAModel.init_from_components(comps, ev, PointCloud(np.zeros((d // 2, 2))), 10, True)


def _obs(m):
    noise = float(m.noise_variance())
    return {"n_components": int(m.n_components), "n_active": int(m.n_active_components), "eig": [float(x) for x in m.eigenvalues],
            "variance": float(m.variance()), "original": float(m.original_variance()), "noise": noise,
            "comp_rows": int(m.components.shape[0]), "n_trimmed": int(m._trimmed_eigenvalues.shape[0])}


def replay_book(args):
    kind, spectrum, hist = args
    m = _book_model(kind, spectrum)
    for k, ev in enumerate(hist):
        op, arg = ev["op"], ev["arg"]
        err = "ok"
        try:
            if op == "set_int":
                m.n_active_components = int(arg)
            elif op == "set_frac":
                m.n_active_components = float(arg[0]) / float(arg[1])
            elif op == "trim":
                m.trim_components(None if arg == 0 else int(arg))
        except ValueError:
            err = "ValueError"
        if err != ev["res"]:
            return {"step": k, "op": op, "arg": arg, "what": "outcome %s, expected %s" % (err, ev["res"])}
        o, e = _obs(m), ev["obs"]
        want_noise = e["noise"][0] / e["noise"][1]
        ok = (o["n_components"] == e["n_components"] and o["n_active"] == e["n_active"] and o["comp_rows"] == e["n_active"]
              and np.allclose(o["eig"], e["eig"], rtol=1e-12) and abs(o["variance"] - e["variance"]) < 1e-9
              and abs(o["original"] - e["original"]) < 1e-9 and abs(o["noise"] - want_noise) < 1e-9 and o["n_trimmed"] == e["n_trimmed"])
        if not ok:
            return {"step": k, "op": op, "arg": arg, "what": "bookkeeping state differs from the specification", "got": o, "want": e}
        # the accounting identities, evaluated on the real model
        if abs(m.variance_ratio() - o["variance"] / o["original"]) > 1e-12 or len(m.eigenvalues_cumulative_ratio()) != o["n_active"]:
            return {"step": k, "op": op, "what": "ratio queries inconsistent"}
    return None


# ------------------------------------------------------------------ exact statistics (C10 / C11)
def _stats(st):
    return st["n"], np.array([L.fl(x) for x in st["mean"]]), L.mat(st["C"])


def _spectrum(C):
    w, v = np.linalg.eigh((C + C.T) / 2)
    w = w[::-1]
    keep = w > max(w.max(), 0) * 1e-10
    return w[keep]


def _check_model(m, n, mean, C, tag, check_count=True):
    U, lam = m._components, m._eigenvalues
    if check_count and m.n_samples != n:
        return tag + ": n_samples %r, expected %d" % (m.n_samples, n)
    if not L.close(m._mean, mean, TOL):
        return tag + ": mean differs from the sample mean (max diff %.3g)" % L.maxdiff(m._mean, mean)
    want = _spectrum(C)
    if len(lam) != len(want):
        return tag + ": %d components, the data has rank %d" % (len(lam), len(want))
    if np.any(lam <= 0) or np.any(np.diff(lam) > 1e-12 * max(1.0, lam[0])):
        return tag + ": eigenvalues not positive and descending"
    if not L.close(lam, want, 1e-7):
        return tag + ": eigenvalues are not the sample variances along the components (got %s, expected %s)" % (lam.tolist(), want.tolist())
    if not L.close(U @ U.T, np.eye(len(lam)), 1e-8):
        return tag + ": components are not orthonormal"
    if not L.close(U @ C @ U.T, np.diag(want), 1e-7 * max(1.0, want[0])):
        return tag + ": components do not diagonalise the sample covariance"
    if not L.close(U.T @ np.diag(lam) @ U, C, 1e-7 * max(1.0, want[0])):
        return tag + ": U^T diag(l) U is not the sample covariance of the data seen so far"
    return None


def check_batch(o):
    from menpo.model import PCAModel, PCAVectorModel
    from menpo.shape import PointCloud

    bad = []
    c = o["case"]
    X = np.array(o["X"], dtype=float)
    n, mean, C = _stats(o["stats"])
    centre = c["centre"]
    arr = X.copy()
    models = [("PCAVectorModel", PCAVectorModel(arr, centre=centre, inplace=False)),
              ("PCAVectorModel(inplace)", PCAVectorModel(X.copy(), centre=centre, inplace=True))]
    if not np.array_equal(arr, X):
        bad.append(("PCAVectorModel(inplace=False) modified the caller's data matrix", {}, None))
    if X.shape[1] % 2 == 0:
        models.append(("PCAModel", PCAModel([PointCloud(x.reshape(-1, 2)) for x in X], centre=centre)))
    # object-backed by images: a masked image whose d masked pixels are the features, and a plain one-row image
    from menpo.image import Image, MaskedImage

    d = X.shape[1]
    mk = np.zeros((2, d), dtype=bool)
    mk[np.arange(d) % 2, np.arange(d)] = True
    templ_m = MaskedImage(np.zeros((1, 2, d)), mask=mk)
    templ_i = Image(np.zeros((1, 1, d)))
    templates = {"PCAModel(masked images)": templ_m, "PCAModel(images)": templ_i}
    for t, templ in templates.items():
        models.append((t, PCAModel([templ.from_vector(x) for x in X], centre=centre)))
    # samples handed over as a one-shot iterator with their count (the documented alternative to a list)
    models.append(("PCAModel(masked images, iterator + n_samples)", PCAModel((templ_m.from_vector(x) for x in X), centre=centre, n_samples=len(X))))
    templates["PCAModel(masked images, iterator + n_samples)"] = templ_m
    # the decomposition is scale-equivariant: the same data in other units (x 1e-6, x 1e4) has the same number of components,
    # the same subspaces and eigenvalues scaled by the square of the unit (both code paths)
    base = PCAVectorModel(X.copy(), centre=centre, inplace=False)
    for unit in (1e-6, 1e4):
        mu = PCAVectorModel(X * unit, centre=centre, inplace=False)
        ok = mu.n_components == base.n_components and np.allclose(mu._eigenvalues, base._eigenvalues * unit * unit, rtol=1e-7, atol=0) and \
            np.allclose(np.abs(mu._components @ base._components.T), np.eye(base.n_components), atol=1e-6) and np.allclose(mu._mean, base._mean * unit, rtol=1e-9, atol=0)
        if not ok:
            bad.append(("the model of the same data in units of %g has %d components (eigenvalues %s), the model in units of 1 has %d (%s)" % (
                unit, mu.n_components, (mu._eigenvalues / unit / unit).round(6).tolist(), base.n_components, base._eigenvalues.round(6).tolist()), {}, None))
    # ... and the same data stored as whole numbers (in the unit that makes every entry integral) or as float32 is the same data
    unit = next((u for u in (1, 2, 3, 4, 5, 6, 8, 10, 12, 20, 30, 60, 100, 120) if np.allclose(X * u, np.round(X * u), rtol=0, atol=1e-9)), None)
    if unit is not None:
        from menpo.math import pca as raw_pca

        Xi = np.round(X * unit)
        for dt in (np.int64, np.int32, np.float32):
            try:
                mi = PCAVectorModel(Xi.astype(dt), centre=centre, inplace=False)
                e_raw, l_raw, m_raw = raw_pca(Xi.astype(dt), centre=centre, inplace=False)
            except Exception as e:
                bad.append(("PCA of the same data stored as %s raised %s" % (np.dtype(dt).name, type(e).__name__), {"msg": str(e)[:120]}, None))
                continue
            tol = 1e-4 if dt is np.float32 else 1e-9
            kb = base.n_components
            top = max(1.0, float(base._eigenvalues.max(initial=0.0)) * unit * unit)
            ev = np.asarray(mi._eigenvalues, dtype=float)
            # (single precision cannot tell a zero variance from rounding noise at the fixed eps of 1e-10: directions beyond the
            #  float64 model's are tolerated there when their variance is noise - accuracy, not the property)
            count_ok = (mi.n_components == kb and len(l_raw) == kb) if dt is not np.float32 else \
                (mi.n_components >= kb and len(l_raw) == mi.n_components and np.all(ev[kb:] <= 1e-5 * top))
            ok = count_ok and \
                np.allclose(ev[:kb], base._eigenvalues * unit * unit, rtol=tol, atol=tol * top) and \
                np.allclose(np.asarray(l_raw, dtype=float), ev, rtol=tol, atol=tol * top) and \
                np.allclose(np.asarray(mi._mean, dtype=float), base._mean * unit, rtol=0, atol=tol * max(1.0, float(np.abs(Xi).max()))) and \
                np.allclose(np.asarray(m_raw, dtype=float), np.asarray(mi._mean, dtype=float), rtol=0, atol=tol * max(1.0, float(np.abs(Xi).max())))
            if not ok:
                bad.append(("the model of the same data stored as %s differs from the float64 model: %d components, mean %s; float64: %d components, mean %s" % (
                    np.dtype(dt).name, mi.n_components, np.asarray(mi._mean, dtype=float).round(4).tolist(), base.n_components, (base._mean * unit).round(4).tolist()), {}, None))
    for tag, m in models:
        r = _check_model(m, n, mean, C, tag)
        if r:
            bad.append((r, {}, None))
            continue
        k = m.n_components
        rng = np.random.RandomState(3)
        if tag in templates:
            as_obj = templates[tag].from_vector
        else:
            as_obj = (lambda v: PointCloud(v.reshape(-1, 2))) if tag == "PCAModel" else (lambda v: v)
        vec = (lambda r_: r_.as_vector()) if tag.startswith("PCAModel") and tag != "PCAVectorModel" else (lambda r_: np.asarray(r_).ravel())
        # exact reconstruction of every training sample with all components kept
        for x in X:
            if not L.close(vec(m.reconstruct(as_obj(x))), x, 1e-8):
                bad.append((tag + ": a training sample is not reconstructed exactly at full rank", {"x": x}, None))
                break
        for _ in range(4):
            w = rng.randint(-3, 4, size=k).astype(float)
            inst = m.instance(w)
            if not L.close(m.project(inst), w, 1e-8):
                bad.append((tag + ": project(instance(w)) != w", {"w": w}, None))
            y = rng.randint(-5, 6, size=X.shape[1]).astype(float)
            r1 = m.reconstruct(as_obj(y))
            r2 = m.reconstruct(r1)
            if not L.close(vec(r2), vec(r1), 1e-8):
                bad.append((tag + ": reconstruction is not idempotent", {}, None))
            resid = y - vec(r1)
            if not L.close(m._components @ resid, np.zeros(k), 1e-8):
                bad.append((tag + ": reconstruction is not an orthogonal projection", {}, None))
            po = vec(m.project_out(as_obj(y)))
            if not L.close(m._components @ po, np.zeros(k), 1e-8):
                bad.append((tag + ": project_out residual is not orthogonal to the model", {}, None))
        # every read-only query of the model (each component as a sample, spectra, ratios, text) leaves it exactly as it was, and
        # component(i) is mean + scale * sqrt(eigenvalue_i) * direction_i
        snap = [np.array(v, copy=True) for v in (m._eigenvalues, m._components, m._mean)]
        try:
            for i in range(k):
                ci = vec(m.component(i))
                want_ci = m._mean + 1.0 * np.sqrt(snap[0][i]) * snap[1][i]
                if not L.close(ci, want_ci, 1e-8):
                    bad.append((tag + ": component(%d) is not mean + std * direction" % i, {}, None))
                    break
                c2 = vec(m.component(i, with_mean=False, scale=2.0))
                if not L.close(c2, snap[1][i], 1e-12):       # (documented: the scale only applies together with the mean)
                    bad.append((tag + ": component(%d, with_mean=False) is not the direction itself" % i, {}, None))
                    break
            for q in ("components", "eigenvalues", "n_components", "n_active_components", "n_features", "n_samples"):
                getattr(m, q)
            for q in ("mean", "variance", "variance_ratio", "eigenvalues_ratio", "eigenvalues_cumulative_ratio", "noise_variance", "noise_variance_ratio", "original_variance"):
                getattr(m, q)()
            str(m)
        except Exception as e:
            from ..core import from_library

            if not from_library(e):
                raise
            bad.append((tag + ": a read-only query of the model raised %s" % type(e).__name__, {"msg": str(e)[:120]}, None))
        if any(not np.array_equal(a_, b_) for a_, b_ in zip(snap, (m._eigenvalues, m._components, m._mean))):
            bad.append((tag + ": read-only queries (component(i), spectra, ratios) changed the model's basis / eigenvalues / mean", {}, None))
            continue
        # weights may be given for the leading components only: the missing ones are zero; several instances at once are the
        # instances one at a time
        for j in range(1, k + 1):
            wf = np.zeros(k)
            wf[:j] = rng.randint(1, 4, size=j)
            if not L.close(vec(m.instance(wf[:j].copy())), vec(m.instance(wf.copy())), 1e-9):
                bad.append((tag + ": instance() with %d of %d weights is not the instance with the missing weights set to zero" % (j, k), {}, None))
                break
        # weights in units of standard deviations (normalized_weights=True) are the plain weights times sqrt(eigenvalue) - for the
        # vector AND the object form of every model
        wn = rng.randint(1, 4, size=k).astype(float)
        try:
            a_n = vec(m.instance(wn.copy(), normalized_weights=True))
            a_p = vec(m.instance(wn * np.sqrt(np.asarray(m._eigenvalues[:k], dtype=float))))
            if not L.close(a_n, a_p, 1e-8):
                bad.append((tag + ": instance(w, normalized_weights=True) is not instance(w * sqrt(eigenvalues))", {}, None))
        except Exception as e:
            bad.append((tag + ": instance(w, normalized_weights=True) raised %s" % type(e).__name__, {"msg": str(e)[:100]}, None))
        if tag.startswith("PCAVectorModel") and k >= 2:
            Wm = rng.randint(-3, 4, size=(3, k - 1)).astype(float)
            many = np.asarray(m.instance_vectors(Wm.copy()))
            one = np.stack([np.asarray(m.instance(w.copy())).ravel() for w in Wm])
            if many.shape != one.shape or not L.close(many, one, 1e-9):
                bad.append((tag + ": instance_vectors(W) is not instance(w) row by row", {}, None))
        # the batched forms are the single-vector forms row by row (several vectors, several components: a non-square block)
        if tag.startswith("PCAVectorModel") and k >= 1:
            Y = rng.randint(-5, 6, size=(k + 2, X.shape[1])).astype(float)
            for bname, sname in (("project_vectors", "project"), ("reconstruct_vectors", "reconstruct"), ("project_out_vectors", "project_out")):
                if not hasattr(m, bname):
                    continue
                many = np.asarray(getattr(m, bname)(Y.copy()))
                one = np.stack([np.asarray(getattr(m, sname)(y.copy())).ravel() for y in Y])
                if many.shape != one.shape or not L.close(many, one, 1e-9):
                    bad.append((tag + ": %s(Y) is not %s(y) row by row" % (bname, sname), {"shape": list(many.shape)}, None))
        # active-component changes and trimming
        orig = m.original_variance()
        for j in range(1, k + 1):
            m.n_active_components = j
            if m.components.shape[0] != j or len(m.eigenvalues) != j:
                bad.append((tag + ": component / eigenvalue counts inconsistent after n_active_components = %d" % j, {}, None))
            # with j active components project_out removes exactly what reconstruct keeps: residual + reconstruction = the input
            yj = rng.randint(-5, 6, size=X.shape[1]).astype(float)
            rj, pj = vec(m.reconstruct(as_obj(yj))), vec(m.project_out(as_obj(yj)))
            if not L.close(pj + rj, yj, 1e-8) or not L.close(m.components @ pj, np.zeros(j), 1e-8):
                bad.append((tag + ": project_out is not the complement of reconstruct with %d of %d components active" % (j, k), {}, None))
            wj = rng.randint(-3, 4, size=j).astype(float)
            if not L.close(m.project(m.instance(wj)), wj, 1e-8):
                bad.append((tag + ": project(instance(w)) != w with %d of %d components active" % (j, k), {}, None))
            disc = m.noise_variance() * (k - j) if j < k else 0.0
            if abs(m.original_variance() - orig) > 1e-9 * max(1, orig) or abs(m.variance() + disc - orig) > 1e-8 * max(1, orig):
                bad.append((tag + ": kept + discarded variance != original variance", {"j": j}, None))
        if tag == "PCAVectorModel" and k >= 2:
            for j in range(1, k):
                a = PCAVectorModel(X.copy(), centre=centre, inplace=False)
                a.trim_components(j)
                b = PCAVectorModel(X.copy(), centre=centre, inplace=False, max_n_components=j)
                same = (a.n_components == b.n_components == j and L.close(a._eigenvalues, b._eigenvalues, 1e-12)
                        and L.close(np.abs(a._components @ b._components.T), np.eye(j), 1e-8)
                        and abs(a.noise_variance() - b.noise_variance()) < 1e-12 and abs(a.original_variance() - orig) < 1e-9 * max(1, orig))
                if not same:
                    bad.append((tag + ": trimming to %d components differs from building with max_n_components" % j, {}, None))
                # ... and the object-backed classes built with the same options (shapes, masked images)
                objs = [("PCAModel(masked images)", [templ_m.from_vector(x) for x in X])]
                if X.shape[1] % 2 == 0:
                    objs.append(("PCAModel", [PointCloud(x.reshape(-1, 2)) for x in X]))
                for otag, samples in objs:
                    ob = PCAModel(samples, centre=centre, max_n_components=j)
                    if not (ob.n_components == j and ob.n_samples == len(X) and L.close(ob._eigenvalues, b._eigenvalues, 1e-9)
                            and abs(ob.original_variance() - orig) < 1e-9 * max(1, orig) and abs(ob.noise_variance() - b.noise_variance()) < 1e-9):
                        bad.append((otag + ": built with max_n_components=%d it has %d components / n_samples %r (the vector model: %d / %d)" % (
                            j, ob.n_components, ob.n_samples, b.n_components, b.n_samples), {}, None))
    return bad


def check_incr(o):
    from menpo.model import PCAModel, PCAVectorModel
    from menpo.shape import PointCloud

    bad = []
    c = o["case"]
    X = np.array(o["X"], dtype=float)
    centre = c["centre"]
    comp = c["comp"]
    # "(view narrowed)": the number of ACTIVE components is lowered before every increment - a view on the model; the
    # increments must still be absorbed by the whole model
    # (an ITERATOR of vectors with n_samples is documented for PCAVectorModel.increment but np.array(iterator) makes it fail
    #  with an IndexError on the pinned tree: an input-form defect outside what C11 states - observed, not judged)
    # "(refused calls between)": before every increment the model is offered data it must refuse (wrong number of features, a bare
    # 1-D vector); a call that raises must leave the model exactly as it was
    # "(one running iterator)": the samples come from ONE iterator that the model and every increment consume with n_samples
    kinds = ["PCAVectorModel", "PCAVectorModel (view narrowed)", "PCAVectorModel (list increments)", "PCAVectorModel (refused calls between)"] + \
            (["PCAModel", "PCAModel (one running iterator)"] if X.shape[1] % 2 == 0 else [])
    for tag in kinds:
        narrowed = tag.endswith("(view narrowed)")
        wrap = (lambda A: [PointCloud(x.reshape(-1, 2)) for x in A]) if tag.startswith("PCAModel") else (lambda A: A.copy())
        ctor = PCAModel if tag.startswith("PCAModel") else PCAVectorModel
        a = comp[0]
        running = iter(wrap(X)) if tag.endswith("(one running iterator)") else None
        if running is not None:
            m = ctor(running, centre=centre, n_samples=a)
        else:
            m = ctor(wrap(X[:a]), centre=centre) if tag == "PCAModel" else ctor(X[:a].copy(), centre=centre, inplace=False)
        for k, st in enumerate(o["steps"]):
            n, mean, C = _stats(st)
            kind = None
            if k > 0:
                zero_mean_before = centre and bool(np.all(m._mean == 0))
                if narrowed and m.n_components > 1:
                    m.n_active_components = 1
                if tag.endswith("(refused calls between)"):
                    stop = False
                    for what, junk in (("one feature too many", np.ones((2, X.shape[1] + 1))), ("a bare 1-D vector", X[a].copy())):
                        snap = [np.array(v, copy=True) for v in (m._eigenvalues, m._components, m._mean, m._trimmed_eigenvalues)] + [m.n_samples, m.n_active_components]
                        try:
                            m.increment(junk)
                        except Exception:
                            now = [m._eigenvalues, m._components, m._mean, m._trimmed_eigenvalues, m.n_samples, m.n_active_components]
                            if any((np.asarray(x).shape != np.asarray(y).shape) or not np.array_equal(np.asarray(x), np.asarray(y)) for x, y in zip(snap, now)):
                                bad.append((tag + ": an increment that was refused (%s) changed the model" % what, {"composition": comp, "centre": centre}, None))
                                stop = True
                                break
                        else:
                            stop = True          # (accepted: nothing to say about it here, and the model is no longer comparable)
                            break
                    if stop:
                        break
                if running is not None:
                    m.increment(running, n_samples=comp[k])
                elif tag.endswith("(list increments)"):
                    m.increment([row.copy() for row in X[a:a + comp[k]]])          # the samples as a plain list of vectors
                elif tag.endswith("(iterator + n_samples)"):
                    m.increment((row.copy() for row in X[a:a + comp[k]]), n_samples=comp[k])
                else:
                    m.increment(wrap(X[a:a + comp[k]]))
                a += comp[k]
                if zero_mean_before:
                    kind = "ipca_zero_mean_treated_as_uncentred"
            r = _check_model(m, n, mean, C, "%s after %d increment(s) (chunks %s)" % (tag, k, comp[:k + 1]))
            if r:
                bad.append((r, {"composition": comp, "centre": centre}, kind))
                break
        else:
            # final state equals the batch model built by the real code
            b = PCAVectorModel(X.copy(), centre=centre, inplace=False)
            P1, P2 = m._components.T @ m._components, b._components.T @ b._components
            if m.n_samples != b.n_samples or not L.close(m._eigenvalues, b._eigenvalues, 1e-7) or not L.close(P1, P2, 1e-6):
                bad.append((tag + ": incremental model differs from the batch model of the concatenated data", {"composition": comp}, None))
    return bad


def check_blocks(o):
    """Blocks.tla: the blocked in-place products of menpo.math.linalg against the plain product (integer matrices: exact)"""
    from menpo.math.linalg import dot_inplace_left, dot_inplace_right

    bad = []
    c = o["case"]
    n, b, k, small = c["n"], c["b"], c["k"], c["small"]
    rng = np.random.RandomState(n * 100 + b * 10 + k)
    tag = "n=%d, block_size=%d, inner=%d, small=%d" % (n, b, k, small)
    # left: a (n x k) . b (k x small), written into a[:, :small]
    A = rng.randint(-4, 5, size=(n, k)).astype(float)
    B = rng.randint(-4, 5, size=(k, small)).astype(float)
    want = A @ B
    A2, B2 = A.copy(), B.copy()
    r = dot_inplace_left(A2, B2, block_size=b)
    if r.shape != want.shape or not np.array_equal(r, want) or not np.array_equal(B2, B) or not np.shares_memory(r, A2):
        bad.append(("dot_inplace_left differs from the plain product (%s)" % tag, {"blocks": o["blocks"]}, None))
    # right: a (small x k) . b (k x n), written into b[:small]
    A = rng.randint(-4, 5, size=(small, k)).astype(float)
    B = rng.randint(-4, 5, size=(k, n)).astype(float)
    want = A @ B
    A2, B2 = A.copy(), B.copy()
    r = dot_inplace_right(A2, B2, block_size=b)
    if r.shape != want.shape or not np.array_equal(r, want) or not np.array_equal(A2, A) or not np.shares_memory(r, B2):
        bad.append(("dot_inplace_right differs from the plain product (%s)" % tag, {"blocks": o["blocks"]}, None))
    return bad


def run_case(o):
    if "blocks" in o:
        return check_blocks(o)
    return check_batch(o) if o["case"]["kind"] == "batch" else check_incr(o)
