"""Adapter for ShapeCases.tla: build real menpo shapes from abstract descriptors, deep digests,
and the checks of C02 (apply), C05 (shape vectors) and C17 (mesh masking / geometry)."""
import math

import numpy as np

from .. import lattice as L
from . import transforms as tad

TOL = 1e-9


# ---------------------------------------------------------------- building real shapes
def build_shape(desc, with_lms=True, d=None):
    import menpo.shape as ms
    from menpo.image import Image

    cls = desc["cls"]
    P = L.pts(desc["pts"])
    if len(desc["pts"]) == 0 and d is not None:
        P = np.zeros((0, d))            # a group without points still has the dimensionality of its owner
    n = P.shape[0]
    if cls == "PointCloud":
        s = ms.PointCloud(P)
    elif cls == "TriMesh":
        s = ms.TriMesh(P, trilist=np.array(desc["tris"], dtype=np.uint32))
    elif cls == "ColouredTriMesh":
        s = ms.ColouredTriMesh(P, trilist=np.array(desc["tris"], dtype=np.uint32), colours=L.pts(desc["colours"]))
    elif cls == "TexturedTriMesh":
        tex = Image(np.arange(3 * 4 * 5, dtype=float).reshape(3, 4, 5) / 60.0)
        s = ms.TexturedTriMesh(P, L.pts(desc["tcoords"]), tex, trilist=np.array(desc["tris"], dtype=np.uint32))
    elif cls == "PointUndirectedGraph":
        s = ms.PointUndirectedGraph.init_from_edges(P, np.array(desc["edges"]))
    elif cls == "PointDirectedGraph":
        s = ms.PointDirectedGraph.init_from_edges(P, np.array(desc["edges"]))
    elif cls == "PointTree":
        s = ms.PointTree.init_from_edges(P, np.array(desc["edges"]), root_vertex=desc["root"])
    elif cls == "LabelledPointUndirectedGraph":
        from collections import OrderedDict

        masks = OrderedDict((name, np.array(m, dtype=bool)) for name, m in desc["labels"])
        s = ms.LabelledPointUndirectedGraph.init_from_edges(P, np.array(desc["edges"]), masks)
    else:
        raise ValueError(cls)
    if with_lms:
        for name, sub in desc.get("lms", []):
            s.landmarks[name] = build_shape(sub, d=P.shape[1])
    return s


# ---------------------------------------------------------------- deep state
def state(obj, _depth=0):
    """Complete observable state of a shape / image as nested plain data (arrays copied)."""
    from scipy.sparse import issparse

    out = {"__class__": type(obj).__name__}
    for k, v in sorted(vars(obj).items()):
        if k in ("path",):
            continue
        if k == "_landmarks":
            if v is None or v.n_groups == 0:
                out[k] = []
            else:
                out[k] = [(name, state(v[name], _depth + 1)) for name in v.group_labels]
        elif isinstance(v, np.ndarray):
            out[k] = v.copy()
        elif issparse(v):
            c = v.tocsr()
            c.sort_indices()
            out[k] = ("sparse", c.shape, c.data.copy(), c.indices.copy(), c.indptr.copy())
        elif isinstance(v, dict):
            out[k] = [(kk, vv.copy() if isinstance(vv, np.ndarray) else
                       (state(vv, _depth + 1) if hasattr(vv, "__dict__") and not callable(vv) and _depth < 6 else vv))
                      for kk, vv in v.items()]
        elif isinstance(v, list) and v and all(hasattr(x, "__dict__") and not callable(x) for x in v) and _depth < 6:
            out[k] = [state(x, _depth + 1) for x in v]
        elif hasattr(v, "__dict__") and not callable(v) and _depth < 6:
            out[k] = state(v, _depth + 1)
        else:
            out[k] = v
    return out


def same(a, b, tol=0.0, path=""):
    """None when equal, else the path of the first difference."""
    if type(a) is not type(b) and not (isinstance(a, (list, tuple)) and isinstance(b, (list, tuple))):
        return path + ": type %s vs %s" % (type(a).__name__, type(b).__name__)
    if isinstance(a, dict):
        if sorted(a) != sorted(b):
            return path + ": keys %s vs %s" % (sorted(a), sorted(b))
        for k in sorted(a):
            r = same(a[k], b[k], tol, path + "." + str(k))
            if r:
                return r
        return None
    if isinstance(a, (list, tuple)):
        if len(a) != len(b):
            return path + ": length %d vs %d" % (len(a), len(b))
        for i, (x, y) in enumerate(zip(a, b)):
            r = same(x, y, tol, path + "[%d]" % i)
            if r:
                return r
        return None
    if isinstance(a, np.ndarray):
        if a.shape != b.shape or a.dtype != b.dtype:
            return path + ": array shape/dtype %s %s vs %s %s" % (a.shape, a.dtype, b.shape, b.dtype)
        if tol == 0.0 or a.dtype.kind not in "fc":
            ok = np.array_equal(a, b, equal_nan=True) if a.dtype.kind in "fc" else np.array_equal(a, b)
        else:
            ok = L.close(a, b, tol)
        return None if ok else path + ": array values differ"
    return None if a == b else path + ": %r vs %r" % (a, b)


def buffers(obj, _depth=0, prefix=""):
    """Every numpy buffer reachable from the object: (path, array)."""
    from scipy.sparse import issparse

    out = []
    for k, v in vars(obj).items():
        p = prefix + "." + k
        if isinstance(v, np.ndarray):
            out.append((p, v))
        elif issparse(v):
            for part in ("data", "indices", "indptr"):
                if hasattr(v, part):
                    out.append((p + "." + part, getattr(v, part)))
        elif isinstance(v, dict):
            for kk, vv in v.items():
                if isinstance(vv, np.ndarray):
                    out.append((p + "[%r]" % (kk,), vv))
                elif hasattr(vv, "__dict__") and not callable(vv) and _depth < 6:
                    out += buffers(vv, _depth + 1, p + "[%r]" % (kk,))
        elif isinstance(v, list):
            for i, vv in enumerate(v):
                if hasattr(vv, "__dict__") and not callable(vv) and _depth < 6:
                    out += buffers(vv, _depth + 1, p + "[%d]" % i)
        elif hasattr(v, "__dict__") and not callable(v) and not isinstance(v, type) and _depth < 6:
            out += buffers(v, _depth + 1, p)
    return out


def shared(a, b):
    """paths of buffers of a that share memory with a buffer of b"""
    hits = []
    bb = buffers(b)
    for pa, xa in buffers(a):
        if xa.size == 0:
            continue
        for pb, xb in bb:
            if xb.size and np.shares_memory(xa, xb):
                hits.append((pa, pb))
    return hits


def structure(obj):
    """The state of a shape minus coordinates and landmarks (what apply must carry over unchanged)."""
    st = state(obj)
    st.pop("points", None)
    st.pop("_landmarks", None)
    return st


# ---------------------------------------------------------------- transforms for `apply`
def build_transform(t, d):
    import menpo.transform as mt
    from menpo.shape import PointCloud, TriMesh

    kind = t["kind"]
    if kind == "homog":
        if t["al"]:
            src = np.array([[0.0, 0, 1], [3, 1, 0], [1, 4, 2], [-2, 2, -1], [1, -1, 3]])[:, :d]
            src = src + 0.0
            M = L.mat(t["M"])
            tgt = L.apply_h(M, src)
            return getattr(mt, "Alignment" + t["cls"])(PointCloud(src), PointCloud(tgt))
        return tad.build({"cls": t["cls"], "al": False, "M": t["M"], "src": [], "tgt": []})
    if kind == "chain":
        a = mt.Homogeneous(L.mat(t["M"])) if abs(L.mat(t["M"])[-1, 0]) > 0 else mt.Affine(L.mat(t["M"]))
        b = mt.Affine(L.mat(t["M2"]))
        if t.get("nested"):
            # a chain that is itself one link of a longer chain (what composing a chain with a non-composable transform builds)
            return mt.TransformChain([mt.TransformChain([a]), mt.TransformChain([b])]) if t["nested"] == 2 else mt.TransformChain([mt.TransformChain([a, b])])
        return mt.TransformChain([a, b])
    if kind == "withdims":
        return mt.WithDims(t["dims"])
    if kind == "withdims_mask":
        return mt.WithDims(np.array([k in t["dims"] for k in range(d)]))
    if kind == "withdims_slice":
        return mt.WithDims(slice(t["dims"][0], t["dims"][-1] + 1))
    if kind == "rect":
        return mt.Homogeneous(np.array([[L.fl(x) for x in row] for row in t["M"]]))
    S = np.array([[0.0, 0], [4, 0], [4, 3], [0, 4], [2, 2]])
    T = np.array([[0.0, 0], [5, 1], [4, 4], [-1, 3], [2, 1]])
    if kind == "pwa":
        tris = np.array([[0, 1, 4], [1, 2, 4], [2, 3, 4], [3, 0, 4]])
        return mt.PiecewiseAffine(TriMesh(S, trilist=tris), PointCloud(T))
    if kind == "tps":
        return mt.ThinPlateSplines(PointCloud(S), PointCloud(T))
    raise ValueError(kind)


def _expect_shape(got, exp, tol, path="shape", dims=None):
    """compare a real shape with the abstract expected shape (class, points, landmark tree)"""
    if type(got).__name__ != exp["cls"]:
        return "%s: class %s, expected %s" % (path, type(got).__name__, exp["cls"])
    if exp.get("empty"):
        if got.n_points != 0:
            return "%s: a group without points came back with %d points" % (path, got.n_points)
        if dims is not None and got.n_dims != dims:
            return "%s: a group without points has %d dimensions where its owner has %d" % (path, got.n_dims, dims)
    elif exp["pts"] != []:
        E = L.pts(exp["pts"])
        if got.points.shape != E.shape or not L.close(got.points, E, tol):
            return "%s: points differ from the exact image (max diff %.3g)" % (path, L.maxdiff(got.points, E))
    names = [n for n, _ in exp["lms"]]
    have = list(got.landmarks.group_labels) if got.has_landmarks else []
    if have != names:
        return "%s: landmark groups %r, expected %r" % (path, have, names)
    for n, sub in exp["lms"]:
        r = _expect_shape(got.landmarks[n], sub, tol, path + ".landmarks[%s]" % n, dims=got.n_dims)
        if r:
            return r
    return None


def _struct_tree(s):
    out = [structure(s)]
    if s.has_landmarks:
        for n in s.landmarks.group_labels:
            out.append((n, _struct_tree(s.landmarks[n])))
    return out


def _raw_tree(t, s):
    """apply the transform to the bare coordinate arrays of a shape and of every landmark group"""
    out = [t.apply(s.points.copy())]
    if s.has_landmarks:
        for n in s.landmarks.group_labels:
            out.append(_raw_tree(t, s.landmarks[n]))
    return out


def _pts_tree(s):
    out = [s.points]
    if s.has_landmarks:
        for n in s.landmarks.group_labels:
            out.append(_pts_tree(s.landmarks[n]))
    return out


def check_apply(o):
    bad = []
    c = o["case"]
    t = build_transform(c["t"], c["d"])
    s = build_shape(o["shape"])
    s0 = state(s)
    t0 = {k: (v.copy() if isinstance(v, np.ndarray) else None) for k, v in vars(t).items()}
    tbuf0 = [(p, b.copy()) for p, b in buffers(t)]
    struct0 = _struct_tree(s)
    r = t.apply(s)
    exact = c["t"]["kind"] in ("homog", "chain", "withdims", "withdims_mask", "withdims_slice")
    tol = 1e-9
    e = _expect_shape(r, o["result"], tol)
    if e:
        bad.append((e, {}, None))
    if c["t"]["kind"] == "chain":
        # the same two steps as a chain of chains: the same shape comes out, the first time and every time after
        for nest in (1, 2):
            tn = build_transform(dict(c["t"], nested=nest), c["d"])
            for rep in ("first", "second"):
                try:
                    en = _expect_shape(tn.apply(s), o["result"], tol)
                except Exception as ex:
                    from ..core import from_library

                    if not from_library(ex):
                        raise
                    en = "raised %s: %s" % (type(ex).__name__, str(ex)[:100])
                if en:
                    bad.append(("a chain whose links are chains (nesting form %d), %s apply: %s" % (nest, rep, en), {}, None))
                    break
    # structure carried over bit-identical, and not aliased to the input's arrays
    d = same(struct0, _struct_tree(r))
    if d:
        bad.append(("structure not carried over unchanged: " + d, {}, None))
    sh = shared(r, s)
    if sh:
        bad.append(("result shares memory with the input shape", {"paths": sh[:4]}, None))
    # neither the shape (with its landmark tree) nor the transform was modified
    d = same(s0, state(s))
    if d:
        bad.append(("apply modified the input shape: " + d, {}, None))
    for (p, b0), (p1, b1) in zip(tbuf0, buffers(t)):
        if not np.array_equal(b0, b1):
            bad.append(("apply modified the transform: " + p, {}, None))
            break
    # the bare coordinate route gives the same numbers (points and every landmark group)
    raw = _raw_tree(t, s)
    d = same(raw, _pts_tree(r), 0.0 if exact and c["t"]["kind"] != "chain" else 1e-12)
    if d:
        bad.append(("apply(shape) and apply(shape.points) disagree: " + d, {}, None))
    d = same(s0, state(s))
    if d:
        bad.append(("apply on the raw arrays modified the input: " + d, {}, None))
    # ... also for the smallest coordinate arrays: one point is a (1, n_dims) array and comes back as one row
    P1 = np.asarray(s.points)
    for i in sorted({0, len(P1) - 1}):
        for b in (None, 1, 5):
            try:
                g1 = np.asarray(t.apply(P1[i:i + 1].copy(), batch_size=b))
            except Exception as e:
                bad.append(("apply on a one-point coordinate array raised %s" % type(e).__name__, {"row": i, "batch_size": b, "msg": str(e)[:120]}, None))
                break
            w1 = np.asarray(r.points)[i:i + 1]
            if g1.shape != w1.shape or not np.allclose(g1, w1, atol=1e-9, rtol=0):
                bad.append(("apply on a one-point (1, n_dims) coordinate array does not give that point's row of the result",
                            {"row": i, "batch_size": b, "got_shape": list(g1.shape), "want_shape": list(w1.shape)}, None))
                break
        else:
            continue
        break
    # a shape whose coordinates are stored in single / half precision: the shape route and the bare-array route still agree exactly
    if c["t"]["kind"] not in ("pwa", "tps"):
        for dt in (np.float32, np.float16):
            sd = s.copy()
            sd.points = np.asarray(s.points).astype(dt)
            try:
                rd = t.apply(sd)
                rawd = np.asarray(t.apply(np.asarray(sd.points).copy()))
            except Exception as e:
                bad.append(("apply on a shape with %s coordinates raised %s" % (np.dtype(dt).name, type(e).__name__), {"msg": str(e)[:100]}, None))
                continue
            if np.asarray(rd.points).shape != rawd.shape or not np.array_equal(np.asarray(rd.points, dtype=float), np.asarray(rawd, dtype=float)):
                bad.append(("apply(shape) and apply(shape.points) disagree for a shape whose coordinates are stored as %s" % np.dtype(dt).name,
                            {"maxdiff": float(np.abs(np.asarray(rd.points, dtype=float) - np.asarray(rawd, dtype=float)).max())}, None))
    # the same numbers whatever the batch size, and whatever number type the caller's coordinates come in
    if c["t"]["kind"] not in ("pwa",):
        want_pts = np.asarray(r.points, dtype=float)
        P = np.asarray(s.points)
        for b in (2, 3, 1000):
            rb = t.apply(s, batch_size=b)
            d = same(_pts_tree(r), _pts_tree(rb), 1e-12)
            if d:
                bad.append(("apply(shape, batch_size=%d) differs from the unbatched result: %s" % (b, d), {}, None))
                break
        if True:
            # (whole-number coordinates on the half-unit grid of the pooled points; the float64 unbatched route, whose values
            #  were compared with the specification above, is the reference)
            Pi = np.round(P * 2.0)
            want_pts = np.asarray(t.apply(Pi.copy()), dtype=float)
            for dt in (np.int64, np.int32, np.float32):
                for b in (None, 2):
                    got = np.asarray(t.apply(Pi.astype(dt), batch_size=b), dtype=float)
                    if got.shape != want_pts.shape or not np.allclose(got, want_pts, atol=1e-4 if dt is np.float32 else 1e-9, rtol=0):
                        bad.append(("apply on a bare %s coordinate array (batch_size=%r) does not give the transformed points" % (np.dtype(dt).name, b),
                                    {"got": got, "want": want_pts}, None))
                        break
                else:
                    continue
                break
    return bad


# ---------------------------------------------------------------- C05 (shapes)
def well_formed_shape(s):
    """Class invariant: every index array points into the points array; per-vertex arrays match."""
    n = s.points.shape[0]
    if s.points.ndim != 2:
        return "points not 2-D array"
    tl = getattr(s, "trilist", None)
    if tl is not None and tl.size and (tl.max() >= n):
        return "trilist indexes a missing vertex (n_points=%d, max index=%d)" % (n, tl.max())
    am = getattr(s, "adjacency_matrix", None)
    if am is not None and am.shape != (n, n):
        return "adjacency matrix %r does not match %d points" % (am.shape, n)
    lm = getattr(s, "_labels_to_masks", None)
    if lm is not None:
        for k, m in lm.items():
            if m.shape[0] != n:
                return "label mask %r has %d entries for %d points" % (k, m.shape[0], n)
    for attr in ("colours",):
        a = getattr(s, attr, None)
        if a is not None and a.shape[0] != n:
            return "%s has %d rows for %d points" % (attr, a.shape[0], n)
    tc = getattr(s, "tcoords", None)
    if tc is not None and tc.points.shape[0] != n:
        return "tcoords has %d rows for %d points" % (tc.points.shape[0], n)
    try:  # its own queries must work
        s.bounds()
        if tl is not None and n:
            s.tri_areas()
        if lm is not None:
            for k in s.labels:
                s.get_label(k)
    except Exception as e:
        return "own query fails: " + type(e).__name__
    return None


def check_vec(o):
    bad = []
    c = o["case"]
    d = c["d"]
    s = build_shape(o["shape"])
    s0 = state(s)
    want = np.array([L.fl(x) for x in o["vec"]])
    v = s.as_vector()
    if v.ndim != 1 or v.shape != want.shape or not np.array_equal(v, want):
        bad.append(("as_vector is not the row-major coordinates", {"got": v, "want": want}, None))
    if s.n_parameters != want.shape[0]:
        bad.append(("n_parameters %r != %d" % (s.n_parameters, want.shape[0]), {}, None))
    if v.flags.writeable:
        bad.append(("as_vector result is writeable", {}, None))
    if not s.points.flags.writeable:
        bad.append(("as_vector made the object's own points read-only", {}, None))
    if same(s0, state(s)):
        bad.append(("as_vector changed the object: " + same(s0, state(s)), {}, None))
    # from_vector(as_vector()) reproduces the complete state
    r = s.from_vector(np.array(v))
    dd = same(s0, state(r))
    if dd:
        bad.append(("from_vector(as_vector()) does not reproduce the complete state: " + dd, {}, None))
    # a different vector: coordinates replaced, everything else (structure, landmarks) kept
    ov = np.array([L.fl(x) for x in o["other"]])
    keep = ov.copy()
    r2 = s.from_vector(ov)
    e = _expect_shape(r2, o["result"], 0.0)
    if e:
        bad.append(("from_vector(v): " + e, {}, None))
    if same(_struct_tree(s), _struct_tree(r2)):
        bad.append(("from_vector(v) changed the structure: " + same(_struct_tree(s), _struct_tree(r2)), {}, None))
    if not np.array_equal(r2.as_vector(), keep):
        bad.append(("from_vector(v).as_vector() != v", {}, None))
    if same(s0, state(s)):
        bad.append(("from_vector changed the object it was called on: " + same(s0, state(s)), {}, None))
    lm_sh = [p for p in shared(r2, s) if "points" not in p[0] or "_landmarks" in p[0]]
    if lm_sh:
        bad.append(("from_vector result shares memory with the receiver", {"paths": lm_sh[:3]}, None))
    # the same vector handed over in other layouts / number types: a strided view, a read-only array, float32, whole numbers as ints
    strided = np.repeat(ov, 2)[::2]
    ro = ov.copy()
    ro.setflags(write=False)
    for name, vec, tol in (("a strided view", strided, 0.0), ("a read-only array", ro, 0.0), ("float32", ov.astype(np.float32), 1e-5)):
        r4 = s.from_vector(vec)
        if not np.allclose(np.asarray(r4.points, dtype=float), np.asarray(r2.points, dtype=float), atol=tol, rtol=0) or same(_struct_tree(s), _struct_tree(r4)):
            bad.append(("from_vector given %s does not give the same object as from_vector of the plain array" % name, {}, None))
    iv = np.round(ov * 4.0)
    r5f, r5i = s.from_vector(iv.copy()), s.from_vector(iv.astype(np.int64))
    if not np.array_equal(np.asarray(r5i.points, dtype=float), np.asarray(r5f.points, dtype=float)):
        bad.append(("from_vector given whole numbers as an int64 array differs from the same numbers as floats", {}, None))
    if same(s0, state(s)):
        bad.append(("from_vector (other layouts) changed the receiver: " + same(s0, state(s)), {}, None))
    # a receiver whose own coordinates are stored as whole numbers (pixel annotations) still takes the VALUES it is given
    si = s.copy()
    si.points = np.round(np.asarray(s.points) * 2.0).astype(np.int64)
    ri = si.from_vector(ov.copy())
    if not np.allclose(np.asarray(ri.points, dtype=float), np.asarray(r2.points, dtype=float), atol=1e-12, rtol=0):
        bad.append(("from_vector on a shape with integer-typed points does not give the coordinates of the vector (truncated?)",
                    {"got": np.asarray(ri.points, dtype=float)[:2], "want": np.asarray(r2.points, dtype=float)[:2]}, None))
    # wrong lengths
    n = want.shape[0]
    for ln in [0, d, n - d, n - 1, n + 1, n + d, 2 * n]:
        if ln == n or ln < 0:
            continue
        try:
            r3 = s.from_vector(np.linspace(0.0, 1.0, ln))
            wf = well_formed_shape(r3)
            if type(r3) is not type(s):
                wf = "class changed to " + type(r3).__name__
            if wf:
                bad.append(("from_vector with a wrong-length vector returned a malformed object: " + wf, {"length": ln, "expected": n}, None))
        except Exception:
            pass
        if same(s0, state(s)):
            bad.append(("from_vector (wrong length) changed the receiver", {"length": ln}, None))
            break
    return bad


# ---------------------------------------------------------------- C17
def _mesh(cls, m, tl_form=None, pts_dtype=None):
    import menpo.shape as ms
    from menpo.image import Image

    P = L.pts(m["pts"])
    if pts_dtype is not None:
        P = P.astype(pts_dtype)
    tl = np.array(m["tris"], dtype=np.uint32)
    if tl_form == "list":
        tl = [[int(x) for x in t] for t in m["tris"]]
    elif tl_form is not None:
        tl = np.array(m["tris"], dtype=tl_form)
    n = P.shape[0]
    if cls == "TriMesh":
        return ms.TriMesh(P, trilist=tl), None
    if cls == "ColouredTriMesh":
        col = np.stack([np.arange(n) / 10.0, 1 - np.arange(n) / 10.0, np.full(n, 0.5)], axis=1)
        return ms.ColouredTriMesh(P, trilist=tl, colours=col), col
    tc = np.stack([np.arange(n) / 10.0, (np.arange(n) * 2 + 1) / 20.0], axis=1)
    tex = Image(np.arange(3 * 4 * 5, dtype=float).reshape(3, 4, 5) / 60.0)
    return ms.TexturedTriMesh(P, tc, tex, trilist=tl), tc


def check_mask(o):
    bad = []
    c = o["case"]
    mesh, attr = _mesh(c["cls"], o["m"])
    s0 = state(mesh)
    mask = np.array(c["mask"], dtype=bool)
    res = o["res"]
    _warm(mesh)
    d = same(s0, state(mesh))
    if d:
        return [("read-only queries / methods that return a new mesh changed the receiver: " + d, {}, None)]
    s0 = state(mesh)
    r = mesh.from_mask(mask) if c["kind"] == "vmask" else mesh.from_tri_mask(mask)
    if type(r) is not type(mesh):
        bad.append(("masking changed the class to " + type(r).__name__, {}, None))
    EP = L.pts(res["pts"]) if res["pts"] else np.zeros((0, mesh.n_dims))
    ET = np.array(res["tris"], dtype=int).reshape(-1, 3)
    if r.points.shape != EP.shape or not np.array_equal(r.points, EP):
        bad.append(("masked mesh keeps the wrong vertices", {"got": r.points, "want": EP}, None))
    elif r.trilist.shape != ET.shape or not np.array_equal(np.asarray(r.trilist, dtype=int), ET):
        bad.append(("masked mesh trilist not renumbered consistently", {"got": r.trilist, "want": ET}, None))
    keep = np.array(res["keep"], dtype=int)
    if attr is not None and not bad:
        got = r.colours if c["cls"] == "ColouredTriMesh" else r.tcoords.points
        if got.shape[0] != len(keep) or not np.array_equal(got, attr[keep]):
            bad.append(("per-vertex attribute does not follow its vertices", {"got": got, "want": attr[keep]}, None))
        if c["cls"] == "TexturedTriMesh" and not np.array_equal(r.texture.pixels, mesh.texture.pixels):
            bad.append(("texture changed by masking", {}, None))
    d = same(s0, state(mesh))
    if d:
        bad.append(("masking modified the receiver: " + d, {}, None))
    if not bad:
        wf = well_formed_shape(r)
        if wf:
            bad.append(("masked mesh malformed: " + wf, {}, None))
    if not bad:
        _geom_clauses(r, o["rgeom"], bad, "masked mesh: ")
    if not bad:
        # the same mesh whatever integer type (or plain list) its triangle list came in, and with single-precision points
        for form, pdt in (("int64", None), ("int32", None), ("uint16", None), ("int8", None), ("list", None), (None, np.float32)):
            try:
                m2, _ = _mesh(c["cls"], o["m"], tl_form=form, pts_dtype=pdt)
                r2 = m2.from_mask(mask) if c["kind"] == "vmask" else m2.from_tri_mask(mask)
            except Exception as e:
                bad.append(("masking the same mesh given with %s raised %s" % ("a %s triangle list" % form if form else "float32 points", type(e).__name__),
                            {"msg": str(e)[:120]}, None))
                break
            if r2.points.shape != EP.shape or not np.allclose(r2.points, EP, rtol=0, atol=1e-5 if pdt else 0) or \
               np.asarray(r2.trilist).shape != ET.shape or not np.array_equal(np.asarray(r2.trilist, dtype=int), ET):
                bad.append(("masking the same mesh given with %s gives another mesh" % ("a %s triangle list" % form if form else "float32 points"), {}, None))
                break
    return bad


def _motions(d):
    import menpo.transform as mt

    if d == 2:
        return [(mt.Rotation.init_from_2d_ccw_angle(math.atan2(4, 3), degrees=False), 1.0),
                (mt.Translation([2.5, -1.0]), 1.0), (mt.UniformScale(2.0, 2), 2.0), (mt.UniformScale(0.5, 2), 0.5),
                # far from the origin, very small, very large: "all rigid motions and uniform scales" (relative comparison)
                (mt.Rotation.init_from_2d_ccw_angle(0.7, degrees=False).compose_before(mt.Translation([1.0e6 + 0.3, -2.0e6 + 0.7])), 1.0),
                (mt.UniformScale(1.0e-5, 2), 1.0e-5), (mt.UniformScale(1.0e4, 2), 1.0e4)]
    return [(mt.Rotation.init_from_3d_ccw_angle_around_x(math.atan2(4, 3), degrees=False), 1.0),
            (mt.Rotation.init_from_3d_ccw_angle_around_z(math.atan2(-5, 12), degrees=False), 1.0),
            (mt.Translation([2.5, -1.0, 4.0]), 1.0), (mt.UniformScale(3.0, 3), 3.0),
            (mt.Rotation.init_from_3d_ccw_angle_around_y(0.7, degrees=False).compose_before(mt.Translation([1.0e6 + 0.3, -2.0e6 + 0.7, 3.0e6 + 0.1])), 1.0),
            (mt.UniformScale(1.0e-5, 3), 1.0e-5), (mt.UniformScale(1.0e4, 3), 1.0e4)]


def _warm(mesh):
    """ask every geometry query once (whatever a class memoises must not leak into meshes derived from it)"""
    for q in ("tri_areas", "edge_indices", "edge_lengths", "unique_edge_indices", "unique_edge_lengths", "mean_edge_length",
              "mean_tri_area", "boundary_tri_index", "tri_normals", "vertex_normals", "edge_vectors", "unique_edge_vectors"):
        try:
            getattr(mesh, q)()
        except Exception:
            pass
    # ... and every public method that RETURNS a changed mesh (the receiver keeps its own attributes)
    for name, args in (("rescale_texture", (0.25, 3.0)), ("clip_texture", ((0.1, 0.4),))):
        if hasattr(mesh, name):
            try:
                getattr(mesh, name)(*args)
            except Exception:
                pass


def _geom_clauses(mesh, g, bad, pre=""):
    d = mesh.n_dims
    areas = np.sqrt(np.array([L.fl(x) for x in g["areas2"]])) / 2.0
    got = mesh.tri_areas()
    if not L.close(got, areas, TOL) or (got < 0).any():
        bad.append((pre + "tri_areas differ from the exact areas", {"got": got, "want": areas}, None))
    E = np.array(g["edges"], dtype=int)
    ei = np.asarray(mesh.edge_indices(), dtype=int)
    el = np.sqrt(np.array([L.fl(x) for x in g["edgelen2"]]))
    key = lambda a: sorted(map(tuple, np.sort(a, axis=1).tolist()))
    if key(ei) != key(E):
        bad.append((pre + "edge_indices is not the three edges of every triangle", {"got": ei, "want": E}, None))
    else:
        got_l = mesh.edge_lengths()
        want_l = np.linalg.norm(mesh.points[ei[:, 1]] - mesh.points[ei[:, 0]], axis=1)
        if not L.close(np.sort(got_l), np.sort(el), TOL) or not L.close(got_l, want_l, TOL):
            bad.append((pre + "edge_lengths differ", {"got": got_l, "want": el}, None))
    ue = np.asarray(mesh.unique_edge_indices(), dtype=int)
    want_ue = sorted(tuple(e) for e in g["uedges"])
    if sorted(tuple(sorted(e)) for e in ue.tolist()) != want_ue:
        bad.append((pre + "unique_edge_indices does not list each undirected edge once", {"got": ue, "want": want_ue}, None))
    bt = np.asarray(mesh.boundary_tri_index())
    wb = np.array(g["boundary"], dtype=bool)
    if bt.shape != wb.shape or not np.array_equal(bt.astype(bool), wb):
        bad.append((pre + "boundary_tri_index does not flag exactly the triangles owning an unshared edge", {"got": bt, "want": wb}, None))
    N = np.array([[L.fl(x) for x in n] for n in g["normals"]])
    if d == 3:
        tn = mesh.tri_normals()
        un = N / np.linalg.norm(N, axis=1)[:, None]
        if not L.close(tn, un, 1e-9):
            bad.append((pre + "tri_normals are not the unit normals (b-a)x(c-a)", {"got": tn, "want": un}, None))
        vn = mesh.vertex_normals()
        used = np.unique(mesh.trilist)
        acc = np.zeros_like(mesh.points)
        for t, n in zip(mesh.trilist, un):
            acc[t] += n
        wvn = acc[used] / np.linalg.norm(acc[used], axis=1)[:, None]
        if not L.close(vn[used], wvn, 1e-9):
            bad.append((pre + "vertex_normals are not the normalised sums of the unit face normals", {"got": vn[used], "want": wvn}, None))
    return areas, el, N


def check_geom(o):
    bad = []
    g = o["geom"]
    mesh, _ = _mesh("TriMesh", o["m"])
    d = mesh.n_dims
    areas, el, N = _geom_clauses(mesh, g, bad)
    # the same mesh with its (whole-number) coordinates stored as integers, or in single precision, has the same geometry
    P0 = np.asarray(mesh.points)
    forms = [("float32", np.float32, 1e-5)]
    if np.array_equal(P0, np.round(P0)):
        forms += [("int64", np.int64, 1e-9), ("int32", np.int32, 1e-9)]
    for fname, dt, tol in forms:
        m3, _ = _mesh("TriMesh", o["m"], pts_dtype=dt)
        try:
            same_geom = np.allclose(np.asarray(m3.tri_areas(), dtype=float), areas, rtol=tol, atol=tol) and \
                np.allclose(np.asarray(m3.edge_lengths(), dtype=float), el, rtol=tol, atol=tol)
            if d == 3 and same_geom:
                used = np.unique(mesh.trilist)
                same_geom = np.allclose(np.asarray(m3.tri_normals(), dtype=float), mesh.tri_normals(), atol=max(tol, 1e-6)) and \
                    np.allclose(np.asarray(m3.vertex_normals(), dtype=float)[used], mesh.vertex_normals()[used], atol=max(tol, 1e-6))
        except Exception as e:
            bad.append(("geometry of the same mesh with %s coordinates raised %s" % (fname, type(e).__name__), {"msg": str(e)[:100]}, None))
            continue
        if not same_geom:
            bad.append(("the same mesh with its coordinates stored as %s has other areas / edge lengths / normals" % fname, {}, None))
    # a larger mesh (12 x 12 grid lifted out of the plane) with its triangle list stored in the narrowest type that holds its indices
    if o["case"]["mesh"] == "grid23":
        import menpo.shape as ms

        g2 = ms.TriMesh.init_2d_grid((12, 12))
        P3 = np.hstack([g2.points, (np.sin(g2.points[:, :1]) + 0.5 * np.cos(2.0 * g2.points[:, 1:2]))])
        ref_m = ms.TriMesh(P3.copy(), trilist=np.asarray(g2.trilist, dtype=np.int64))
        for dt in (np.uint8, np.int16, np.uint16, np.int32, np.uint32):
            mm = ms.TriMesh(P3.copy(), trilist=np.asarray(g2.trilist).astype(dt))
            try:
                okg = np.allclose(mm.vertex_normals(), ref_m.vertex_normals(), atol=1e-12) and np.allclose(mm.tri_normals(), ref_m.tri_normals(), atol=1e-12) \
                    and np.allclose(mm.tri_areas(), ref_m.tri_areas(), atol=1e-12) and np.array_equal(mm.boundary_tri_index(), ref_m.boundary_tri_index())
            except Exception as e:
                bad.append(("geometry of a 144-vertex mesh with a %s triangle list raised %s" % (np.dtype(dt).name, type(e).__name__), {"msg": str(e)[:100]}, None))
                continue
            if not okg:
                bad.append(("geometry of a 144-vertex mesh depends on the integer type of its triangle list (%s)" % np.dtype(dt).name, {}, None))
    # grid meshes built from a depth image: a MASKED depth image gives the mesh of the unmasked one masked afterwards - vertices,
    # triangles and the per-vertex colours handed to the constructor
    if o["case"]["mesh"] == "grid23":
        import menpo.shape as ms
        from menpo.image import Image, MaskedImage

        depth = np.arange(12.0).reshape(1, 3, 4) * 0.5
        gm = np.ones((3, 4), dtype=bool)
        gm[0, 0] = gm[2, 3] = False
        col = np.stack([np.arange(12) / 12.0, 1 - np.arange(12) / 12.0, np.full(12, 0.25)], axis=1)
        for cname, kw in (("TriMesh", {}), ("ColouredTriMesh", {"colours": col})):
            cls = getattr(ms, cname)
            try:
                a_ = cls.init_from_depth_image(MaskedImage(depth.copy(), mask=gm.copy()), **{k: v.copy() for k, v in kw.items()})
                b_ = cls.init_from_depth_image(Image(depth.copy()), **{k: v.copy() for k, v in kw.items()}).from_mask(gm.ravel())
            except Exception as e:
                bad.append(("%s.init_from_depth_image raised %s" % (cname, type(e).__name__), {"msg": str(e)[:100]}, None))
                continue
            if not np.array_equal(a_.points, b_.points) or not np.array_equal(np.asarray(a_.trilist, dtype=int), np.asarray(b_.trilist, dtype=int)):
                bad.append(("%s.init_from_depth_image of a masked image is not the mesh of the unmasked image masked afterwards" % cname, {}, None))
            elif kw and (a_.colours.shape != b_.colours.shape or not np.array_equal(a_.colours, b_.colours)):
                bad.append(("%s.init_from_depth_image(masked image, colours=...) does not carry the given colours of the kept vertices" % cname, {}, None))
    # invariances under rigid motion / uniform scaling, evaluated in the real code
    for t, sc in _motions(d):
        m2 = t.apply(mesh)
        big = abs(t.h_matrix[:d, d]).max() > 1e3
        rel = lambda a, b: np.allclose(a, b, rtol=1e-6 if big else 1e-9, atol=1e-9 * min(1.0, sc * sc))
        if not rel(m2.tri_areas(), areas * sc * sc):
            bad.append(("areas do not scale by s^2 / are not invariant under rigid motion", {"transform": type(t).__name__}, None))
        if not rel(np.sort(m2.edge_lengths()), np.sort(el) * sc):
            bad.append(("edge lengths do not scale by s / are not invariant under rigid motion", {"transform": type(t).__name__}, None))
        if d == 3:
            lin = t.h_matrix[:3, :3] / sc
            if not np.allclose(m2.tri_normals(), mesh.tri_normals() @ lin.T, atol=1e-6 if big else 1e-9):
                bad.append(("triangle normals do not follow the rotation", {"transform": type(t).__name__}, None))
            if not L.close(np.linalg.norm(m2.tri_normals(), axis=1), np.ones(len(N)), 1e-12):
                bad.append(("triangle normals are not unit vectors", {"transform": type(t).__name__, "scale": sc}, None))
            vn2 = m2.vertex_normals()[np.unique(m2.trilist)]
            if not L.close(np.linalg.norm(vn2, axis=1), np.ones(len(vn2)), 1e-9):
                bad.append(("vertex normals are not unit vectors", {"transform": type(t).__name__, "scale": sc}, None))
    return bad


def check_mask_none(o):
    """a vertex mask that keeps no whole triangle: refused or answered, the receiver (and the caller's mask) stay what they were -
    and a request that IS answerable afterwards is answered as if nothing had happened"""
    bad = []
    c = o["case"]
    mesh, attr = _mesh(c["cls"], o["m"])
    _warm(mesh)
    s0 = state(mesh)
    mask = np.array(c["mask"], dtype=bool)
    keep = mask.copy()
    try:
        r = mesh.from_mask(mask)
        if r.n_points and len(r.trilist) == 0 and r.n_points > 0:
            bad.append(("masking away every triangle returned a mesh with points but no triangle", {"n_points": int(r.n_points)}, None))
    except Exception:
        pass
    d = same(s0, state(mesh))
    if d:
        bad.append(("a mask that keeps no whole triangle (refused or not) changed the receiver: " + d, {"mask": c["mask"]}, None))
    if not np.array_equal(mask, keep):
        bad.append(("masking modified the caller's mask", {}, None))
    if not bad:
        full = mesh.from_mask(np.ones(len(mask), dtype=bool))
        if not np.array_equal(full.points, mesh.points) or not np.array_equal(np.asarray(full.trilist, dtype=int), np.asarray(mesh.trilist, dtype=int)):
            bad.append(("after a mask that keeps no triangle, the all-true mask no longer returns the mesh", {}, None))
    return bad


CHECKS = {"apply": check_apply, "vec": check_vec, "vmask": check_mask, "tmask": check_mask, "geom": check_geom, "vmask_none": check_mask_none}


def run_case(o):
    return CHECKS[o["case"]["kind"]](o)
