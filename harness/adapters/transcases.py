"""Adapter for TransCases.tla: parameter vectors (C05), 3-D inverses (C04), convenience
constructors (C20).  Every function returns a list of (what, detail, kind) disagreements
(kind = structural signature used for known findings, or None)."""
import math

import numpy as np

from .. import lattice as L
from .transforms import build, honest

TOL = 1e-11


def _obj(cls, d, M):
    return build({"cls": cls, "al": False, "M": M, "src": [], "tgt": []})


def _vecf(v):
    return np.array([L.fl(x) for x in v], dtype=float)


def well_formed_transform(t, cls_name, note=None):
    """Class invariant of a homogeneous-family object (WellFormed of DESIGN 5/C05)."""
    if type(t).__name__ != cls_name:
        return "class changed to " + type(t).__name__
    h = getattr(t, "h_matrix", None)
    if not isinstance(h, np.ndarray) or h.ndim != 2 or h.shape[0] != h.shape[1] or h.shape[0] not in (3, 4):
        return "h_matrix is not a 3x3 / 4x4 array: %r" % (None if h is None else h.shape,)
    if not np.all(np.isfinite(h)):
        return "h_matrix not finite"
    d = h.shape[0] - 1
    try:
        y = t.apply(np.arange(2 * d, dtype=float).reshape(2, d))
        if y.shape != (2, d):
            return "apply returns shape %r" % (y.shape,)
    except Exception as e:  # its own query fails
        return "apply raises %s" % type(e).__name__
    return None


def check_vec(o):
    bad = []
    c = o["case"]
    cls, d = c["cls"], c["d"]
    M = L.mat(c["M"])
    t = _obj(cls, d, c["M"])
    h0 = t.h_matrix.copy()
    want = _vecf(o["vec"])
    try:
        v = t.as_vector()
    except Exception as e:
        return [("as_vector raises " + type(e).__name__, {}, None)]
    if v.ndim != 1 or v.shape != (o["n"],):
        bad.append(("as_vector shape %r, expected (%d,)" % (v.shape, o["n"]), {}, None))
        v = np.atleast_1d(v)
    try:
        npar = t.n_parameters
        if npar != o["n"]:
            bad.append(("n_parameters %r != %d" % (npar, o["n"]), {}, None))
    except Exception as e:
        bad.append(("n_parameters raises " + type(e).__name__, {}, None))
    if v.shape == want.shape and not L.close(v, want, TOL):
        bad.append(("as_vector values differ", {"got": v, "want": want}, None))
    if v.flags.writeable:
        bad.append(("as_vector result is writeable", {}, None))
    if not t.h_matrix.flags.writeable:
        bad.append(("as_vector made the object's own matrix read-only", {}, None))
    if not np.array_equal(t.h_matrix, h0):
        bad.append(("as_vector changed the object", {}, None))
    # full round trip
    try:
        t2 = t.from_vector(np.array(v))
        if type(t2) is not type(t) or not L.close(t2.h_matrix, M, TOL):
            bad.append(("from_vector(as_vector()) does not reproduce the object", {"got": t2.h_matrix, "want": M}, None))
    except Exception as e:
        bad.append(("from_vector(as_vector()) raises " + type(e).__name__, {}, None))
    for other in o["others"]:
        vv = _vecf(other["v"])
        M2 = L.mat(other["M"])
        keep = vv.copy()
        t2 = t.from_vector(vv)
        if type(t2) is not type(t):
            bad.append(("from_vector changes the class", {}, None))
        if not L.close(t2.h_matrix, M2, TOL):
            bad.append(("from_vector(v) matrix differs", {"v": vv, "got": t2.h_matrix, "want": M2}, None))
        if not np.array_equal(t.h_matrix, h0):
            bad.append(("from_vector changed the receiver", {"v": vv}, None))
        if np.shares_memory(t2.h_matrix, t.h_matrix):
            bad.append(("from_vector result shares its matrix with the receiver", {}, None))
        if not np.array_equal(vv, keep):
            bad.append(("from_vector modified the caller's vector", {}, None))
        v3 = t2.as_vector()
        if v3.shape != vv.shape or not L.close(v3, vv, TOL):
            bad.append(("from_vector(v).as_vector() != v", {"v": vv, "got": v3}, None))
        # the same parameters handed over as a strided view / read-only array / float32 / (whole numbers) int64
        ro = keep.copy()
        ro.setflags(write=False)
        variants = [("a strided view", np.repeat(keep, 2)[::2], TOL), ("a read-only array", ro, TOL), ("float32", keep.astype(np.float32), 1e-5)]
        if np.array_equal(keep, np.round(keep)) and "Rotation" not in cls:
            variants.append(("int64", keep.astype(np.int64), TOL))
        for name, vec, tol in variants:
            try:
                t4 = t.from_vector(vec)
                if type(t4) is not type(t) or not L.close(np.asarray(t4.h_matrix, dtype=float), M2, tol):
                    bad.append(("from_vector given %s differs from from_vector of the plain array" % name, {"v": keep, "got": t4.h_matrix, "want": M2}, None))
            except Exception as e:
                bad.append(("from_vector given %s raises %s" % (name, type(e).__name__), {"v": keep}, None))
        # later in-place edits of the caller's vector must not reach the new object
        vv[...] = 7.5
        if not L.close(t2.h_matrix, M2, TOL):
            bad.append(("from_vector result aliases the caller's vector", {}, None))
    # every wrong length: raises, or a well-formed object of the same class
    n = o["n"]
    outcomes = {}
    for ln in list(range(0, n + 3)):
        if ln == n:
            continue
        w = np.linspace(0.5, 1.5, ln) if ln else np.zeros(0)
        try:
            t3 = t.from_vector(w)
            wf = well_formed_transform(t3, type(t).__name__)
            outcomes[ln] = "ok" if wf is None else wf
            if wf is not None:
                bad.append(("from_vector with a wrong-length vector returned a malformed object: " + wf,
                            {"length": ln, "expected_length": n}, None))
        except Exception as e:
            outcomes[ln] = type(e).__name__
        if not np.array_equal(t.h_matrix, h0):
            bad.append(("from_vector (wrong length) changed the receiver", {"length": ln}, None))
            break
    return bad


def check_alvec(o):
    import menpo.transform as mt
    from menpo.shape import PointCloud

    bad = []
    c = o["case"]
    cls = c["cls"]
    src = L.pts(c["src"])
    tgt0, tgt2 = L.pts(o["tgt0"]), L.pts(o["tgt2"])
    M, M2 = L.mat(c["M"]), L.mat(o["M2"])
    a = getattr(mt, "Alignment" + cls)(PointCloud(src), PointCloud(tgt0))
    if not L.close(a.h_matrix, M, 1e-9):
        return [("alignment does not recover the family member it was synthesised from", {"got": a.h_matrix, "want": M}, None)]
    v = _vecf(c["v"])
    a2 = a.from_vector(v)
    if type(a2) is not type(a):
        return [("from_vector changed the class", {"got": type(a2).__name__, "want": type(a).__name__}, None)]
    if not L.close(a2.h_matrix, M2, 1e-9):
        bad.append(("alignment from_vector matrix differs", {"got": a2.h_matrix, "want": M2}, None))
    if not L.close(a2.target.points, tgt2, 1e-9):
        bad.append(("alignment target not re-synchronised with the new parameters", {"got": a2.target.points, "want": tgt2}, None))
    if not L.close(a2.target.points, a2.aligned_source().points, 1e-9):
        bad.append(("target != aligned source after from_vector", {}, None))
    if not L.close(a2.source.points, src, 0):
        bad.append(("source changed by from_vector", {}, None))
    if not (L.close(a.h_matrix, M, 1e-9) and L.close(a.target.points, tgt0, 1e-12) and L.close(a.source.points, src, 0)):
        bad.append(("from_vector changed the receiver alignment", {"target": a.target.points, "want": tgt0}, None))
    v3 = a2.as_vector()
    if not L.close(v3, v, 1e-9):
        bad.append(("alignment from_vector(v).as_vector() != v", {"got": v3, "want": v}, None))
    # ... whatever the alignment was fitted to before: built between point sets that are NOT related by a member of the family
    # (the normal case - a residual remains), a parameter update still leaves target == the source moved by the new parameters
    wob = np.array([[0.3, -0.2, 0.1], [-0.25, 0.15, -0.3], [0.1, 0.35, 0.2], [-0.15, -0.3, 0.25], [0.2, 0.1, -0.15]])[:len(src), :src.shape[1]]
    n_ = getattr(mt, "Alignment" + cls)(PointCloud(src), PointCloud(tgt0 + wob))
    h_n, t_n = n_.h_matrix.copy(), n_.target.points.copy()
    n2 = n_.from_vector(v)
    if type(n2) is not type(n_) or not L.close(n2.h_matrix, M2, 1e-9):
        bad.append(("from_vector on an alignment with a residual is not the transform the vector describes", {"got": getattr(n2, "h_matrix", None), "want": M2}, None))
    elif not L.close(n2.target.points, tgt2, 1e-9) or not L.close(n2.target.points, n2.aligned_source().points, 1e-9):
        bad.append(("from_vector on an alignment with a residual: the new target is not the source moved by the new parameters",
                    {"got": n2.target.points, "want": tgt2}, None))
    if not L.close(n_.h_matrix, h_n, 0) or not L.close(n_.target.points, t_n, 0):
        bad.append(("from_vector changed the receiver alignment (built with a residual)", {}, None))
    # ... and whatever shape classes the two ends are (a cloud aligned to a mesh, a mesh aligned to a cloud): the receiver keeps its
    # matrix and its target, the new object has the new ones and shares neither end with the receiver
    if len(src) >= 3:
        from menpo.shape import TriMesh

        tl = np.array([[0, 1, 2]])
        for mtag, mk_s, mk_t in (("cloud source, mesh target", PointCloud, lambda p: TriMesh(p, trilist=tl.copy())),
                                 ("mesh source, cloud target", lambda p: TriMesh(p, trilist=tl.copy()), PointCloud)):
            try:
                x_ = getattr(mt, "Alignment" + cls)(mk_s(src.copy()), mk_t(tgt0.copy()))
                hx, tx, tcls = x_.h_matrix.copy(), x_.target.points.copy(), type(x_.target)
                x2 = x_.from_vector(v)
            except Exception as e:
                from ..core import from_library

                if not from_library(e):
                    raise
                bad.append(("Alignment%s (%s): from_vector raised %s" % (cls, mtag, type(e).__name__), {"msg": str(e)[:100]}, None))
                continue
            if not L.close(x_.h_matrix, hx, 0) or not L.close(x_.target.points, tx, 0) or type(x_.target) is not tcls:
                bad.append(("Alignment%s (%s): from_vector changed the receiver (matrix / target)" % (cls, mtag),
                            {"target": x_.target.points, "want": tx}, None))
            if not L.close(x2.h_matrix, M2, 1e-9) or not L.close(x2.target.points, tgt2, 1e-9) \
                    or not L.close(x2.target.points, x2.aligned_source().points, 1e-9):
                bad.append(("Alignment%s (%s): from_vector(v) is not the transform v describes with its target re-synchronised" % (cls, mtag),
                            {"got": x2.h_matrix, "want": M2}, None))
            if x2.target is x_.target or np.shares_memory(x2.target.points, x_.target.points):
                bad.append(("Alignment%s (%s): the object returned by from_vector shares its target with the receiver" % (cls, mtag), {}, None))
    # constructor options steer the FIT; a parameter vector means the same transform whatever they are
    opts = {"Similarity": [dict(rotation=False), dict(allow_mirror=True), dict(rotation=False, allow_mirror=True)], "Rotation": [dict(allow_mirror=True)]}.get(cls, [])
    for kw in opts:
        b = getattr(mt, "Alignment" + cls)(PointCloud(src), PointCloud(tgt0), **kw)
        h0 = b.h_matrix.copy()
        b2 = b.from_vector(v)
        tag = "Alignment%s(%s): " % (cls, ", ".join("%s=%r" % kv for kv in sorted(kw.items())))
        if type(b2) is not type(b) or not L.close(b2.h_matrix, M2, 1e-9):
            bad.append((tag + "from_vector(v) is not the transform v describes", {"got": b2.h_matrix, "want": M2}, None))
            if type(b2) is not type(b):
                continue
        elif not L.close(b2.as_vector(), v, 1e-9):
            bad.append((tag + "from_vector(v).as_vector() != v", {"got": b2.as_vector(), "want": v}, None))
        if not L.close(b2.target.points, b2.aligned_source().points, 1e-9):
            bad.append((tag + "target != aligned source after from_vector", {}, None))
        if not L.close(b.h_matrix, h0, 0):
            bad.append((tag + "from_vector changed the receiver", {}, None))
        for k, val in kw.items():
            if getattr(b2, k, val) != val:
                bad.append((tag + "from_vector lost the constructor option %s" % k, {}, None))
    # a source that does not pin a rotation down (all points in a plane through the origin, or on one line): the parameters are
    # whatever the vector says - they are not to be re-derived from the end points
    if cls == "Rotation" and src.shape[1] == 3:
        flat = src.copy()
        flat[:, 2] = 0.0
        line = np.outer(np.arange(1, len(src) + 1, dtype=float), [1.0, -2.0, 0.5])
        for sname, sp_, kw in (("a planar source, allow_mirror=True", flat, dict(allow_mirror=True)), ("a planar source", flat, {}),
                               ("a collinear source", line, {}), ("a collinear source, allow_mirror=True", line, dict(allow_mirror=True))):
            try:
                d_ = mt.AlignmentRotation(PointCloud(sp_.copy()), PointCloud(sp_ @ M[:3, :3].T), **kw)
                d2 = d_.from_vector(v)
            except Exception as e:
                bad.append(("AlignmentRotation with %s: from_vector raised %s" % (sname, type(e).__name__), {"msg": str(e)[:100]}, None))
                continue
            if not L.close(d2.h_matrix, M2, 1e-9) or not L.close(d2.as_vector(), v, 1e-9):
                bad.append(("AlignmentRotation with %s: from_vector(v) is not the rotation v describes (re-derived from degenerate end points?)" % sname,
                            {"got": d2.as_vector(), "want": v}, None))
            elif not L.close(d2.target.points, d2.aligned_source().points, 1e-9):
                bad.append(("AlignmentRotation with %s: target != aligned source after from_vector" % sname, {}, None))
    return bad


def check_inv3(o):
    import menpo.transform as mt

    bad = []
    c = o["case"]
    t = _obj(c["cls"], 3, c["M"])
    Mi = L.mat(o["inv"])
    h0 = t.h_matrix.copy()
    p = t.pseudoinverse()
    if type(p) is not type(t):
        bad.append(("inverse changes class to " + type(p).__name__, {}, None))
    if not L.close(p.h_matrix, Mi, 1e-10):
        bad.append(("3-D inverse matrix differs", {"got": p.h_matrix, "want": Mi}, None))
    if not p.has_true_inverse:
        bad.append(("has_true_inverse false", {}, None))
    pts = np.array([[1.0, 0, 0], [0, 1, 0], [0, 0, 1], [2, 3, -1], [-1, 2, 4]])
    if not (L.close(p.apply(t.apply(pts)), pts, 1e-9) and L.close(t.apply(p.apply(pts)), pts, 1e-9)):
        bad.append(("3-D pseudoinverse does not invert from both sides", {}, None))
    if not honest(type(p).__name__, p.h_matrix):
        bad.append(("3-D inverse is not an honest member of its class", {}, None))
    if not np.array_equal(t.h_matrix, h0):
        bad.append(("pseudoinverse changed the receiver", {}, None))
    return bad


def _angle(cs, turns):
    return math.atan2(L.fl(cs[1]), L.fl(cs[0])) + 2 * math.pi * turns


def check_rot2(o):
    from menpo.transform import Rotation

    bad = []
    c = o["case"]
    M = L.mat(o["M"])
    th = _angle(c["cs"], c["turns"])
    r = Rotation.init_from_2d_ccw_angle(math.degrees(th) if c["degrees"] else th, degrees=c["degrees"])
    if not L.close(r.h_matrix, M, 1e-12 * (1 + abs(c["turns"]) * 10)):
        bad.append(("2-D ccw rotation matrix differs from the convention", {"got": r.h_matrix, "want": M}, None))
    e = r.apply(np.eye(2))
    if not L.close(e, M[:2, :2].T, 1e-11):
        bad.append(("2-D rotation acts wrongly on the basis vectors", {"got": e}, None))
    # the default unit is degrees
    if c["degrees"]:
        r2 = Rotation.init_from_2d_ccw_angle(math.degrees(th))
        if not L.close(r2.h_matrix, M, 1e-11):
            bad.append(("default angle unit is not degrees", {}, None))
    axis, ang = Rotation(M[:2, :2]).axis_and_angle_of_rotation()
    want = math.atan2(L.fl(c["cs"][1]), L.fl(c["cs"][0]))
    rebuilt = np.array([[math.cos(ang), -math.sin(ang)], [math.sin(ang), math.cos(ang)]])
    if not (np.allclose(axis, [0, 0, 1]) and L.close(rebuilt, M[:2, :2], 1e-9)):
        kind = None
        if np.allclose(axis, [0, 0, 1]) and L.fl(c["cs"][1]) < 0 and abs(ang + want) < 1e-9:
            kind = "rot2d_axis_angle_unsigned"  # D7: arccos loses the sign
        bad.append(("reported 2-D axis/angle does not rebuild the rotation", {"axis": axis, "angle": ang, "expected_angle": want}, kind))
    return bad


def _rodrigues(axis, ang):
    k = np.asarray(axis, dtype=float)
    K = np.array([[0, -k[2], k[1]], [k[2], 0, -k[0]], [-k[1], k[0], 0]])
    return np.eye(3) + math.sin(ang) * K + (1 - math.cos(ang)) * (K @ K)


def check_rot3(o):
    from menpo.transform import Rotation

    bad = []
    c = o["case"]
    M = L.mat(o["M"])
    th = _angle(c["cs"], c["turns"])
    ctor = getattr(Rotation, "init_from_3d_ccw_angle_around_" + c["axis"])
    r = ctor(math.degrees(th) if c["degrees"] else th, degrees=c["degrees"])
    if not L.close(r.h_matrix, M, 1e-11):
        bad.append(("3-D ccw rotation about %s differs from the right-handed convention" % c["axis"], {"got": r.h_matrix, "want": M}, None))
    if c["degrees"]:
        if not L.close(ctor(math.degrees(th)).h_matrix, M, 1e-11):
            bad.append(("default angle unit is not degrees (3-D)", {}, None))
    # the rotation keeps its axis fixed and rotates the next axis towards the third (right-handed)
    ax = "xyz".index(c["axis"])
    e = np.eye(3)
    if not L.close(r.apply(e[ax][None]), e[ax][None], 1e-12):
        bad.append(("rotation axis is not fixed", {}, None))
    half_turn_or_identity = abs(L.fl(c["cs"][0])) == 1.0   # excluded by the property for the 3-D axis/angle clause
    if not half_turn_or_identity:
        np.random.seed(0)
        axis, ang = Rotation(M[:3, :3]).axis_and_angle_of_rotation()
        if axis is None:
            bad.append(("no axis reported for a proper 3-D rotation", {}, None))
        else:
            if abs(np.linalg.norm(axis) - 1) > 1e-9:
                bad.append(("reported axis is not a unit vector", {"axis": axis}, None))
            if not L.close(_rodrigues(axis, ang), M[:3, :3], 1e-7):
                bad.append(("reported 3-D axis/angle does not rebuild the rotation (sign included)",
                            {"axis": axis, "angle": ang, "rebuilt": _rodrigues(axis, ang), "want": M[:3, :3]}, None))
        _stored_forms(M[:3, :3], bad)
    return bad


def _stored_forms(M3, bad):
    """a proper rotation matrix as it comes out of a file or a single-precision pipeline (float32, or rounded to 7 decimals) is a
    proper rotation matrix: accepted, and its axis / angle rebuild it to that precision"""
    from menpo.transform import Rotation

    for tag, R in (("float32", M3.astype(np.float32)), ("rounded to 7 decimals", np.round(M3, 7))):
        try:
            np.random.seed(0)
            rot = Rotation(R.copy())
            axis, ang = rot.axis_and_angle_of_rotation()
        except Exception as e:
            bad.append(("a proper rotation matrix stored as %s is refused / fails (%s)" % (tag, type(e).__name__), {"msg": str(e)[:120]}, None))
            return
        if axis is None or not np.allclose(_rodrigues(np.asarray(axis, dtype=float), float(ang)), M3, rtol=0, atol=1e-5):
            bad.append(("axis / angle of a rotation matrix stored as %s do not rebuild it" % tag, {"axis": axis, "angle": ang}, None))
            return


def check_quat(o):
    from menpo.transform import Rotation

    bad = []
    c = o["case"]
    q = _vecf(c["q"])
    M = L.mat(o["M"])
    canon = _vecf(o["canon"])
    r = Rotation.init_3d_from_quaternion(q)
    if not L.close(r.h_matrix, M, 1e-11):
        bad.append(("quaternion -> matrix differs", {"got": r.h_matrix, "want": M}, None))
    v = r.as_vector()
    if not L.close(v, canon, 1e-9):
        bad.append(("matrix -> quaternion is not the canonical unit quaternion", {"got": v, "want": canon}, None))
    r2 = r.from_vector(canon)
    if not L.close(r2.as_vector(), canon, 1e-9) or not L.close(r2.h_matrix, M, 1e-11):
        bad.append(("quaternion does not round-trip", {}, None))
    # quaternion of any positive scaling denotes the same rotation - and stays the caller's: not rescaled behind their back
    q3 = 3.0 * q
    q3_keep = q3.copy()
    if not L.close(Rotation.init_3d_from_quaternion(q3).h_matrix, M, 1e-11):
        bad.append(("scaled quaternion gives a different rotation", {}, None))
    if not np.array_equal(q3, q3_keep):
        bad.append(("init_3d_from_quaternion rewrote the caller's (non-unit) quaternion array", {"before": q3_keep, "after": q3}, None))
    # a rotation's own parameter vector (a read-only array) is a legal quaternion argument
    try:
        own = r.as_vector()
        r3 = Rotation.init_3d_from_quaternion(own)
        if not L.close(r3.h_matrix, M, 1e-11):
            bad.append(("init_3d_from_quaternion(rotation.as_vector()) is another rotation", {}, None))
    except Exception as e:
        bad.append(("init_3d_from_quaternion refuses a rotation's own as_vector() (%s)" % type(e).__name__, {"msg": str(e)[:100]}, None))
    # a vector of the wrong length is refused - and left alone
    w3 = np.array([3.0, 0.0, 4.0])
    try:
        Rotation.init_3d_from_quaternion(w3)
        bad.append(("a three-parameter vector was accepted as a quaternion", {}, None))
    except Exception:
        if not np.array_equal(w3, [3.0, 0.0, 4.0]):
            bad.append(("a refused init_3d_from_quaternion call rewrote its argument", {"after": w3}, None))
    # axis and angle of a rotation about a GENERAL axis rebuild it, sign included (identity and half-turns are excluded)
    tr = float(np.trace(M[:3, :3]))
    if abs(tr - 3.0) > 1e-6 and abs(tr + 1.0) > 1e-6:
        np.random.seed(0)
        axis, ang = Rotation(M[:3, :3].copy()).axis_and_angle_of_rotation()
        if axis is None:
            bad.append(("no axis reported for a proper 3-D rotation", {}, None))
        elif abs(np.linalg.norm(axis) - 1) > 1e-9 or not L.close(_rodrigues(axis, ang), M[:3, :3], 1e-7):
            bad.append(("reported 3-D axis/angle does not rebuild the rotation (sign included)",
                        {"axis": axis, "angle": ang, "rebuilt": _rodrigues(axis, ang), "want": M[:3, :3]}, None))
        _stored_forms(M[:3, :3], bad)
    return bad


def check_about(o):
    import menpo.transform as mt
    from menpo.image import Image
    from menpo.shape import PointCloud, TriMesh

    bad = []
    c = o["case"]
    pts = L.pts(o["pts"])
    centre = np.array([L.fl(x) for x in o["centre"]])
    M = L.mat(o["M"])
    T = L.mat(c["t"])
    if c["obj"] == "pointcloud":
        obj = PointCloud(pts)
    elif c["obj"] == "trimesh":
        obj = TriMesh(pts, trilist=np.array([[0, 1, 2], [0, 2, 3]]))
    else:
        obj = Image(np.zeros((1, 6, 7)))
    if not L.close(obj.centre(), centre, 1e-12):
        return [("centre of the object differs from the specification", {"got": obj.centre(), "want": centre}, None)]
    results = {}
    lin = T[:2, :2]
    is_scale = np.allclose(lin, lin[0, 0] * np.eye(2))
    is_rot = np.allclose(lin @ lin.T, np.eye(2)) and np.linalg.det(lin) > 0 and not is_scale
    is_shear = lin[0, 0] == 1 and lin[1, 1] == 1 and not is_rot
    results["transform_about_centre"] = mt.transform_about_centre(obj, mt.Affine(T))
    if is_scale:
        results["scale_about_centre"] = mt.scale_about_centre(obj, lin[0, 0])
        results["scale_about_centre(per-axis array of equal factors)"] = mt.scale_about_centre(obj, np.array([lin[0, 0], lin[1, 1]]))
    elif lin[0, 1] == 0 and lin[1, 0] == 0:
        # one factor per axis (the documented (n_dims,) form)
        results["scale_about_centre(per-axis factors)"] = mt.scale_about_centre(obj, np.array([lin[0, 0], lin[1, 1]]))
    if is_rot:
        th = math.atan2(lin[1, 0], lin[0, 0])
        results["rotate_ccw_about_centre(deg)"] = mt.rotate_ccw_about_centre(obj, math.degrees(th))
        results["rotate_ccw_about_centre(rad)"] = mt.rotate_ccw_about_centre(obj, th, degrees=False)
    if is_shear:
        results["shear_about_centre"] = mt.shear_about_centre(obj, math.degrees(math.atan(lin[0, 1])), math.degrees(math.atan(lin[1, 0])))
        # the same angles (of either sign) in radians
        results["shear_about_centre(rad)"] = mt.shear_about_centre(obj, math.atan(lin[0, 1]), math.atan(lin[1, 0]), degrees=False)
        plain_deg = mt.Affine.init_from_2d_shear(math.degrees(math.atan(lin[0, 1])), math.degrees(math.atan(lin[1, 0])))
        plain_rad = mt.Affine.init_from_2d_shear(math.atan(lin[0, 1]), math.atan(lin[1, 0]), degrees=False)
        for nm, pl in (("degrees", plain_deg), ("radians", plain_rad)):
            if not L.close(pl.h_matrix[:2, :2], lin, 1e-11) or not L.close(pl.h_matrix[:2, 2], np.zeros(2), 0):
                bad.append(("Affine.init_from_2d_shear (%s) is not the shear with the given angles" % nm, {"got": pl.h_matrix, "want": lin}, None))
    for name, t in results.items():
        if not L.close(t.h_matrix, M, 1e-11):
            bad.append((name + ": matrix differs from centre-fixing conjugation", {"got": t.h_matrix, "want": M}, None))
            continue
        if not L.close(t.apply(centre[None]), centre[None], 1e-11):
            bad.append((name + ": centre is not fixed", {}, None))
        off = pts - centre
        if not L.close(t.apply(pts), centre + off @ lin.T, 1e-10):
            bad.append((name + ": does not act as the plain transform on offsets from the centre", {}, None))
    return bad


def check_scalefac(o):
    from menpo.transform import Scale

    c = o["case"]
    f = [L.fl(x) for x in c["factors"]]
    n = c["ndims"]
    try:
        if n:
            t = Scale(f[0], n)
        else:
            t = Scale(np.array(f))
        got = type(t).__name__
        err = False
    except ValueError:
        got, err = None, True
    if err != o["err"]:
        return [("scale factory: zero factor %s" % ("accepted" if o["err"] else "refused a non-zero factor"), {"factors": f}, None)]
    if not err:
        if got != o["cls"]:
            return [("scale factory returned %s, expected %s" % (got, o["cls"]), {"factors": f}, None)]
        d = n or len(f)
        want = np.eye(d + 1)
        want[np.arange(d), np.arange(d)] = f[0] if n else f
        if not L.close(t.h_matrix, want, 1e-12):
            return [("scale factory matrix differs", {"got": t.h_matrix, "want": want}, None)]
    return []


def check_tcoords(o):
    from menpo.transform.tcoords import image_coords_to_tcoords, tcoords_to_image_coords

    bad = []
    sh = tuple(o["case"]["shape"])
    M, Mi = L.mat(o["M"]), L.mat(o["Minv"])
    t = tcoords_to_image_coords(sh)
    ti = image_coords_to_tcoords(sh)
    if not L.close(t.h_matrix, M, 1e-12):
        bad.append(("tcoords -> image coordinates matrix differs", {"got": t.h_matrix, "want": M}, None))
    if not L.close(ti.h_matrix, Mi, 1e-12):
        bad.append(("image -> tcoords matrix differs", {"got": ti.h_matrix, "want": Mi}, None))
    uv = np.array([[0.0, 1.0], [1.0, 1.0], [0.0, 0.0], [1.0, 0.0], [0.25, 0.75]])
    corners = np.array([[0, 0], [0, sh[1] - 1], [sh[0] - 1, 0], [sh[0] - 1, sh[1] - 1]], dtype=float)
    if not L.close(t.apply(uv)[:4], corners, 1e-12):
        bad.append(("unit-square corners do not map to the corner pixels with the vertical flip", {"got": t.apply(uv)[:4]}, None))
    if not L.close(ti.apply(t.apply(uv)), uv, 1e-12) or not L.close(t.apply(ti.apply(corners)), corners, 1e-12):
        bad.append(("tcoords transforms are not mutual inverses", {}, None))
    # every request answers from the image shape alone: editing a returned transform in place must not leak into later requests
    import menpo.transform as mt

    t.compose_before_inplace(mt.UniformScale(0.5, 2))
    ti.compose_after_inplace(mt.Translation([3.0, -1.0]))
    t2, ti2 = tcoords_to_image_coords(sh), image_coords_to_tcoords(sh)
    if not L.close(t2.h_matrix, M, 1e-12) or not L.close(ti2.h_matrix, Mi, 1e-12):
        bad.append(("a tcoords transform requested after an in-place edit of an earlier result is no longer the specified one", {"got": t2.h_matrix, "want": M}, None))
    return bad


def check_decompose(o):
    from functools import reduce

    import menpo.transform as mt

    bad = []
    c = o["case"]
    d = c["d"]
    M = L.mat(c["M"])
    t = _obj(c["cls"], d, c["M"])
    h0 = t.h_matrix.copy()
    parts = t.decompose()
    if len(parts) != o["n_parts"]:
        return [("decompose returns %d factors, expected %d" % (len(parts), o["n_parts"]), {}, None)]
    rec = reduce(lambda a, b: a.compose_before(b), parts)
    if not L.close(rec.h_matrix, M, 1e-9):
        bad.append(("the decomposition does not recompose to the transform", {"got": rec.h_matrix, "want": M}, None))
    pts = np.array([[1.0, 0, 2][:d], [0.0, 1, -1][:d], [2.0, 3, 1][:d]])
    seq = pts
    for p in parts:
        seq = p.apply(seq)
    if not L.close(seq, t.apply(pts), 1e-9):
        bad.append(("applying the factors in order differs from applying the transform", {}, None))
    if o["discrete"]:
        if type(parts[0]) is not type(t) or np.shares_memory(parts[0].h_matrix, t.h_matrix):
            bad.append(("a discrete transform does not decompose into an independent copy of itself", {}, None))
    else:
        names = [type(p).__name__ for p in parts]
        if names[0] != "Rotation" or names[2] != "Rotation" or names[3] != "Translation" or names[1] not in ("UniformScale", "NonUniformScale"):
            bad.append(("decomposition is not rotation, scale, rotation, translation", {"got": names}, None))
        elif not L.close(parts[3].h_matrix[:d, d], M[:d, d], 1e-12):
            bad.append(("translation factor is not the translation component", {}, None))
    if not np.array_equal(t.h_matrix, h0):
        bad.append(("decompose modified the transform", {}, None))
    return bad


def check_hprod(o):
    """compositions whose product matrix has a zero / negative / non-unit corner entry: the result is the product up to a non-zero
    factor, and maps points as the two maps in sequence"""
    import menpo.transform as mt

    bad = []
    c = o["case"]
    A, B, P = L.mat(c["M"]), L.mat(c["M2"]), L.mat(o["P"])
    is_tr = np.array_equal(B[:2, :2], np.eye(2)) and np.array_equal(B[2], [0, 0, 1])

    def mk():
        return mt.Homogeneous(A.copy()), (mt.Translation(B[:2, 2].copy()) if is_tr else mt.Homogeneous(B.copy()))

    probes = np.array([[2.0, 1.0], [3.0, -1.0], [0.5, 2.0], [4.0, 4.0]])

    def seq(x):                      # a o b evaluated with plain arithmetic
        hb = np.c_[x, np.ones(len(x))] @ B.T
        y = hb[:, :2] / hb[:, 2:]
        ha = np.c_[y, np.ones(len(y))] @ A.T
        return ha[:, :2] / ha[:, 2:]

    with np.errstate(all="ignore"):
        want = seq(probes)
    fin = np.all(np.isfinite(want), axis=1) & np.all(np.abs(want) < 1e6, axis=1)          # (a probe may sit on the pole of the map)
    probes, want = probes[fin], want[fin]
    results = {}
    a, b = mk(); results["a.compose_after(b)"] = a.compose_after(b)
    a, b = mk(); results["b.compose_before(a)"] = b.compose_before(a)
    a, b = mk(); a.compose_after_inplace(b); results["a.compose_after_inplace(b)"] = a
    for name, r in results.items():
        H = np.asarray(r.h_matrix, dtype=float)
        i0 = np.unravel_index(np.argmax(np.abs(P)), P.shape)
        if not np.all(np.isfinite(H)) or abs(H[i0]) < 1e-12 or not np.allclose(H * P[i0], P * H[i0], atol=1e-9):
            bad.append((name + ": the matrix of the composition is not the product (up to a non-zero factor)", {"got": H, "want": P}, None))
            continue
        got = r.apply(probes)
        if not np.all(np.isfinite(got)) or not np.allclose(got, want, atol=1e-9):
            bad.append((name + ": does not map points as the two maps in sequence", {"got": got, "want": want}, None))
    return bad


CHECKS = {"hprod": check_hprod, "decompose": check_decompose, "vec": check_vec, "alvec": check_alvec, "inv3": check_inv3, "rot2": check_rot2, "rot3": check_rot3,
          "quat": check_quat, "about": check_about, "scalefac": check_scalefac, "tcoords": check_tcoords}


def run_case(o):
    return CHECKS[o["case"]["kind"]](o)
