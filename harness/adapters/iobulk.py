"""Adapter for IOBulk.tla: the lazy lists built by menpo.io's bulk importers, replayed on real temporary directories."""
import os
import shutil
import tempfile
from pathlib import Path

import numpy as np

POOL_ORDER = ["a.ljson", "a.png", "a.pts", "ab.pts", "b.bmp", "b.pts", "m.pkl", "n.pkl.gz", "notes.txt", "sub/d.png", "sub/d.pts"]
_SORT_OK = {}


def _write(root, name, k):
    import menpo.io as mio
    from menpo.image import Image
    from menpo.shape import PointCloud

    p = Path(root) / name
    p.parent.mkdir(parents=True, exist_ok=True)
    if name.endswith((".png", ".bmp")):
        px = np.zeros((1, 4, 5), dtype=np.uint8)
        px[0, 0, 0] = 10 + k          # the file's identity, readable from the imported image
        mio.export_image(Image(px), p, overwrite=True)
    elif name.endswith((".pts", ".ljson")):
        mio.export_landmark_file(PointCloud(np.array([[1.0 + k, 1.0], [2.0, 3.0], [3.0, 1.5]])), p, overwrite=True)
    elif name.endswith((".pkl", ".pkl.gz")):
        mio.export_pickle({"id": k}, p, overwrite=True)
    else:
        p.write_text("not an asset")


def run_case(o):
    import menpo.io as mio
    import menpo.io.input.base as mb

    bad = []
    c, res = o["case"], o["res"]
    root = tempfile.mkdtemp(prefix="menpo-bulk-")
    try:
        for name in c["files"]:
            _write(root, name, POOL_ORDER.index(name))
        # precondition of the specification's ranks: Python's path order on this directory
        got_order = [str(p.relative_to(root)) for p in sorted(Path(root).glob("**/*")) if p.is_file()]
        if got_order != [n for n in POOL_ORDER if n in c["files"]]:
            raise AssertionError("the specification's ranks do not match sorted() of the paths: %r" % got_order)
        pat = {"*": "*", "*.png": "*.png", "a.*": "a.*", "sub/*": "sub/*", "**/*": "**/*", "dir": ""}[c["pattern"]]
        pattern = os.path.join(root, pat) if pat else root
        fn = {"images": mio.import_images, "landmarks": mio.import_landmark_files, "pickles": mio.import_pickles}[c["kind"]]
        mx = {"images": "max_images", "landmarks": "max_landmarks", "pickles": "max_pickles"}[c["kind"]]
        kw = {mx: c["max"]} if c["max"] else {}
        calls = []
        orig = mb._import

        def counted(filepath, *a, **k):
            calls.append(str(Path(filepath).relative_to(root)) if str(filepath).startswith(root) else str(filepath))
            return orig(filepath, *a, **k)

        tag = "%s(%r, max=%r) over %s" % (fn.__name__, c["pattern"], c["max"] or None, sorted(c["files"]))
        mb._import = counted
        try:
            try:
                ll = fn(pattern, **kw)
                err = ""
            except ValueError:
                err = "ValueError"
            if err != res["err"]:
                return [(tag + ": outcome %r, expected %r" % (err or "a lazy list", res["err"] or "a lazy list"), {}, None)]
            if err:
                return bad
            want = res["names"]
            if calls:
                bad.append((tag + ": building the lazy list already imported %r" % calls, {}, None))
            if len(ll) != len(want):
                return [(tag + ": lazy list of length %d, expected %d" % (len(ll), len(want)), {"want": want}, None)]
            if calls:
                bad.append((tag + ": len() imported files", {}, None))
            order = list(range(len(want)))[::-1]                 # read back to front: element i must still be file i
            for i in order:
                del calls[:]
                x = ll[i]
                top = [p for p in calls if p == want[i]]
                others = [p for p in calls if p != want[i] and not p.endswith((".pts", ".ljson"))]
                if len(top) != 1 or others:
                    bad.append((tag + ": reading element %d imported %r, expected exactly %r (plus its landmark files)" % (i, calls, want[i]), {}, None))
                    break
                if c["kind"] == "landmarks":
                    path = next(iter(x.values())).path if isinstance(x, dict) and hasattr(next(iter(x.values())), "path") else None
                    ident = None
                else:
                    path = getattr(x, "path", None)
                    ident = int(x.pixels[0, 0, 0] * 255 + 0.5) - 10 if c["kind"] == "images" else x["id"]
                if c["kind"] != "landmarks" and ident != POOL_ORDER.index(want[i]):
                    bad.append((tag + ": element %d is file %r, expected %r" % (i, POOL_ORDER[ident] if 0 <= ident < len(POOL_ORDER) else ident, want[i]), {}, None))
                    break
                if c["kind"] == "images":
                    if path is None or str(Path(path).relative_to(root)) != want[i]:
                        bad.append((tag + ": element %d carries path %r, expected %r" % (i, path, want[i]), {}, None))
                    groups = list(x.landmarks.keys()) if x.has_landmarks else []
                    if groups != res["lms"][i]:
                        bad.append((tag + ": element %d (%s) carries landmark groups %r, expected %r" % (i, want[i], groups, res["lms"][i]), {}, None))
            # the generator form yields the same sequence
            if not bad and c["kind"] != "landmarks":
                gen = fn(pattern, as_generator=True, **kw)
                ids = [(int(x.pixels[0, 0, 0] * 255 + 0.5) - 10) if c["kind"] == "images" else x["id"] for x in gen]
                if ids != [POOL_ORDER.index(n) for n in want]:
                    bad.append((tag + ": as_generator=True yields another sequence", {"got": ids}, None))
        finally:
            mb._import = orig
    finally:
        shutil.rmtree(root, ignore_errors=True)
    return bad
