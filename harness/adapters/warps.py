"""Adapter for Warps.tla: piecewise-affine (exact) and thin-plate-spline (laws only) warps."""
import numpy as np

from .. import lattice as L

TOL = 1e-9


def _pwa(o, cls=None, tgt_kind="pointcloud", src_kind="trimesh", orient="given"):
    import menpo.transform as mt
    import menpo.transform.piecewiseaffine.base as pb
    from menpo.shape import ColouredTriMesh, PointCloud, TexturedTriMesh, TriMesh

    S, T = L.pts(o["S"]), L.pts(o["T"])
    tris = np.array(o["tris"], dtype=int) - 1
    # the same set of triangles listed clockwise / with mixed orientation is the same triangulation
    if orient == "cw":
        tris = tris[:, ::-1].copy()
    elif orient == "mixed":
        tris = tris.copy()
        tris[::2] = tris[::2, ::-1]
    elif orient == "collapsed":
        # a triangle that repeats a vertex has no area and contains nothing: the domain and the map stay what they were
        tris = np.vstack([tris, [[tris[0, 0], tris[0, 0], tris[0, 1]]]])
    if src_kind == "coloured":
        src = ColouredTriMesh(S, trilist=tris, colours=np.full((len(S), 3), 0.5))
    elif src_kind == "textured":
        from menpo.image import Image

        src = TexturedTriMesh(S, S / (np.abs(S).max() + 1.0), Image(np.zeros((1, 4, 4))), trilist=tris)
    else:
        src = TriMesh(S, trilist=tris)
    if tgt_kind == "pointcloud":
        tgt = PointCloud(T)
    elif tgt_kind == "trimesh_same":
        tgt = TriMesh(T, trilist=tris.copy())
    else:
        tgt = TriMesh(T, trilist=np.array(o["other"], dtype=int) - 1)
    klass = {"PiecewiseAffine": mt.PiecewiseAffine, "PythonPWA": pb.PythonPWA, "CachedPWA": pb.CachedPWA}[cls or "PiecewiseAffine"]
    return klass(src, tgt), S, T


def check_pwa(o):
    from menpo.transform.piecewiseaffine.base import TriangleContainmentError

    bad = []
    c = o["case"]
    w, S, T = _pwa(o, c["cls"], c["tgt"])
    pts, img = L.pts(o["pts"]), L.pts(o["img"])
    ptsT, imgInv = L.pts(o["ptsT"]), L.pts(o["imgInv"])
    if not L.close(w.apply(S), T, TOL):
        bad.append(("PWA does not send source landmarks onto target landmarks", {"got": w.apply(S), "want": T}, None))
    got = w.apply(pts)
    if not L.close(got, img, TOL):
        bad.append(("PWA map differs from the exact barycentric map", {"maxdiff": L.maxdiff(got, img)}, None))
    # the orientation in which a triangle is listed is not part of the triangulation; nor is the payload of the source mesh
    if c["tgt"] == "pointcloud":
        for kw in (dict(orient="cw"), dict(orient="mixed"), dict(src_kind="coloured")):
            tagv = "triangles listed %s" % kw["orient"] if "orient" in kw else "source given as a coloured mesh"
            try:
                wv, _, _ = _pwa(o, c["cls"], c["tgt"], **kw)
                gv = wv.apply(pts)
                if not L.close(gv, img, TOL) or not L.close(wv.apply(S), T, TOL):
                    bad.append(("PWA with %s is another map" % tagv, {"maxdiff": L.maxdiff(gv, img)}, None))
            except TriangleContainmentError:
                bad.append(("PWA with %s rejects points of its own triangles" % tagv, {}, None))
    if c["tgt"] == "trimesh_other":
        import menpo.transform as _mt
        from menpo.shape import PointCloud as _PC2, TriMesh as _TM2

        klass = {"PiecewiseAffine": _mt.PiecewiseAffine}.get(c["cls"])
        if klass is not None:
            other_tl = np.array(o["other"], dtype=int) - 1
            a_ = klass(_PC2(S.copy()), _TM2(T.copy(), trilist=other_tl))
            b_ = klass(_PC2(S.copy()), _PC2(T.copy()))
            inner = S.mean(axis=0)[None] * 0.5 + S[:3].mean(axis=0)[None] * 0.5
            tset = lambda m_: sorted(tuple(sorted(int(x) for x in t_)) for t_ in np.asarray(m_.source.trilist))
            if tset(a_) != tset(b_):
                bad.append(("a PWA from a plain point cloud triangulates its source differently when the TARGET carries a triangle list", {}, None))
            try:
                if not L.close(a_.apply(inner), b_.apply(inner), TOL):
                    bad.append(("a PWA from a plain point cloud maps differently when the TARGET carries a triangle list", {}, None))
                b_.set_target(_TM2(T.copy(), trilist=other_tl))
                if not L.close(b_.apply(inner), a_.apply(inner), TOL):
                    bad.append(("a PWA retargeted to a mesh differs from the PWA built to that mesh (the triangulation depends on the history)", {}, None))
            except TriangleContainmentError:
                pass
    if not L.close(w.aligned_source().points, T, TOL) or abs(w.alignment_error()) > 1e-9:
        bad.append(("aligned_source / alignment_error inconsistent", {"err": w.alignment_error()}, None))
    for k in list(range(1, 6)) + [len(pts) - 1, len(pts), len(pts) + 2]:
        gb = w.apply(pts, batch_size=k)
        if gb.shape != img.shape or not L.close(gb, img, TOL):
            bad.append(("batched apply (batch_size=%d) differs from unbatched" % k, {}, None))
            break
    out = L.pts(o["outside"])
    try:
        w.apply(out)
        bad.append(("points outside the source domain were accepted", {}, None))
    except TriangleContainmentError as e:
        if not np.array_equal(np.asarray(e.points_outside_source_domain), np.ones(len(out), dtype=bool)):
            bad.append(("containment error mask wrong for all-outside input", {"got": e.points_outside_source_domain}, None))
    # ... also when ONE point is asked for (as an array or a one-point cloud, batched or not): one flag, in a (1,) mask
    from menpo.shape import PointCloud as _PC

    for b in (None, 1, 3):
        for form, arg in (("array", out[:1].copy()), ("point cloud", _PC(out[:1].copy()))):
            try:
                w.apply(arg, batch_size=b)
                bad.append(("a single point outside the source domain (%s, batch_size=%r) was accepted" % (form, b), {}, None))
            except TriangleContainmentError as e:
                m1 = np.asarray(e.points_outside_source_domain)
                if m1.shape != (1,) or not bool(m1[0]):
                    bad.append(("containment error for a single outside point (%s, batch_size=%r) does not carry one flag per input point" % (form, b),
                                {"mask_shape": list(m1.shape)}, None))
    if not w.has_true_inverse:
        bad.append(("PWA has_true_inverse is not True", {}, None))
    inv = w.pseudoinverse()
    if type(inv) is not type(w):
        bad.append(("PWA inverse changes class", {}, None))
    if not (L.close(inv.source.points, T, 0) and L.close(inv.target.points, S, 0)):
        bad.append(("PWA inverse does not swap source and target", {}, None))
    gi = inv.apply(ptsT)
    if not L.close(gi, imgInv, TOL):
        bad.append(("PWA inverse differs from the warp fitted in the reverse direction", {"maxdiff": L.maxdiff(gi, imgInv)}, None))
    try:
        back = inv.apply(w.apply(pts))
        forth = w.apply(inv.apply(ptsT))
        if not (L.close(back, pts, 1e-8) and L.close(forth, ptsT, 1e-8)):
            bad.append(("PWA pseudoinverse does not undo the warp from both sides",
                        {"back": L.maxdiff(back, pts), "forth": L.maxdiff(forth, ptsT)}, None))
    except TriangleContainmentError:
        bad.append(("PWA inverse rejects images of in-domain points", {}, None))
    if not (L.close(w.source.points, S, 0) and L.close(w.target.points, T, 0)):
        bad.append(("pseudoinverse / apply changed the warp's own end points", {}, None))
    return bad


def check_mask(o):
    from menpo.transform.piecewiseaffine.base import TriangleContainmentError

    bad = []
    c = o["case"]
    pts, img = L.pts(o["pts"]), L.pts(o["img"])
    want = np.array(o["outmask"], dtype=bool)
    b = c["batch"] or None
    for cls in ("PiecewiseAffine", "PythonPWA"):
        w, S, T = _pwa(o, cls)
        try:
            got = w.apply(pts.copy(), batch_size=b)
            if want.any():
                bad.append((cls + ": out-of-domain points accepted", {"batch": b}, None))
            elif not L.close(got, img, TOL):
                bad.append((cls + ": batched result differs", {"batch": b}, None))
        except TriangleContainmentError as e:
            m = np.asarray(e.points_outside_source_domain)
            if not want.any():
                bad.append((cls + ": in-domain points rejected", {"batch": b}, None))
            elif m.shape != want.shape or not np.array_equal(m.astype(bool), want):
                bad.append((cls + ": containment error does not identify exactly the outside points, once per input point",
                            {"batch": b, "got": m, "want": want}, None))
    # one point at a time: an outside point alone is refused with a (1,) mask, an inside point alone is mapped to its row
    if want.any() and not want.all():
        io, ii = int(np.argmax(want)), int(np.argmax(~want))
        for cls in ("PiecewiseAffine", "PythonPWA"):
            w, S, T = _pwa(o, cls)
            try:
                w.apply(pts[io:io + 1].copy(), batch_size=b)
                bad.append((cls + ": a single out-of-domain point was accepted", {"batch": b}, None))
            except TriangleContainmentError as e:
                m1 = np.asarray(e.points_outside_source_domain)
                if m1.shape != (1,) or not bool(m1[0]):
                    bad.append((cls + ": the containment error for a single outside point does not carry one flag per input point", {"batch": b, "mask_shape": list(m1.shape)}, None))
            g1 = np.asarray(w.apply(pts[ii:ii + 1].copy(), batch_size=b))
            if g1.shape != (1, 2) or not L.close(g1, img[ii:ii + 1], TOL):
                bad.append((cls + ": a single in-domain point is not mapped to its image", {"batch": b}, None))
    # the source given as a mesh that carries colours / a texture, or with its triangles listed clockwise / in mixed orientation, is
    # the same triangulation: same domain (the triangle list decides, not the convex hull), same map
    for kw in (dict(src_kind="coloured"), dict(src_kind="textured"), dict(orient="cw"), dict(orient="mixed"), dict(orient="collapsed")):
        tagv = "source %s" % ("as a %s mesh" % kw["src_kind"] if "src_kind" in kw else
                              "with a collapsed (repeated-vertex, zero-area) triangle added to its list" if kw["orient"] == "collapsed" else
                              "with triangles listed %s" % kw["orient"])
        try:
            wv, _, _ = _pwa(o, "PiecewiseAffine", **kw)
            gv = wv.apply(pts.copy(), batch_size=b)
            if want.any():
                bad.append(("PiecewiseAffine, %s: out-of-domain points accepted" % tagv, {"batch": b}, None))
            elif not L.close(gv, img, TOL):
                bad.append(("PiecewiseAffine, %s: another map" % tagv, {"batch": b}, None))
        except TriangleContainmentError as e:
            mv = np.asarray(e.points_outside_source_domain).astype(bool)
            if not want.any():
                bad.append(("PiecewiseAffine, %s: in-domain points rejected" % tagv, {"batch": b}, None))
            elif mv.shape != want.shape or not np.array_equal(mv, want):
                bad.append(("PiecewiseAffine, %s: the containment error flags other points (the domain is the triangle list, not the hull)" % tagv,
                            {"batch": b, "got": mv, "want": want}, None))
    # BooleanImage.constrain_to_pointcloud: the same mask for every batch size (including sizes that do not divide the number of
    # pixels and sizes beyond it)
    from menpo.image import BooleanImage
    from menpo.shape import TriMesh as _TM

    Sx = L.pts(o["S"])
    if Sx.min() >= 0:
        shape = (int(np.ceil(Sx[:, 0].max())) + 2, int(np.ceil(Sx[:, 1].max())) + 2)
        srcm = _TM(Sx, trilist=np.array(o["tris"], dtype=int) - 1)
        ref_img = BooleanImage.init_blank(shape)
        ref_img = ref_img.constrain_to_pointcloud(srcm, point_in_pointcloud="pwa")
        for bs in (3, 7, 1000):
            bi = BooleanImage.init_blank(shape).constrain_to_pointcloud(srcm, batch_size=bs, point_in_pointcloud="pwa")
            if not np.array_equal(bi.mask, ref_img.mask):
                bad.append(("BooleanImage.constrain_to_pointcloud(batch_size=%d) gives another mask than without batching" % bs,
                            {"true_pixels": [int(bi.mask.sum()), int(ref_img.mask.sum())]}, None))
                break
    # the same containment decides which pixels a boolean image keeps (constrain_to_pointcloud): one flag per index, any batch size
    from menpo.image.boolean import pwa_point_in_pointcloud
    from menpo.shape import TriMesh

    inside = np.asarray(pwa_point_in_pointcloud(TriMesh(L.pts(o["S"]), trilist=np.array(o["tris"], dtype=int) - 1), pts.copy(), batch_size=b))
    if inside.shape != want.shape or not np.array_equal(inside.astype(bool), ~want):
        bad.append(("pwa_point_in_pointcloud (BooleanImage.constrain_to_pointcloud) does not flag exactly the points inside the triangulation",
                    {"batch": b, "got": inside, "want": ~want}, None))
    return bad


def check_nudge(o):
    """points a 2^-40 step off the edges / vertices of the triangulation: in or out exactly as the infinitesimal test says"""
    from menpo.image.boolean import pwa_point_in_pointcloud
    from menpo.shape import TriMesh
    from menpo.transform.piecewiseaffine.base import TriangleContainmentError

    bad = []
    c = o["case"]
    eps = 2.0 ** -40
    base, dirs = L.pts(o["pts"]), L.pts(o["dirs"])
    pts = base + eps * dirs
    want = np.array(o["outmask"], dtype=bool)
    img = L.pts(o["img"])
    b = c["batch"] or None
    if not want.any() or want.all():
        raise AssertionError("degenerate nudge case")
    for cls in ("PiecewiseAffine", "PythonPWA"):
        w, S, T = _pwa(o, cls)
        try:
            w.apply(pts.copy(), batch_size=b)
            bad.append((cls + ": points a 2^-40 step outside the triangulation were accepted", {"batch": b}, None))
        except TriangleContainmentError as e:
            m = np.asarray(e.points_outside_source_domain).astype(bool)
            if m.shape != want.shape or not np.array_equal(m, want):
                k = int(np.argwhere(m != want)[0][0]) if m.shape == want.shape else -1
                bad.append((cls + ": a point a 2^-40 step off an edge is classified on the wrong side",
                            {"batch": b, "point": base[k].tolist() if k >= 0 else None, "direction": dirs[k].tolist() if k >= 0 else None,
                             "reported_outside": bool(m[k]) if k >= 0 else None}, None))
        inside = ~want
        got = w.apply(pts[inside].copy(), batch_size=b)
        if not np.allclose(got, img[inside], atol=1e-9):
            bad.append((cls + ": the image of a point a 2^-40 step inside an edge is not (within 1e-9 of) the image of the edge point", {"batch": b}, None))
    flags = np.asarray(pwa_point_in_pointcloud(TriMesh(L.pts(o["S"]), trilist=np.array(o["tris"], dtype=int) - 1), pts.copy(), batch_size=b)).astype(bool)
    if flags.shape != want.shape or not np.array_equal(flags, ~want):
        bad.append(("pwa_point_in_pointcloud classifies a point a 2^-40 step off an edge on the wrong side", {"batch": b}, None))
    return bad


def check_tps(o):
    import menpo.transform as mt
    from menpo.shape import PointCloud
    from menpo.transform import rbf

    bad = []
    c = o["case"]
    S, T = L.pts(o["S"]), L.pts(o["T"])
    kw = {}
    if c["kernel"] != "default":
        kw["kernel"] = getattr(rbf, c["kernel"])(S.copy())
    if c["msv"] == "0":
        # "keep every singular value" is a value of the option, not its absence; landmarks in small units need it
        kw["min_singular_val"] = 0
        S, T = S * 1.0e-3, T * 1.0e-3
        if "kernel" in kw:
            kw["kernel"] = getattr(rbf, c["kernel"])(S.copy())
    elif c["msv"] != "default":
        kw["min_singular_val"] = 1e-3
    t = mt.ThinPlateSplines(PointCloud(S), PointCloud(T), **kw)
    if "min_singular_val" in kw and t.min_singular_val != kw["min_singular_val"]:
        bad.append(("TPS does not keep the min_singular_val it was given", {"given": kw["min_singular_val"], "kept": t.min_singular_val}, None))
    diam = float(np.max(np.linalg.norm(S[:, None] - S[None], axis=2)))
    tol = 1e-8 * diam
    if not np.allclose(t.apply(S), T, atol=tol):
        bad.append(("TPS does not interpolate its landmarks", {"maxdiff": L.maxdiff(t.apply(S), T)}, None))
    if not np.allclose(t.aligned_source().points, T, atol=tol) or t.alignment_error() > 10 * tol:
        bad.append(("TPS aligned_source / alignment_error inconsistent", {"err": t.alignment_error()}, None))
    if t.has_true_inverse:
        bad.append(("TPS claims a true inverse", {}, None))
    inv = t.pseudoinverse()
    if not (L.close(inv.source.points, T, 0) and L.close(inv.target.points, S, 0)):
        bad.append(("TPS inverse does not swap source and target", {}, None))
    gi = inv.apply(T)
    if not np.allclose(gi, S, atol=tol):
        bad.append(("TPS inverse does not send target landmarks back onto source landmarks", {"maxdiff": L.maxdiff(gi, S)}, None))
    if type(inv.kernel) is not type(t.kernel):
        bad.append(("TPS inverse changed the kernel class", {"got": type(inv.kernel).__name__}, None))
    if not L.close(np.asarray(inv.kernel.c), T, 0):
        bad.append(("TPS inverse kernel is not centred on its own source points", {}, None))
    if inv.min_singular_val != t.min_singular_val:
        bad.append(("TPS inverse dropped min_singular_val", {}, None))
    grid = np.array([[x, y] for x in (0.5, 1.5, 2.5) for y in (0.25, 1.0, 2.75, 3.5)]) * (1.0e-3 if c["msv"] == "0" else 1.0)
    full = t.apply(grid)
    for k in (1, 2, 5, 11, 12, 14):
        if not L.close(t.apply(grid, batch_size=k), full, 1e-12):
            bad.append(("TPS batched apply differs (batch_size=%d)" % k, {}, None))
            break
    if not (L.close(t.source.points, S, 0) and L.close(t.target.points, T, 0)):
        bad.append(("TPS end points changed", {}, None))
    return bad


CHECKS = {"pwa": check_pwa, "mask": check_mask, "tps": check_tps, "nudge": check_nudge}


def run_case(o):
    return CHECKS[o["case"]["kind"]](o)
