"""Adapter for ImageCases.tla: pixel-exact crops and patches (C13) and image vectors (C05)."""
import numpy as np

from .. import lattice as L
from .shapes import same, state


def _pixels(C, sh, dtype="float64"):
    n = int(np.prod(sh))
    a = np.arange(C * n).reshape((C,) + tuple(sh))
    if dtype == "uint8":
        return (a % 251).astype(np.uint8)
    return (a + 0.25).astype(dtype)


def _sparse_mask(sh):
    idx = np.indices(sh).sum(axis=0)
    return idx % 3 != 0


def make_image(cls, sh, C=2, dtype="float64", mask="full", lms=True):
    from menpo.image import BooleanImage, Image, MaskedImage
    from menpo.shape import PointCloud

    sh = tuple(sh)
    if cls == "Image":
        img = Image(_pixels(C, sh, dtype))
    elif cls == "MaskedImage":
        img = MaskedImage(_pixels(C, sh, dtype), mask=np.ones(sh, bool) if mask == "full" else _sparse_mask(sh))
    else:
        img = BooleanImage(_sparse_mask(sh))
    if lms:
        d = len(sh)
        img.landmarks["a"] = PointCloud(np.array([[1.0] * d, [1.5, 2.25, 0.5][:d], [s - 1.0 for s in sh]]))
        img.landmarks["b"] = PointCloud(np.array([[0.0] * d, [2.0, 1.0, 1.0][:d]]))
    return img


# ------------------------------------------------------------------ crop
def check_crop(o):
    from menpo.image.base import ImageBoundaryError

    bad = []
    c = o["case"]
    sh = tuple(c["shape"])
    mn = np.array([L.fl(x) for x in c["mn"]])
    mx = np.array([L.fl(x) for x in c["mx"]])
    res = o["res"]
    lo, hi = res["lo"], res["hi"]
    sl = tuple(slice(a, b) for a, b in zip(lo, hi))
    # ("float64+inf": non-finite but legal float pixels - a crop copies pixels, it does not interpret them)
    combos = [("Image", "float64"), ("Image", "uint8"), ("MaskedImage", "float32"), ("BooleanImage", "float64"), ("Image", "float64+inf")]
    for cls, dt in combos:
        img = make_image(cls, sh, 2, dt.split("+")[0], "sparse")
        if dt.endswith("+inf"):
            flat = img.pixels.reshape(-1)
            flat[1::5] = np.inf
            flat[3::7] = -np.inf
        s0 = state(img)
        tag = "%s(%s)" % (cls, dt)
        try:
            r, t = img.crop(mn.copy(), mx.copy(), constrain_to_boundary=c["constrain"], return_transform=True)
            err = ""
        except ImageBoundaryError:
            err = "ImageBoundaryError"
        except ValueError:
            err = "ValueError"
        if same(s0, state(img)):
            bad.append((tag + ": crop modified the image", {}, None))
        if res["err"] == "empty":
            continue
        if err != res["err"]:
            bad.append((tag + ": crop outcome %r, expected %r" % (err or "ok", res["err"] or "ok"), {"min": mn, "max": mx, "constrain": c["constrain"]}, None))
            continue
        if err:
            continue
        want = img.pixels[(slice(None),) + sl]
        if r.pixels.dtype != img.pixels.dtype or r.pixels.shape != want.shape or not np.array_equal(r.pixels, want):
            bad.append((tag + ": cropped pixels are not exactly the block [floor(min), ceil(max)) of the source",
                        {"min": mn, "max": mx, "got_shape": r.pixels.shape, "want_shape": want.shape}, None))
            continue
        if type(r) is not type(img):
            bad.append((tag + ": crop changed the class to " + type(r).__name__, {}, None))
        for g in ("a", "b"):
            if not L.close(r.landmarks[g].points, img.landmarks[g].points - np.array(lo, dtype=float), 1e-12):
                bad.append((tag + ": landmarks not shifted by the (clipped) minimum", {"group": g, "lo": lo}, None))
        if cls == "MaskedImage" and not np.array_equal(r.mask.mask, img.mask.mask[sl]):
            bad.append((tag + ": mask not cropped with the pixels", {}, None))
        if not L.close(t.apply(np.zeros((1, len(sh)))), np.array([lo], dtype=float), 1e-12):
            bad.append((tag + ": returned transform does not map result indices to source indices", {}, None))
        # the convenience wrappers are the same crop
        if cls == "Image" and dt == "float64":
            from menpo.shape import PointCloud

            pc = PointCloud(np.vstack([mn, mx]))
            try:
                r2 = img.crop_to_pointcloud(pc, constrain_to_boundary=c["constrain"])
                if r2.pixels.shape != r.pixels.shape or not np.array_equal(r2.pixels, r.pixels):
                    bad.append((tag + ": crop_to_pointcloud differs from crop with the same bounds", {}, None))
            except (ImageBoundaryError, ValueError):
                bad.append((tag + ": crop_to_pointcloud refuses bounds that crop accepts", {}, None))
    # crop_to_true_mask is the same crop: a mask that is true exactly one pixel inside the requested (whole-number) box, padded by 1
    from menpo.image import MaskedImage

    if res["err"] != "empty" and np.array_equal(mn, np.round(mn)) and np.array_equal(mx, np.round(mx)):
        lo1, hi1 = mn.astype(int) + 1, mx.astype(int) - 1
        if (hi1 >= lo1).all() and (lo1 >= 0).all() and (hi1 <= np.array(sh) - 1).all():
            base = make_image("MaskedImage", sh, 2, "float64", "full")
            m = np.zeros(sh, dtype=bool)
            m[tuple(slice(a, b + 1) for a, b in zip(lo1, hi1))] = True
            mi = MaskedImage(base.pixels.copy(), mask=m)
            tag = "MaskedImage.crop_to_true_mask(boundary=1)"
            try:
                r = mi.crop_to_true_mask(boundary=1, constrain_to_boundary=c["constrain"])
                err = ""
            except ImageBoundaryError:
                err = "ImageBoundaryError"
            except ValueError:
                err = "ValueError"
            if err != res["err"]:
                bad.append((tag + ": outcome %r, the same box through crop gives %r" % (err or "ok", res["err"] or "ok"), {"min": mn, "max": mx, "constrain": c["constrain"]}, None))
            elif not err:
                want = mi.pixels[(slice(None),) + sl]
                if r.pixels.shape != want.shape or not np.array_equal(r.pixels, want) or not np.array_equal(r.mask.mask, m[sl]):
                    bad.append((tag + ": is not the block the same box gives through crop", {"min": mn, "max": mx}, None))
    return bad


# ------------------------------------------------------------------ patches
def _expected(pix, tables, ph, pw, cval):
    n_c, n_o = len(tables), len(tables[0])
    C = pix.shape[0]
    out = np.full((n_c, n_o, C, ph, pw), cval, dtype=pix.dtype)
    judged = np.ones((n_c, n_o, ph, pw), dtype=bool)
    for i in range(n_c):
        for j in range(n_o):
            rows, cols = tables[i][j]
            for r, ri in enumerate(rows):
                for s, ci in enumerate(cols):
                    if ri == -2 or ci == -2:
                        judged[i, j, r, s] = False
                    elif ri >= 0 and ci >= 0:
                        out[i, j, :, r, s] = pix[:, ri, ci]
    return out, judged


def _raw_indices(idx):
    """rows / columns of a patch are consecutive: extend the in-image indices of the table linearly over the out-of-image entries"""
    known = [(k, v) for k, v in enumerate(idx) if v >= 0]
    if not known:
        return None
    k0, v0 = known[0]
    return [v0 + (k - k0) for k in range(len(idx))]


def _expected_mode(pix, tables, ph, pw, mode):
    """boundary modes at WHOLE-pixel sample positions: 'nearest' clamps the index, 'reflect' mirrors it about the image edge
    (d c b a | a b c d | d c b a)"""
    n_c, n_o = len(tables), len(tables[0])
    C, H, W = pix.shape

    def fold(i, n):
        if mode == "nearest":
            return min(max(i, 0), n - 1)
        i = i % (2 * n)
        return i if i < n else 2 * n - 1 - i

    out = np.zeros((n_c, n_o, C, ph, pw), dtype=pix.dtype)
    judged = np.zeros((n_c, n_o), dtype=bool)
    for i in range(n_c):
        for j in range(n_o):
            rows, cols = _raw_indices(tables[i][j][0]), _raw_indices(tables[i][j][1])
            if rows is None or cols is None or -2 in tables[i][j][0] or -2 in tables[i][j][1]:
                continue
            judged[i, j] = True
            rr = [fold(r, H) for r in rows]
            cc = [fold(c, W) for c in cols]
            out[i, j] = pix[:, rr][:, :, cc]
    return out, judged


def check_patch(o):
    from menpo.image import Image, MaskedImage
    from menpo.image.patches import extract_patches_by_sampling
    from menpo.shape import PointCloud

    bad = []
    c = o["case"]
    sh = tuple(c["shape"])
    C = c["channels"]
    ph, pw = c["pshape"]
    cval = float(c["cval"])
    cen = L.pts(o["centres"])
    offs = np.array(c["offsets"], dtype=float)
    for cls, dt in (("Image", "float64"), ("MaskedImage", "float32"), ("Image", "uint8")):
        img = make_image(cls, sh, C, dt, "full", lms=False)
        keep = img.pixels.copy()
        tag = "%s(%s)" % (cls, dt)
        want_s, judged_s = _expected(img.pixels, o["slice"], ph, pw, cval)
        got = img.extract_patches(PointCloud(cen), patch_shape=(ph, pw), sample_offsets=offs, cval=cval)
        if got.shape != (len(cen), len(offs), C, ph, pw):
            bad.append((tag + ": patch array has shape %r, expected %r" % (got.shape, (len(cen), len(offs), C, ph, pw)), {}, None))
            continue
        if not np.array_equal(got, want_s):
            k = np.argwhere(got != want_s)[0].tolist()
            bad.append((tag + ": slicing path returns other pixels than the patch layout rule", {"first_difference_at": k}, None))
        # the same patches delivered as a list of images (as_single_array=False): centre-major, list[c * n_offsets + o] is patch (c, o);
        # and through the image's own landmark group
        try:
            lst = img.extract_patches(PointCloud(cen), patch_shape=(ph, pw), sample_offsets=offs, cval=cval, as_single_array=False)
            if len(lst) != len(cen) * len(offs) or any(not np.array_equal(np.asarray(lst[i * len(offs) + j].pixels), got[i, j])
                                                       for i in range(len(cen)) for j in range(len(offs))):
                bad.append((tag + ": extract_patches(as_single_array=False) is not the centre-major list of the patches of the single array", {}, None))
            wl = img.copy()
            wl.landmarks["pc"] = PointCloud(cen.copy())
            gl = wl.extract_patches_around_landmarks(group="pc", patch_shape=(ph, pw), sample_offsets=offs)
            ll = wl.extract_patches_around_landmarks(group="pc", patch_shape=(ph, pw), sample_offsets=offs, as_single_array=False)
            got0 = img.extract_patches(PointCloud(cen), patch_shape=(ph, pw), sample_offsets=offs)          # (the default fill value)
            if gl.shape != got0.shape or not np.array_equal(gl, got0) or len(ll) != len(cen) * len(offs) or any(
                    not np.array_equal(np.asarray(ll[i * len(offs) + j].pixels), got0[i, j]) for i in range(len(cen)) for j in range(len(offs))):
                bad.append((tag + ": extract_patches_around_landmarks differs from extract_patches at the same centres", {}, None))
        except Exception as e:
            from ..core import from_library

            if not from_library(e):
                raise
            bad.append((tag + ": patch extraction with as_single_array=False / around landmarks raised %s" % type(e).__name__, {"msg": str(e)[:120]}, None))
        want_p, judged_p = _expected(img.pixels, o["sample"], ph, pw, cval)
        gp = extract_patches_by_sampling(img.pixels, cen, (ph, pw), offsets=offs, order=0, mode="constant", cval=cval)
        m = np.broadcast_to(judged_p[:, :, None], gp.shape)
        if gp.shape != want_p.shape or not np.array_equal(gp[m], want_p[m]):
            bad.append((tag + ": resampling path (order 0, constant) returns other pixels than the sampling rule", {}, None))
        if c["centres"] == "int":
            # integer centres: both paths, and the public order-1 route, must agree with each other
            if not np.array_equal(gp, got):
                bad.append((tag + ": slicing and resampling paths disagree at integer centres", {}, None))
            # the other boundary modes of the resampling path: at whole-pixel positions they are index arithmetic
            if dt == "float64":
                for mode in ("nearest", "reflect"):
                    wm, jm = _expected_mode(img.pixels, o["sample"], ph, pw, mode)
                    for order in (0, 1):
                        gm = img.extract_patches(PointCloud(cen), patch_shape=(ph, pw), sample_offsets=offs, order=order, mode=mode)
                        if gm.shape != wm.shape or not np.allclose(gm[jm], wm[jm], rtol=0, atol=1e-9):
                            bad.append((tag + ": extract_patches(order=%d, mode=%r) does not fill out-of-image samples by the %s rule" % (order, mode, mode), {}, None))
                            break
            if dt != "uint8":
                g1 = img.extract_patches(PointCloud(cen), patch_shape=(ph, pw), sample_offsets=offs, order=1, mode="constant", cval=cval)
                if g1.shape != got.shape or not np.allclose(g1, got, atol=1e-9):
                    bad.append((tag + ": extract_patches(order=1) at integer centres differs from the slicing path", {}, None))
            # write-back: interior patches restore the image
            interior = [i for i in range(len(cen)) if all(x >= 0 for x in o["slice"][i][0][0]) and all(x >= 0 for x in o["slice"][i][0][1])]
            if interior:
                blank = Image(np.full_like(img.pixels, 252)) if cls == "Image" else None
                if blank is not None:
                    sub = PointCloud(cen[interior])
                    filled = blank.set_patches(got[interior], sub)
                    for i in interior:
                        rows, cols = o["slice"][i][0]
                        blk = (slice(None), slice(rows[0], rows[-1] + 1), slice(cols[0], cols[-1] + 1))
                        if not np.array_equal(filled.pixels[blk], img.pixels[blk]):
                            bad.append((tag + ": set_patches does not write an extracted interior patch back where it came from", {"centre": cen[i]}, None))
                            break
                    if not np.all(blank.pixels == 252):
                        bad.append((tag + ": set_patches modified the receiver", {}, None))
            # write-back offset by offset with the SAME centres object (and through the image's own landmark group): every
            # interior patch lands where the layout rule says, the caller's centres and the landmark group stay where they were
            allin = [i for i in range(len(cen)) if all(x >= 0 for j in range(len(offs)) for k in (0, 1) for x in o["slice"][i][j][k])]
            if allin and dt != "uint8":
                sub = PointCloud(cen[allin].copy())
                pk = sub.points.copy()
                cur = make_image(cls, sh, C, dt, "full", lms=False)
                cur.pixels[...] = 252
                via_lm = cur.copy()
                via_lm.landmarks["pc"] = PointCloud(cen[allin].copy())
                for j in range(len(offs)):
                    oj = tuple(int(x) for x in offs[j])
                    cur = cur.set_patches(got[allin], sub, offset=oj, offset_index=j)
                    via_lm = via_lm.set_patches_around_landmarks(got[allin], group="pc", offset=oj, offset_index=j)
                    if not np.array_equal(sub.points, pk) or not np.array_equal(via_lm.landmarks["pc"].points, pk):
                        bad.append((tag + ": set_patches moved the patch centres it was given (offset %r)" % offs[j].tolist(), {}, None))
                        break
                    stop = False
                    for n_, i in enumerate(allin):
                        rows, cols = o["slice"][i][j]
                        blk = (slice(None), slice(rows[0], rows[-1] + 1), slice(cols[0], cols[-1] + 1))
                        for which, im in (("set_patches", cur), ("set_patches_around_landmarks", via_lm)):
                            if not np.array_equal(im.pixels[blk], img.pixels[blk]):
                                bad.append((tag + ": %s with offset %r does not write the extracted patch back where it came from" % (which, offs[j].tolist()),
                                            {"centre": cen[i]}, None))
                                stop = True
                                break
                        if stop:
                            break
                    if stop:
                        break
        if not np.array_equal(img.pixels, keep):
            bad.append((tag + ": patch extraction modified the image", {}, None))
    return bad


# ------------------------------------------------------------------ image vectors (C05)
def check_imgvec(o):
    bad = []
    c = o["case"]
    sh = tuple(c["shape"])
    img = make_image(c["cls"], sh, c["channels"], c["dtype"], c["mask"], lms=c["nlm"] > 0)
    s0 = state(img)
    tag = "%s%s %s %s" % (c["cls"], sh, c["dtype"], c["mask"])
    v = img.as_vector()
    if c["cls"] == "MaskedImage":
        want = img.pixels[:, img.mask.mask].ravel()
    elif c["cls"] == "BooleanImage":
        want = img.pixels.ravel()
    else:
        want = img.pixels.ravel()
    if v.ndim != 1 or v.shape != want.shape or not np.array_equal(v, want):
        bad.append((tag + ": as_vector is not the (masked) pixels in channel-major raster order", {}, None))
        return bad
    if img.n_parameters != want.shape[0]:
        bad.append((tag + ": n_parameters %r != %d" % (img.n_parameters, want.shape[0]), {}, None))
    if v.flags.writeable:
        bad.append((tag + ": as_vector result is writeable", {}, None))
    if not img.pixels.flags.writeable:
        bad.append((tag + ": as_vector made the image's own pixels read-only", {}, None))
    d = same(s0, state(img))
    if d:
        bad.append((tag + ": as_vector changed the image: " + d, {}, None))
    r = img.from_vector(np.array(v))
    d = same(s0, state(r))
    if d and not (c["cls"] == "MaskedImage" and c["mask"] == "sparse" and "pixels" in d):
        bad.append((tag + ": from_vector(as_vector()) does not reproduce the complete state: " + d, {}, None))
    if c["cls"] == "MaskedImage":
        if not np.array_equal(r.pixels[:, r.mask.mask], img.pixels[:, img.mask.mask]) or not np.array_equal(r.mask.mask, img.mask.mask):
            bad.append((tag + ": masked pixels / mask not reproduced", {}, None))
        if np.any(r.pixels[:, ~r.mask.mask] != 0):
            bad.append((tag + ": from_vector leaves non-zero values outside the mask", {}, None))
    if c["cls"] == "BooleanImage":
        w = ~np.asarray(v, dtype=bool)
    else:
        w = (np.arange(want.shape[0]) * 3 % 17).astype(v.dtype)
    keep = w.copy()
    r2 = img.from_vector(w)
    if type(r2) is not type(img):
        bad.append((tag + ": from_vector changed the class", {}, None))
    if not np.array_equal(r2.as_vector(), keep):
        bad.append((tag + ": from_vector(v).as_vector() != v", {}, None))
    if c["cls"] != "BooleanImage":
        # a vector of ANOTHER dtype than the image's pixels (fractional and negative values) must come back unchanged too
        wf = np.linspace(-2.5, 300.75, want.shape[0])
        r4 = img.from_vector(wf.copy())
        back = r4.as_vector()
        if back.shape != wf.shape or not np.array_equal(back, wf):
            bad.append((tag + ": from_vector(v).as_vector() != v for a float64 vector with fractional / negative values "
                              "(image pixels are %s)" % c["dtype"], {"first": back[:4], "want": wf[:4]}, None))
    if c["nlm"] > 0 and (not r2.has_landmarks or list(r2.landmarks.group_labels) != list(img.landmarks.group_labels)
                         or any(not np.array_equal(r2.landmarks[g].points, img.landmarks[g].points) for g in img.landmarks.group_labels)):
        bad.append((tag + ": from_vector drops or changes the landmarks", {}, None))
    if same(s0, state(img)):
        bad.append((tag + ": from_vector changed the image it was called on: " + same(s0, state(img)), {}, None))
    if c["cls"] != "BooleanImage":
        w[...] = 99
        if not np.array_equal(r2.as_vector(), keep):
            bad.append((tag + ": the image returned by from_vector follows later writes into the caller's vector", {}, None))
        # the in-place form with its default (copying) behaviour: the receiver takes the values and nothing else of the vector
        rin = img.copy()
        wv = keep.copy()
        rin.from_vector_inplace(wv)
        if not np.array_equal(rin.as_vector(), keep):
            bad.append((tag + ": from_vector_inplace(v) does not give an image whose vector is v", {}, None))
        if np.shares_memory(rin.pixels, wv):
            bad.append((tag + ": after from_vector_inplace(v) (copying by default) the image's pixels share memory with the caller's vector", {}, None))
        wv[...] = 98
        if not np.array_equal(rin.as_vector(), keep):
            bad.append((tag + ": after from_vector_inplace(v) the image follows later writes into the caller's vector", {}, None))
        # the optional channel count of Image.from_vector: with the image's own count nothing changes; landmarks come along
        if c["cls"] == "Image":
            for nc in (img.n_channels, 1):
                if want.shape[0] % (nc * int(np.prod(sh))) != 0 and nc != img.n_channels:
                    continue
                vv = keep[: nc * int(np.prod(sh))].copy()
                try:
                    rn = img.from_vector(vv, n_channels=nc)
                except Exception as e:
                    bad.append((tag + ": from_vector(v, n_channels=%d) raised %s" % (nc, type(e).__name__), {}, None))
                    continue
                if rn.n_channels != nc or not np.array_equal(rn.as_vector(), vv):
                    bad.append((tag + ": from_vector(v, n_channels=%d) does not give an image of that many channels holding v" % nc, {}, None))
                if c["nlm"] > 0 and (not rn.has_landmarks or any(not np.array_equal(rn.landmarks[g].points, img.landmarks[g].points) for g in img.landmarks.group_labels)):
                    bad.append((tag + ": from_vector(v, n_channels=%d) drops or changes the landmarks" % nc, {}, None))
    n = want.shape[0]
    for ln in (0, n - 1, n + 1, 2 * n):
        if ln == n or ln < 0:
            continue
        try:
            r3 = img.from_vector(np.zeros(ln, dtype=v.dtype))
            if type(r3) is not type(img) or r3.pixels.shape[1:] != img.pixels.shape[1:]:
                bad.append((tag + ": from_vector with a wrong-length vector returned a malformed image", {"length": ln, "expected": n, "shape": r3.pixels.shape}, None))
        except Exception:
            pass
    return bad


def check_geom3d(o):
    """C01 in 3-D: per-axis maps of rescale / mirror / zoom on coordinate-ramp images (Image, MaskedImage, BooleanImage)"""
    from menpo.image import BooleanImage, Image, MaskedImage
    from menpo.shape import PointCloud

    bad = []
    c = o["case"]
    g = c["g"]
    if not o["ok"]:
        return bad
    sh = tuple(c["shape"])
    d = len(sh)
    a = np.array([L.fl(x) for x in o["a"]])
    b = np.array([L.fl(x) for x in o["b"]])
    want_shape = tuple(o["shape"])
    ramp = np.indices(sh).astype(float)
    mask = (np.indices(sh).sum(axis=0) % 3) != 0
    lms = np.array([[1.0, 1.0, 1.0], [1.5, 2.25, 0.5], [sh[0] - 2.0, 0.5, sh[2] - 1.5]])
    for cls in ("Image", "MaskedImage", "BooleanImage"):
        if cls == "Image":
            img = Image(ramp.copy())
        elif cls == "MaskedImage":
            img = MaskedImage(ramp.copy(), mask=mask.copy())
        else:
            img = BooleanImage(mask.copy())
        img.landmarks["lm"] = PointCloud(lms.copy())
        keep = img.pixels.copy()
        tag = "%s %s%r on a %r image" % (cls, g["op"], g["s"] or g["axis"], sh)
        if g["op"] == "rescale":
            res, T = img.rescale([L.fl(x) for x in g["s"]], round=g["mode"], return_transform=True)
        elif g["op"] == "mirror":
            res, T = img.mirror(axis=g["axis"], return_transform=True)
        else:
            res, T = img.zoom(L.fl(g["s"][0]), return_transform=True)
        if not np.array_equal(img.pixels, keep) or not np.array_equal(img.landmarks["lm"].points, lms):
            bad.append((tag + ": the operation modified its input", {}, None))
        if type(res) is not type(img) or tuple(res.shape) != want_shape:
            bad.append((tag + ": result %s of shape %r, expected shape %r" % (type(res).__name__, tuple(res.shape), want_shape), {}, None))
            continue
        probe = np.array([[0.0] * d, [1.0, 2.0, 1.0], [0.5, 1.25, 2.0]])
        if not L.close(T.apply(probe), probe * a + b, 1e-9):
            bad.append((tag + ": the returned transform is not the per-axis map the pixels were sampled with", {"got": T.apply(probe), "want": probe * a + b}, None))
        want_lm = (lms - b) / a
        if not L.close(res.landmarks["lm"].points, want_lm, 1e-9):
            bad.append((tag + ": landmarks not moved with the pixels", {"got": res.landmarks["lm"].points, "want": want_lm}, None))
        idx = np.argwhere(np.ones(want_shape, dtype=bool)).astype(float)
        src = idx * a + b
        inside = ((src > 1e-6) & (src < np.array(sh) - 1 - 1e-6)).all(axis=1) | ((np.abs(src - np.round(src)) < 1e-12).all(axis=1) & ((src >= 0) & (src <= np.array(sh) - 1)).all(axis=1))
        ii = idx[inside].astype(int)
        if cls != "BooleanImage" and len(ii):
            got = res.pixels[:, ii[:, 0], ii[:, 1], ii[:, 2]]
            if not L.close(got, src[inside].T, 1e-9):
                bad.append((tag + ": pixel content is not registered with the returned transform", {}, None))
        if cls != "Image" and len(ii):
            gm = res.mask.mask if cls == "MaskedImage" else res.mask
            near = np.round(src[inside]).astype(int)
            safe = (np.abs(np.abs(src[inside] - np.floor(src[inside])) - 0.5) > 1e-6).all(axis=1)
            jj, nn = ii[safe], near[safe]
            if not np.array_equal(gm[jj[:, 0], jj[:, 1], jj[:, 2]], mask[nn[:, 0], nn[:, 1], nn[:, 2]]):
                bad.append((tag + ": the mask is not carried by the same map as the pixels", {}, None))
    return bad


CHECKS = {"crop": check_crop, "patch": check_patch, "imgvec": check_imgvec, "geom3d": check_geom3d}


def run_case(o):
    return CHECKS[o["case"]["kind"]](o)
