"""Adapter for VideoReader.tla: read sequences replayed on the real FFMpegVideoReader / ffmpeg_importer lazy list, fed by a
fake decoder process that numbers its frames and honours the seek option (-ss)."""
import io
from unittest import mock

import numpy as np

H, W, FPS = 2, 3, 5.0


class _CountingBytes(io.BytesIO):
    """counts what the reader pulls out of the decoder: importing a video must not decode anything"""

    total = 0

    def read(self, *a):
        b = super().read(*a)
        _CountingBytes.total += len(b)
        return b


class _FakePipe:
    """stands in for subprocess.Popen([ffmpeg ...]): delivers raw rgb24 frames k, k+1, ... where k comes from -ss"""

    opened = []

    def __init__(self, command, **kw):
        start = 0
        if "-ss" in command:
            start = int(round(float(command[command.index("-ss") + 1]) * FPS))
        _FakePipe.opened.append(start)
        n = _FakePipe.n_frames
        data = b"".join(bytes([k % 251]) * (H * W * 3) for k in range(start, n))
        self.stdout = _CountingBytes(data)
        self.stderr = None
        self.stdin = None

    def poll(self):
        return None


class _FakeTools:
    """stands in for BOTH external programs: `ffprobe` (prints the stream entries of a clip with a non-integral frame rate) and
    `ffmpeg` (delivers raw frames from the first frame whose presentation time is at or after the -ss position)"""

    n_frames, num, den = 1600, 30000, 1001

    def __init__(self, command, **kw):
        self.stdin = None
        self.stderr = io.BytesIO(b"")
        if "-show_entries" in command:
            txt = "width=%d\nheight=%d\navg_frame_rate=%d/%d\nduration=%.6f\nnb_read_frames=%d\n" % (
                W, H, self.num, self.den, self.n_frames * self.den / float(self.num), self.n_frames)
            self.stdout = io.BytesIO(txt.encode())
            return
        start = 0
        if "-ss" in command:
            import math

            t = float(command[command.index("-ss") + 1])
            start = max(0, int(math.ceil(t * self.num / float(self.den) - 1e-6)))
        self.stdout = io.BytesIO(b"".join(bytes([k % 251]) * (H * W * 3) for k in range(start, self.n_frames)))

    def poll(self):
        return None

    def wait(self):
        return 0


def check_video_probe():
    """the whole import path (the stream entries are PARSED, not mocked) for a clip of 30000/1001 frames per second: far into the
    clip, reads that make the reader seek still land on the frame that was asked for"""
    import menpo.io.input.video as mv

    try:
        with mock.patch.object(mv.sp, "Popen", _FakeTools):
            infos = mv.video_infos_ffprobe("clip.mp4")
            want_fps = _FakeTools.num / float(_FakeTools.den)
            if abs(float(infos["fps"]) - want_fps) > 1e-9 or int(infos["n_frames"]) != _FakeTools.n_frames:
                return {"what": "the stream entries of a %d/%d fps clip are read as fps=%r, n_frames=%r" % (_FakeTools.num, _FakeTools.den, infos.get("fps"), infos.get("n_frames"))}
            reader = mv.FFMpegVideoReader("clip.mp4", normalize=False)
            for k in (1300, 1100, 1599, 1001, 3, 1450):
                got = int(reader[k][0, 0, 0])
                if got != k % 251:
                    return {"what": "frame %d of a %d/%d fps clip read after a seek is frame %d (mod 251: %d)" % (k, _FakeTools.num, _FakeTools.den, k, got)}
    except Exception as e:
        from ..core import from_library

        if not from_library(e):
            raise
        return {"what": "%s raised by menpo while a clip with a fractional frame rate was read: %s" % (type(e).__name__, str(e)[:120])}
    return None


def replay(args):
    n_frames, hist = args
    import menpo.io.input.video as mv
    from menpo.io.input.video import ffmpeg_importer

    infos = {"duration": n_frames / FPS, "width": W, "height": H, "n_frames": n_frames, "fps": FPS}
    _FakePipe.n_frames = n_frames
    _FakePipe.opened = []
    seq = [e["i"] for e in hist]
    with mock.patch.object(mv.sp, "Popen", _FakePipe), mock.patch.object(mv, "video_infos_ffprobe", lambda p: dict(infos)):
        for route in ("index", "fancy", "reader"):
            _FakePipe.opened = []
            if route == "reader":
                reader = mv.FFMpegVideoReader("fake.avi", normalize=False)
                read = lambda k, i: reader[i]
                frame_of = lambda fr: int(fr[0, 0, 0])
            else:
                ll = ffmpeg_importer("fake.avi", normalize=False)
                if len(ll) != n_frames:
                    return {"what": "video lazy list has length %d, the video has %d frames" % (len(ll), n_frames)}
                sub = ll[list(seq)] if route == "fancy" else None
                read = (lambda k, i: sub[k]) if route == "fancy" else (lambda k, i: ll[i])
                frame_of = lambda im: int(im.pixels[0, 0, 0])
            for k, ev in enumerate(hist):
                n_open = len(_FakePipe.opened)
                try:
                    got = frame_of(read(k, ev["i"]))
                except Exception as e:       # e.g. the reader ran past the end of the decoder's output
                    return {"route": route, "step": k, "reads": seq[:k + 1],
                            "what": "reading frame %d after %r raised %s" % (ev["i"], seq[:k], type(e).__name__)}
                if got != ev["got"] % 251:
                    return {"route": route, "step": k, "reads": seq[:k + 1],
                            "what": "reading frame %d after %r returned frame %d" % (ev["i"], seq[:k], got)}
                reopened = len(_FakePipe.opened) > n_open
                if reopened != ev["reopen"]:
                    return {"route": route, "step": k, "reads": seq[:k + 1],
                            "what": "the decoder was %s, the specification says %s" % ("re-opened" if reopened else "not re-opened", "re-open" if ev["reopen"] else "keep reading")}
    return None


def check_video_landmarks():
    """import_video: frame k of the lazy list is frame k of the decoder AND carries the landmark files named <stem>_<k>.* (and
    only those), whatever order the frames are read in.  Returns a disagreement or None."""
    import shutil
    import tempfile
    from pathlib import Path

    import menpo.io as mio
    import menpo.io.input.video as mv
    from menpo.shape import PointCloud

    n_frames = 4
    root = tempfile.mkdtemp(prefix="menpo-video-")
    try:
        vid = Path(root) / "clip.avi"
        vid.write_bytes(b"not a real video")
        for k in (0, 2, 3):
            mio.export_landmark_file(PointCloud(np.array([[float(k), 1.0], [2.0, 3.0], [0.5, float(k)]])), Path(root) / ("clip_%d.pts" % k), overwrite=True)
        mio.export_landmark_file(PointCloud(np.array([[9.0, 9.0], [8.0, 8.0], [7.0, 7.0]])), Path(root) / "clip.pts", overwrite=True)   # not a frame's file
        infos = {"duration": n_frames / FPS, "width": W, "height": H, "n_frames": n_frames, "fps": FPS}
        _FakePipe.n_frames = n_frames
        with mock.patch.object(mv.sp, "Popen", _FakePipe), mock.patch.object(mv, "video_infos_ffprobe", lambda p: dict(infos)):
            _CountingBytes.total = 0
            ll = mio.import_video(vid, normalize=False)
            if _CountingBytes.total:
                return {"what": "import_video decoded %d frame(s) before any element of the lazy list was read" % (_CountingBytes.total // (H * W * 3))}
            derived = [ll[::-1], ll.map(lambda im: im), ll + ll, ll.repeat(2), ll.copy()]
            if _CountingBytes.total or any(len(x) not in (n_frames, 2 * n_frames) for x in derived):
                return {"what": "slicing / mapping / concatenating / repeating / copying the imported video decoded frames"}
            if len(ll) != n_frames:
                return {"what": "import_video gives a lazy list of length %d for a %d-frame video" % (len(ll), n_frames)}
            for k in (2, 0, 3, 1, 2):
                fr = ll[k]
                got = int(fr.pixels[0, 0, 0])
                if got != k:
                    return {"what": "element %d of the imported video is frame %d" % (k, got)}
                groups = list(fr.landmarks.keys()) if fr.has_landmarks else []
                want = ["PTS"] if k in (0, 2, 3) else []
                if groups != want:
                    return {"what": "frame %d carries landmark groups %r, expected %r" % (k, groups, want)}
                if want and (fr.landmarks["PTS"].points[0, 0] != float(k) or fr.landmarks["PTS"].points[2, 1] != float(k)):
                    return {"what": "frame %d carries the landmarks of frame %g" % (k, fr.landmarks["PTS"].points[0, 0])}
    finally:
        shutil.rmtree(root, ignore_errors=True)
    return None
