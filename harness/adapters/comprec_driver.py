"""Random compose / in-place compose / pseudoinverse programs on real menpo transforms with random FLOAT
parameters, recorded by harness.pytest_comprec in the vocabulary of Transforms.tla (code -> spec).
Usage: comprec_driver.py <out.json> <seed> <n_traces> <n_ops>"""
import json
import os
import random
import sys

import numpy as np


def _pool(rng, d):
    import menpo.transform as mt
    from menpo.shape import PointCloud, TriMesh

    R = np.random.RandomState(rng.randrange(1 << 30))

    def rot():
        q, _ = np.linalg.qr(R.randn(d, d))
        if np.linalg.det(q) < 0:
            q[:, 0] = -q[:, 0]
        return q

    def homog(kind):
        h = np.eye(d + 1)
        if kind == "Affine":
            h[:d, :d] = R.randn(d, d) + 2 * np.eye(d)
            h[:d, d] = R.randn(d)
        elif kind == "Similarity":
            h[:d, :d] = (0.5 + R.rand()) * rot()
            h[:d, d] = R.randn(d)
        else:
            h[:d, :d] = R.randn(d, d) + 2 * np.eye(d)
            h[:d, d] = R.randn(d)
            h[d, :d] = 0.05 * R.randn(d)
        return h

    src = PointCloud(R.rand(5, d) * 3)

    def tgt(t):
        return t.apply(src)

    objs = [
        mt.Homogeneous(homog("H")), mt.Affine(homog("Affine")), mt.Similarity(homog("Similarity")),
        mt.Rotation(rot()), mt.Translation(R.randn(d)), mt.UniformScale(0.5 + R.rand(), d),
        mt.NonUniformScale(0.5 + R.rand(d)),
    ]
    objs += [
        mt.AlignmentAffine(src, tgt(mt.Affine(homog("Affine")))), mt.AlignmentSimilarity(src, tgt(mt.Similarity(homog("Similarity")))),
        mt.AlignmentRotation(src, tgt(mt.Rotation(rot()))), mt.AlignmentTranslation(src, tgt(mt.Translation(R.randn(d)))),
        mt.AlignmentUniformScale(src, tgt(mt.UniformScale(1.5, d))),
    ]
    if d == 2:
        sq = np.array([[0.0, 0], [4, 0], [4, 4], [0, 4]]) - 1.0
        tm = TriMesh(sq, trilist=np.array([[0, 1, 2], [0, 2, 3]]))
        objs.append(mt.PiecewiseAffine(tm, TriMesh(sq * 1.1 + 0.2, trilist=tm.trilist)))
        objs.append(mt.ThinPlateSplines(PointCloud(sq), PointCloud(sq + R.rand(4, 2) * 0.3)))
    objs.append(mt.TransformChain([objs[4].copy(), objs[1].copy()]))
    return objs


def _size(t, depth=0):
    """number of leaf applications of a (nested) chain: the specification's EffM expands chains without memoisation"""
    ms = getattr(t, "transforms", None)
    if ms is None or depth > 20:
        return 1
    return 1 + sum(_size(m, depth + 1) for m in ms)


def _reaches(x, target, depth=0):
    if x is target:
        return True
    return depth < 20 and any(_reaches(m, target, depth + 1) for m in getattr(x, "transforms", ()))


def main(out, seed, n_traces, n_ops):
    from harness import pytest_comprec as rec

    rec.install()
    rng = random.Random(seed)
    for k in range(n_traces):
        d = rng.choice((2, 2, 3))
        tr = rec._Trace("random-%d-seed%d-%dd" % (k, seed, d))
        rec._state["cur"] = tr
        live = _pool(rng, d)
        for _ in range(n_ops):
            op = rng.choice(("before", "after", "before", "after", "before_inplace", "after_inplace", "pinv"))
            a, b = rng.choice(live), rng.choice(live)
            try:
                if op == "pinv":
                    if not hasattr(a, "h_matrix"):
                        continue
                    r = a.pseudoinverse()
                elif op in ("before", "after"):
                    r = getattr(a, "compose_" + op)(b)
                else:
                    if not hasattr(a, "compose_before_inplace") or (a is b and not hasattr(a, "h_matrix")):
                        continue
                    if hasattr(a, "h_matrix") and np.abs(a.h_matrix).max() > 1e6:
                        continue
                    if _size(a) + _size(b) > 14 or _reaches(b, a):      # (the specification does not explore self-containing chains)
                        continue
                    getattr(a, "compose_%s" % op)(b)
                    r = None
            except ValueError:
                r = None
            if r is not None and len(live) < 40 and _size(r) <= 14 and (not hasattr(r, "h_matrix") or np.abs(r.h_matrix).max() < 1e6):
                live.append(r)
        rec._state["cur"] = None
        rec._state["traces"].append({"test": tr.name, "events": tr.events, "recorder_gave_up": tr.broken})
    with open(out, "w") as f:
        json.dump(rec._state["traces"], f)


if __name__ == "__main__":
    import warnings

    warnings.filterwarnings("ignore")
    sys.path.insert(0, os.environ.get("MENPO_REPO", "/repo"))
    sys.path.insert(0, os.path.dirname(os.path.dirname(os.path.dirname(os.path.abspath(__file__)))))
    main(sys.argv[1], int(sys.argv[2]), int(sys.argv[3]), int(sys.argv[4]))
