"""Adapter between Transforms.tla and the real menpo transform classes (C03, C04)."""
import numpy as np

from .. import lattice as L

TOL_M = 1e-11  # matrix products of exactly representable / few-ulp inputs
TOL_APPLY = 1e-9


def _mt():
    import menpo.transform as mt
    from menpo.transform.base import Transform

    return mt, Transform


_OPAQUE = None


def opaque_class():
    """A Transform that is NOT a ComposableTransform (what TPS / PWA look like to the dispatch)."""
    global _OPAQUE
    if _OPAQUE is None:
        mt, Transform = _mt()

        class OpaqueT(Transform):
            def __init__(self, h):
                self.h = np.array(h, dtype=float)

            @property
            def n_dims(self):
                return self.h.shape[0] - 1

            def _apply(self, x, **kwargs):
                return L.apply_h(self.h, x)

        _OPAQUE = OpaqueT
    return _OPAQUE


def class_name(cls, al):
    if cls == "Chain":
        return "TransformChain"
    if cls == "Opaque":
        return "OpaqueT"
    return ("Alignment" if al else "") + cls


def build(o, int_dtype=False):
    """Real object for a pool record of the specification.  int_dtype: parameters that are whole numbers are handed over as
    INTEGER arrays (a transform built from an integer matrix is the same transform)."""
    mt, _ = _mt()
    from menpo.shape import PointCloud

    cls, al = o["cls"], o["al"]
    M = L.mat(o["M"])
    d = M.shape[0] - 1
    if int_dtype and not al and cls != "Opaque" and np.array_equal(M, np.round(M)):
        M = M.astype(np.int64)
    if cls == "Opaque":
        return opaque_class()(M)
    if al:
        src, tgt = PointCloud(L.pts(o["src"])), PointCloud(L.pts(o["tgt"]))
        return getattr(mt, "Alignment" + cls)(src, tgt)
    if cls == "Homogeneous":
        return mt.Homogeneous(M)
    if cls == "Affine":
        return mt.Affine(M)
    if cls == "Similarity":
        return mt.Similarity(M)
    if cls == "Rotation":
        return mt.Rotation(M[:d, :d])
    if cls == "Translation":
        return mt.Translation(M[:d, d])
    if cls == "UniformScale":
        return mt.UniformScale(M[0, 0], d)
    if cls == "NonUniformScale":
        return mt.NonUniformScale(np.diag(M)[:d])
    raise ValueError(cls)


def close_safe(got, want, tol):
    """Compare maps on the evaluation points that are safe for BOTH sides (Transforms.tla's `Safe`:
    a point sent to infinity by a projective map is outside the domain)."""
    got = np.asarray(got, dtype=float)
    want = np.asarray(want, dtype=float)
    if got.shape != want.shape:
        return False
    ok = np.isfinite(want).all(axis=1) & (np.abs(want) < 1e6).all(axis=1)
    return L.close(got[ok], want[ok], tol)


def honest(name, M, tol=1e-9):
    """Is a matrix really of the class it is reported as?  (float version of Mat.tla's predicates)"""
    M = np.asarray(M, dtype=float)
    d = M.shape[0] - 1
    name = name.replace("Alignment", "")
    lin, t = M[:d, :d], M[:d, d]
    aff = np.allclose(M[d, :d], 0, atol=tol) and abs(M[d, d] - 1) <= tol
    if name == "Homogeneous":
        return True
    if not aff:
        return False
    if name == "Affine":
        return True
    if name == "Translation":
        return np.allclose(lin, np.eye(d), atol=tol)
    if name == "NonUniformScale":
        return np.allclose(t, 0, atol=tol) and np.allclose(lin, np.diag(np.diag(lin)), atol=tol)
    if name == "UniformScale":
        return np.allclose(t, 0, atol=tol) and np.allclose(lin, lin[0, 0] * np.eye(d), atol=tol)
    P = lin @ lin.T
    if name == "Similarity":
        return np.allclose(P, P[0, 0] * np.eye(d), atol=tol * max(1, abs(P[0, 0]))) and P[0, 0] > 0 and np.linalg.det(lin) > 0
    if name == "Rotation":
        return np.allclose(t, 0, atol=tol) and np.allclose(P, np.eye(d), atol=tol) and abs(np.linalg.det(lin) - 1) <= tol
    return False


VEC_CLASSES = ("Affine", "Similarity", "Rotation", "Translation", "UniformScale", "NonUniformScale")


class World:
    """Real objects mirroring the model's `tr`, with the model's expected effective maps.
    Pool objects are built lazily (an object never touched is trivially unchanged)."""

    def __init__(self, pool, pts, int_dtype=False):
        self.int_dtype = int_dtype
        self.pool = pool
        self.objs = [None] * (len(pool) + 1)
        self.meta = [None] + [dict(cls=o["cls"], al=o["al"]) for o in pool]
        self.exp = [None] + [L.mat(o["M"]) for o in pool]
        self.src = [None] + [L.pts(o["src"]) if o["al"] else None for o in pool]
        self.tgt = [None] + [L.pts(o["tgt"]) if o["al"] else None for o in pool]
        self.pts = L.pts(pts)
        self.init_bad = None

    def get(self, i):
        """object i, built on first use (and then checked against the specification's pool entry)"""
        if self.objs[i] is None:
            self.objs[i] = build(self.pool[i - 1], self.int_dtype)
            bad = self._check_obj(i)
            if bad and self.init_bad is None:
                self.init_bad = dict(step="init", obj=i, **bad)
        return self.objs[i]

    def check_initial(self):
        for i in range(1, len(self.pool) + 1):
            self.get(i)
        return self.init_bad

    def _check_obj(self, i):
        o, m = self.objs[i], self.meta[i]
        E = self.exp[i]
        if m["cls"] in ("Chain", "Opaque"):
            with np.errstate(all="ignore"):
                got = o.apply(self.pts)
                want = L.apply_h(E, self.pts)
            if not close_safe(got, want, TOL_APPLY):
                return dict(what="map of object differs from the specification", got=got, want=want)
            return None
        if not L.close(o.h_matrix, E, TOL_M):
            return dict(what="h_matrix differs from the specification", got=o.h_matrix, want=E)
        if m["al"]:
            if not L.close(o.source.points, self.src[i], 1e-12):
                return dict(what="alignment source changed", got=o.source.points, want=self.src[i])
            if not L.close(o.target.points, self.tgt[i], 1e-9):
                return dict(what="alignment target changed", got=o.target.points, want=self.tgt[i])
        return None

    def check_all(self):
        for i in range(1, len(self.objs)):
            if self.objs[i] is None:
                continue
            bad = self._check_obj(i)
            if bad:
                bad["obj"] = i
                return bad
        return None

    def step(self, ev):
        mt, _ = _mt()
        op, a, b = ev["op"], ev["a"], ev["b"]
        A = self.get(a)
        B = self.get(b) if b else None
        if self.init_bad:
            return self.init_bad, []
        notes = []
        err = ""
        res = None
        try:
            if op == "before":
                res = A.compose_before(B)
            elif op == "after":
                res = A.compose_after(B)
            elif op == "before_inplace":
                A.compose_before_inplace(B)
            elif op == "after_inplace":
                # the vector spelling of the same call (compose_after_from_vector_inplace) for operands of one
                # family class, on every other eligible step: a.compose_after_inplace(a.from_vector(b.as_vector()))
                v = None
                if (self.meta[a]["cls"] == self.meta[b]["cls"] and self.meta[a]["cls"] in VEC_CLASSES
                        and (a + b + len(self.objs)) % 2 == 0):
                    try:
                        v = np.array(B.as_vector(), dtype=float)
                    except NotImplementedError:
                        v = None
                if v is None:
                    A.compose_after_inplace(B)
                else:
                    try:
                        A.compose_after_from_vector_inplace(v)
                        notes.append("vector form of compose_after_inplace")
                    except NotImplementedError:
                        A.compose_after_inplace(B)
            elif op == "pinv":
                res = A.pseudoinverse()
            else:
                raise RuntimeError("unknown op " + op)
        except ValueError:
            err = "ValueError"
        if err != ev["err"]:
            return dict(what="error outcome differs", got=err, want=ev["err"]), notes
        for i, M in ev["changed"]:
            while len(self.exp) <= i:
                self.exp.append(None)
            self.exp[i] = L.mat(M)
        if self.meta[a]["al"]:
            self.tgt[a] = L.pts(ev["atgt"])
        if ev["res"]:
            i = ev["res"]
            assert i == len(self.objs)
            want_name = class_name(ev["cls"], ev["al"])
            got_name = type(res).__name__
            self.objs.append(res)
            self.meta.append(dict(cls=ev["cls"], al=ev["al"]))
            self.src.append(L.pts(ev["src"]) if ev["al"] else None)
            self.tgt.append(L.pts(ev["tgt"]) if ev["al"] else None)
            native = ev["cls"] not in ("Chain", "Opaque")
            if got_name != want_name:
                if native and op in ("before", "after") and isinstance(res, mt.Homogeneous) and not isinstance(
                    res, (mt.base.Alignment, mt.TransformChain)
                ) and honest(got_name, self.exp[i]):
                    # the property demands an honest class, not the most specific one
                    notes.append("class %s instead of %s (honest)" % (got_name, want_name))
                    self.meta[i] = dict(cls=got_name, al=False)
                else:
                    return dict(what="result class differs", got=got_name, want=want_name), notes
            if native and op in ("before", "after"):
                if isinstance(res, (mt.base.Alignment, mt.TransformChain)):
                    return dict(what="native composition returned an alignment or a chain", got=got_name), notes
                for X, nm in ((A, "a"), (B, "b")):
                    if isinstance(X, mt.Homogeneous) and np.shares_memory(res.h_matrix, X.h_matrix):
                        return dict(what="result shares its matrix buffer with operand " + nm), notes
            if ev["cls"] == "Chain":
                mem = [self.get(k) for k in ev["members"]]
                if not isinstance(res.transforms, (list, tuple)):
                    return dict(what="the member list of the new chain is not a list (%s): it cannot be walked twice" % type(res.transforms).__name__), notes
                if len(res.transforms) != len(mem) or any(x is not y for x, y in zip(res.transforms, mem)):
                    return dict(what="chain members differ", got=[type(t).__name__ for t in res.transforms],
                                want=ev["members"]), notes
                if isinstance(A, mt.TransformChain) and res.transforms is A.transforms:
                    return dict(what="new chain shares the member list of the chain it was built from"), notes
            # composition law against sequential application in the real code
            if op in ("before", "after"):
                first, second = (A, B) if op == "before" else (B, A)
                with np.errstate(all="ignore"):
                    seq = second.apply(first.apply(self.pts))
                    got = res.apply(self.pts)
                if not close_safe(got, seq, TOL_APPLY):
                    return dict(what="composite disagrees with sequential application", got=got, want=seq), notes
            if op == "pinv":
                if not getattr(res, "has_true_inverse", False):
                    return dict(what="has_true_inverse is not True"), notes
                with np.errstate(all="ignore"):
                    mid1, mid2 = A.apply(self.pts), res.apply(self.pts)
                    ok1 = np.isfinite(mid1).all(axis=1) & (np.abs(mid1) < 1e6).all(axis=1)
                    ok2 = np.isfinite(mid2).all(axis=1) & (np.abs(mid2) < 1e6).all(axis=1)
                    back = res.apply(mid1[ok1])
                    forth = A.apply(mid2[ok2])
                if not (L.close(back, self.pts[ok1], TOL_APPLY) and L.close(forth, self.pts[ok2], TOL_APPLY)):
                    return dict(what="pseudoinverse does not invert from both sides", got=[back, forth], want=self.pts), notes
                if not honest(got_name, res.h_matrix, 1e-9):
                    return dict(what="inverse is not an honest member of its class", got=got_name, M=res.h_matrix), notes
        bad = self.check_all()
        if bad:
            return bad, notes
        return None, notes


def replay(pool, pts, hist, full_init=False, int_dtype=False):
    w = World(pool, pts, int_dtype)
    if full_init:
        bad = w.check_initial()
        if bad:
            return bad, []
    allnotes = []
    for k, ev in enumerate(hist):
        bad, notes = w.step(ev)
        allnotes += notes
        if bad:
            bad["step"] = k
            bad["event"] = {x: ev[x] for x in ("op", "a", "b", "res", "cls", "al", "err")}
            return bad, allnotes
    return None, allnotes
