"""Adapter for Image.tla: replay geometry-op sequences on coordinate-ramp images (C01).

Channel 0 / 1 of the test image hold the row / column index of the ORIGINAL image, channel 2 an
affine combination; order-1 interpolation reproduces affine functions exactly, so after any
sequence of operations every pixel the specification calls valid must hold A(x)."""
import math

import numpy as np

from .. import lattice as L

TOL = 1e-9
ROT = {"r90": (0.0, 1.0), "r180": (-1.0, 0.0), "r270": (0.0, -1.0), "p345": (3 / 5, 4 / 5), "p345n": (3 / 5, -4 / 5), "p51213": (5 / 13, 12 / 13)}


ABOUTS = {"shear": [[1, 0.5], [0, 1]], "shear2": [[1, 0], [-0.25, 1]], "nus": [[1.5, 0], [0, 0.75]], "squash": [[0.5, 0.25], [0, 1]]}


CH = (lambda r, c: r, lambda r, c: c, lambda r, c: 2 * r - c + 3.0, lambda r, c: r + c + 1.0)
# (n_channels, dtype, content tolerance): the default ramp and the channel-count / dtype variants of the property's quantifier
VARIANTS = {"": (3, np.float64, 1e-9), "f32x4": (4, np.float32, 2e-4), "f64x1": (1, np.float64, 1e-9), "u8x2": (2, np.uint8, 1.0 + 1e-9)}


def _ramp(sh, nch=3):
    r, c = np.indices(sh).astype(float)
    return np.stack([CH[k](r, c) for k in range(nch)])


def _content(p, nch):
    """expected channel values at ORIGINAL coordinates p (n, 2) -> (nch, n)"""
    return np.stack([CH[k](p[:, 0], p[:, 1]) * np.ones(len(p)) for k in range(nch)])


def make(cls, beh, variant=""):
    from menpo.image import BooleanImage, Image, MaskedImage
    from menpo.shape import PointCloud

    sh = tuple(beh["shape0"])
    mask = np.array(beh["mask0"], dtype=bool)
    nch, dt, _ = VARIANTS[variant]
    if cls == "Image":
        img = Image(_ramp(sh, nch).astype(dt))
    elif cls == "MaskedImage":
        img = MaskedImage(_ramp(sh, nch).astype(dt), mask=mask)
    else:
        img = BooleanImage(mask.copy())
    # (a group without points, attached FIRST: legal, and it must not get in the way of the groups listed after it)
    img.landmarks["empty"] = PointCloud(np.zeros((0, 2)))
    img.landmarks["lm"] = PointCloud(L.pts(beh["lms0"]))
    # the same whole-pixel annotations stored twice, as int64 and as float64 points: the number type of a landmark group must not
    # decide where it goes
    W = np.array([[1, 1], [2, 3], [sh[0] - 2, 2], [0, sh[1] - 1]])
    img.landmarks["ilm"] = PointCloud(W.astype(np.int64))
    img.landmarks["flm"] = PointCloud(W.astype(np.float64))
    return img


def _call(img, op, args, exp, order=None, **extra):
    import menpo.transform as mt

    kw = dict(extra)
    if order is not None:
        kw["order"] = order

    if op == "rescale":
        s, m = args
        return img.rescale([L.fl(s[0]), L.fl(s[1])], round=m, return_transform=True)
    if op == "resize":
        return img.resize(tuple(args[0]), return_transform=True)
    if op == "rotate":
        r, retain, m = args
        c, s = ROT[r]
        return img.rotate_ccw_about_centre(math.degrees(math.atan2(s, c)), retain_shape=retain, round=m, return_transform=True, **kw)
    if op == "mirror":
        return img.mirror(axis=args[0], return_transform=True)
    if op == "zoom":
        return img.zoom(L.fl(args[0]), return_transform=True)
    if op == "crop":
        mn, mx, c = args
        return img.crop(np.array([L.fl(x) for x in mn]), np.array([L.fl(x) for x in mx]), constrain_to_boundary=c, return_transform=True)
    from menpo.image import BooleanImage, MaskedImage
    from menpo.shape import PointCloud

    if op == "crop_lms":
        b, c = args
        if b % 2:
            return img.crop_to_pointcloud(img.landmarks["lm"], boundary=b, constrain_to_boundary=c, return_transform=True)
        return img.crop_to_landmarks(group="lm", boundary=b, constrain_to_boundary=c, return_transform=True)
    if op == "crop_lms_prop":
        p, use_min, c = args
        return img.crop_to_landmarks_proportion(L.fl(p), group="lm", minimum=use_min, constrain_to_boundary=c, return_transform=True)
    if op == "crop_true_mask":
        b, c, mn, mx = args
        if isinstance(img, MaskedImage):
            return img.crop_to_true_mask(boundary=b, constrain_to_boundary=c, return_transform=True)
        if isinstance(img, BooleanImage):
            lo, hi = img.bounds_true(boundary=b, constrain_to_bounds=False)
            return img.crop(lo, hi, constrain_to_boundary=c, return_transform=True)
        return img.crop(np.array([L.fl(x) for x in mn]), np.array([L.fl(x) for x in mx]), constrain_to_boundary=c, return_transform=True)
    if op == "rescale_diag":
        return img.rescale_to_diagonal(float(args[0]), round=args[1], return_transform=True)
    if op == "rescale_pc":
        k, m = args
        target = PointCloud(img.landmarks["lm"].points * L.fl(k) + np.array([1.0, 2.0]))
        return img.rescale_to_pointcloud(target, group="lm", round=m, return_transform=True)
    if op == "rescale_lms_range":
        return img.rescale_landmarks_to_diagonal_range(float(args[0]), group="lm", round=args[1], return_transform=True)
    if op in ("pyramid", "gpyramid"):
        levels = list((img.pyramid if op == "pyramid" else img.gaussian_pyramid)(n_levels=2, downscale=args[0]))
        if len(levels) != 2:
            raise AssertionError("pyramid yields %d levels, asked for 2" % len(levels))
        l0 = levels[0]
        if l0 is img or not np.array_equal(l0.pixels, img.pixels) or not np.array_equal(l0.landmarks["lm"].points, img.landmarks["lm"].points):
            raise AssertionError("the first pyramid level is not an equal copy of the image")
        return levels[1], None
    if op == "about":
        key, retain, m = args
        return img.transform_about_centre(mt.Affine(np.block([[np.array(ABOUTS[key]), np.zeros((2, 1))], [np.zeros((1, 2)), np.ones((1, 1))]])),
                                          retain_shape=retain, round=m, return_transform=True, **kw)
    S = L.mat(exp["S"])
    is_translation = np.allclose(S[:2, :2], np.eye(2))
    T = mt.Translation(S[:2, 2]) if is_translation else mt.Affine(S)
    if op == "warp":
        return img.warp_to_shape(tuple(exp["shape"]), T, warp_landmarks=True, return_transform=True, **kw)
    if op == "warp_order0":
        return img.warp_to_shape(tuple(exp["shape"]), T, warp_landmarks=True, order=0, return_transform=True)
    if op == "warp_mask":
        template = BooleanImage(np.array(exp["tmask"], dtype=bool))
        out = img.warp_to_mask(template, T, warp_landmarks=True, return_transform=True)
        if not np.array_equal(template.mask, np.array(exp["tmask"], dtype=bool)) or template.has_landmarks:
            raise AssertionError("warp_to_mask modified the template mask it was given")
        return out
    raise ValueError(op)


def replay_one(cls, beh, variant=""):
    from menpo.image.base import ImageBoundaryError

    img = make(cls, beh, variant)
    nch, dt, ctol = VARIANTS[variant]
    lms0 = L.pts(beh["lms0"])
    for k, ev in enumerate(beh["hist"]):
        op, args, exp = ev["op"], ev["args"], ev["exp"]
        tag = "%s%s step %d %s%r" % (cls, (" (%s)" % variant) if variant else "", k, op, args)
        if cls == "BooleanImage" and op == "warp_order0":
            op = "warp"
        if op == "gpyramid" and (cls == "BooleanImage" or variant == "u8x2"):
            return None                                     # (smoothing a boolean image is not an operation of that class)
        if op == "warp_sym":
            # (the twin whole-number groups may lie outside the domain of a piecewise-affine / spline warp: not part of that case)
            plain = img.copy()
            del plain.landmarks["empty"]
            del plain.landmarks["ilm"]
            del plain.landmarks["flm"]
            return _warp_sym(cls, plain, args[0], tag, ctol)
        keep_px, keep_lm = img.pixels.copy(), img.landmarks["lm"].points.copy()
        try:
            res, T = _call(img, op, args, exp)
            err = ""
        except ImageBoundaryError:
            err = "ImageBoundaryError"
        except ValueError:
            err = "ValueError"
        except AssertionError as e:
            return tag + ": " + str(e)
        if not np.array_equal(img.pixels, keep_px) or not np.array_equal(img.landmarks["lm"].points, keep_lm):
            return tag + ": the operation modified its input image"
        if err != exp.get("err", ""):
            return tag + ": outcome %r, expected %r" % (err or "ok", exp.get("err") or "ok")
        if err:
            continue
        if cls == "Image" and not variant and op in ("rotate", "about", "warp") and nch > 1:
            # higher interpolation orders: every channel is interpolated on its own (the image alone = that channel of the stack)
            from menpo.image import Image as _Image

            for order in (2, 3):
                full, _ = _call(img, op, args, exp, order=order)
                one = _Image(img.pixels[1:2].copy())
                one.landmarks["lm"] = img.landmarks["lm"]
                alone, _ = _call(one, op, args, exp, order=order)
                if full.pixels.shape[1:] != alone.pixels.shape[1:] or not np.allclose(full.pixels[1:2], alone.pixels, atol=1e-10):
                    return tag + ": with interpolation order %d a channel of a multi-channel image is not what the same channel gives alone" % order
                if not L.close(full.landmarks["lm"].points, res.landmarks["lm"].points, 1e-12):
                    return tag + ": the interpolation order changes where the landmarks go"
        if cls == "Image" and not variant and op in ("warp", "rotate", "about"):
            # options that must not move anything: the batch size of the sampler; the fill value (valid pixels unchanged,
            # pixels sampled clearly outside the source take it)
            if op == "warp":
                rb, _ = _call(img, op, args, exp, batch_size=5)
                if not np.array_equal(rb.pixels, res.pixels) or not np.array_equal(rb.landmarks["lm"].points, res.landmarks["lm"].points):
                    return tag + ": warping with batch_size=5 gives another image than warping in one go"
            rc, _ = _call(img, op, args, exp, cval=7.0)
            vv = np.array(exp["valid"], dtype=bool)
            if rc.pixels.shape != res.pixels.shape or not np.array_equal(rc.pixels[:, vv], res.pixels[:, vv]):
                return tag + ": the fill value changes pixels that were sampled inside the source"
            if all(all(x == 1 for x in row) for row in beh["mask0"]):
                outside = np.array(exp["mask"], dtype=int) == 0
                if outside.any() and not np.array_equal(rc.pixels[:, outside], np.full((nch, int(outside.sum())), 7.0)):
                    return tag + ": pixels sampled outside the source do not take the fill value"
        want_cls = type(img).__name__ if not (op == "warp_mask" and cls == "Image") else "MaskedImage"
        if type(res).__name__ != want_cls:
            return tag + ": result class " + type(res).__name__
        if tuple(res.shape) != tuple(exp["shape"]):
            return tag + ": result shape %r, expected %r" % (tuple(res.shape), tuple(exp["shape"]))
        S = L.mat(exp["S"])
        probe = np.array([[0.0, 0.0], [1.0, 2.0], [res.shape[0] - 1.0, res.shape[1] - 1.0], [0.5, 1.25]])
        if T is not None and not L.close(T.apply(probe), L.apply_h(S, probe), 1e-9):
            return tag + ": the returned transform does not map result coordinates to source coordinates as the pixels were sampled"
        want_lm = L.pts(exp["lms"])
        got_lm = res.landmarks["lm"].points
        if got_lm.shape != want_lm.shape or not L.close(got_lm, want_lm, 1e-9):
            return tag + ": landmarks not moved with the pixels (max diff %.4g)" % L.maxdiff(got_lm, want_lm)
        if list(res.landmarks.group_labels) != list(img.landmarks.group_labels) or res.landmarks["empty"].points.shape != (0, 2):
            return tag + ": the result does not carry the same landmark groups in the same order (an empty group included)"
        gi, gf = np.asarray(res.landmarks["ilm"].points, dtype=float), np.asarray(res.landmarks["flm"].points, dtype=float)
        if gi.shape != gf.shape or not L.close(gi, gf, 1e-9):
            return tag + ": a landmark group stored as whole numbers (int64) is not moved like the same points stored as floats (max diff %.4g)" % L.maxdiff(gi, gf)
        valid = np.array(exp["valid"], dtype=bool)
        A = L.mat(exp["A"])
        if cls != "BooleanImage":
            if ev["op"] == "warp_order0":
                src = np.array(exp["src"], dtype=int)
                sv = np.array(exp["srcvalid"], dtype=bool)
                sA = L.mat(exp["srcA"])
                for i in range(res.shape[0]):
                    for j in range(res.shape[1]):
                        a, b = src[i, j]
                        if a == -2:
                            continue
                        if a == -1:
                            want = np.zeros(nch)
                        elif not sv[a, b]:
                            continue
                        else:
                            want = _content(L.apply_h(sA, np.array([[float(a), float(b)]])), nch)[:, 0]
                        if not L.close(res.pixels[:, i, j].astype(float), want, ctol):
                            return tag + ": nearest-neighbour warp put the wrong source pixel at %r (got %s, expected source index %r)" % (
                                (i, j), res.pixels[:, i, j].tolist(), (int(a), int(b)))
            else:
                idx = np.argwhere(valid)
                if len(idx):
                    want = _content(L.apply_h(A, idx.astype(float)), nch)
                    got = res.pixels[:, idx[:, 0], idx[:, 1]].astype(float)
                    if not L.close(got, want, ctol):
                        w = np.argwhere(np.abs(got - want) > ctol)[0]
                        return tag + ": pixel content is not registered with the transform (pixel %r holds %s, expected %s)" % (
                            idx[w[1]].tolist(), got[:, w[1]].tolist(), want[:, w[1]].tolist())
                # the property's own observation: sampling the result at a returned landmark gives the original landmark's content
                for q, (lm, lm0) in enumerate(zip(got_lm, lms0)):
                    fl, ce = np.floor(lm).astype(int), np.ceil(lm).astype(int)
                    if (fl < 0).any() or (ce >= np.array(res.shape)).any():
                        continue
                    if all(valid[a, b] for a in (fl[0], ce[0]) for b in (fl[1], ce[1])):
                        sval = res.sample(res.landmarks["lm"].points[q:q + 1], order=1)[:2, 0].astype(float)
                        if not L.close(sval, lm0[:len(sval)], max(ctol * 10, 1e-8)):
                            return tag + ": sampling the result at landmark %d gives %s, the original landmark annotates %s" % (q, sval.tolist(), lm0.tolist())
        if op == "warp_mask":
            # the result's mask is the template mask; a BooleanImage result holds the sampled values at the template's true pixels
            tm = np.array(exp["tmask"], dtype=bool)
            if cls != "BooleanImage":
                if not np.array_equal(res.mask.mask, tm):
                    return tag + ": the result's mask is not the template mask"
            else:
                wm = np.array(exp["bmask"], dtype=int)
                j = wm >= 0
                if res.mask.shape != wm.shape or not np.array_equal(res.mask[j], wm[j].astype(bool)):
                    return tag + ": boolean warp_to_mask result differs from the template-restricted warped mask"
        elif cls in ("MaskedImage", "BooleanImage"):
            wm = np.array(exp["mask"], dtype=int)
            gm = res.mask.mask if cls == "MaskedImage" else res.mask
            j = wm >= 0
            if gm.shape != wm.shape or not np.array_equal(gm[j], wm[j].astype(bool)):
                w = np.argwhere(j & (gm != wm.astype(bool)))[0] if gm.shape == wm.shape else None
                return tag + ": the mask is not carried by the same mapping as the pixels (first difference at %r)" % (None if w is None else w.tolist(),)
        img = res
    return None


def _bilinear(px, P):
    """independent order-1 sampling of px (C, H, W) at points P (n, 2), all strictly inside"""
    f = np.floor(P).astype(int)
    f[:, 0] = np.minimum(f[:, 0], px.shape[1] - 2)
    f[:, 1] = np.minimum(f[:, 1], px.shape[2] - 2)
    a = P - f
    out = np.zeros((px.shape[0], len(P)))
    for di in (0, 1):
        for dj in (0, 1):
            w = (a[:, 0] if di else 1 - a[:, 0]) * (a[:, 1] if dj else 1 - a[:, 1])
            out += w * px[:, f[:, 0] + di, f[:, 1] + dj]
    return out


def _warp_sym(cls, img, kind, tag, ctol=1e-9):
    """smooth non-affine warp: the map is the real transform's own (uninterpreted in the specification); content, landmarks
    and mask must all be carried by that one map"""
    import menpo.transform as mt
    from menpo.image import BooleanImage
    from menpo.shape import PointCloud, TriMesh

    H, W = img.shape
    th, tw = H - 1, W              # template shape differs from the source shape
    # template-space control points (corners + centre) and where they go in the source image (a mild, non-affine distortion)
    src = np.array([[-1.0, -1.0], [-1.0, tw], [th, -1.0], [th, tw], [(th - 1) / 2.0, (tw - 1) / 2.0]])
    tgt = np.array([[-0.75, -1.0], [-1.0, W + 0.25], [H + 0.5, -0.5], [H, W], [(H - 1) / 2.0 + 0.3, (W - 1) / 2.0 - 0.4]])
    if kind == "pwa":
        # a quadrilateral split along the diagonal a Delaunay triangulation would NOT choose (the warp and its inverse must use the
        # triangle list they were given)
        from scipy.spatial import Delaunay

        src = np.array([[-1.0, -1.0], [-1.0, tw], [th, -1.0], [th + 2.0, tw + 4.0]])
        tgt = np.array([[-0.75, -1.0], [-1.0, W + 0.25], [H + 0.5, -0.5], [H + 2.5, W + 4.0]])
        dl = {frozenset(t.tolist()) for t in Delaunay(src).simplices}
        tl = np.array([[0, 1, 3], [0, 3, 2]]) if frozenset((0, 1, 2)) in dl else np.array([[0, 1, 2], [1, 3, 2]])
        T = mt.PiecewiseAffine(TriMesh(src, trilist=tl), PointCloud(tgt))      # (the target carries no triangle list of its own)
    else:
        T = mt.ThinPlateSplines(PointCloud(src), PointCloud(tgt))
    keep_px, keep_lm = img.pixels.copy(), img.landmarks["lm"].points.copy()
    for via_mask in (False, True):
        t2 = tag + (" (warp_to_mask)" if via_mask else " (warp_to_shape)")
        if via_mask:
            tm = np.ones((th, tw), dtype=bool)
            tm[0, 0] = tm[th - 1, 1] = False
            res = img.warp_to_mask(BooleanImage(tm), T, warp_landmarks=True)
        else:
            tm = np.ones((th, tw), dtype=bool)
            res = img.warp_to_shape((th, tw), T, warp_landmarks=True)
        if not np.array_equal(img.pixels, keep_px) or not np.array_equal(img.landmarks["lm"].points, keep_lm):
            return t2 + ": the operation modified its input image"
        if tuple(res.shape) != (th, tw):
            return t2 + ": result shape %r" % (tuple(res.shape),)
        idx = np.argwhere(tm).astype(float)
        P = T.apply(idx)
        inside = (P[:, 0] > 0.01) & (P[:, 0] < H - 1.01) & (P[:, 1] > 0.01) & (P[:, 1] < W - 1.01)
        ii = idx[inside].astype(int)
        if cls != "BooleanImage":
            want = _bilinear(img.pixels.astype(float), P[inside])
            got = res.pixels[:, ii[:, 0], ii[:, 1]]
            if not L.close(got, want, max(ctol, 1e-8)):
                w = np.argwhere(np.abs(got - want) > max(ctol, 1e-8))[0]
                return t2 + ": pixel %r does not hold the source content at the transform's image of that pixel" % (ii[w[1]].tolist(),)
        # landmarks: the transform maps the returned landmarks onto the original ones (result -> source, like the pixels)
        # (a thin-plate spline has no closed inverse: its documented inverse is the spline fitted in the reverse direction, so
        #  the back-map is only approximately the identity there; the landmarks must be exactly that reverse spline's image)
        if kind == "pwa":
            back = T.apply(res.landmarks["lm"].points)
            if not L.close(back, keep_lm, 1e-6):
                return t2 + ": landmarks are not carried by the same map as the pixels (max diff %.3g)" % L.maxdiff(back, keep_lm)
        else:
            want_lm = T.pseudoinverse().apply(keep_lm)
            back = T.apply(res.landmarks["lm"].points)
            if not L.close(res.landmarks["lm"].points, want_lm, 1e-9) or L.maxdiff(back, keep_lm) > 0.25:
                return t2 + ": landmarks are not the reverse spline's image of the original landmarks"
        # mask: nearest-neighbour through the same map (judged away from rounding ties)
        if cls in ("MaskedImage", "BooleanImage") and not (via_mask and cls == "MaskedImage"):
            srcm = img.mask.mask if cls == "MaskedImage" else img.mask
            gm = res.mask.mask if cls == "MaskedImage" else res.mask
            fr = np.abs(P - np.round(P) - 0.0)
            safe = inside & (np.abs(np.abs(P - np.floor(P)) - 0.5) > 0.02).all(axis=1)
            jj = idx[safe].astype(int)
            near = np.round(P[safe]).astype(int)
            if not np.array_equal(gm[jj[:, 0], jj[:, 1]], srcm[near[:, 0], near[:, 1]]):
                return t2 + ": the mask is not carried by the same map as the pixels"
        if via_mask and cls == "MaskedImage" and not np.array_equal(res.mask.mask, tm):
            return t2 + ": the result's mask is not the template mask"
    return None


def replay(beh):
    import zlib

    for cls in ("Image", "MaskedImage", "BooleanImage"):
        bad = replay_one(cls, beh)
        if bad:
            return {"class": cls, "what": bad}
    # one channel-count / dtype variant per behaviour (chosen by a stable hash of its operations)
    h = zlib.crc32(repr([(e["op"], e["args"]) for e in beh["hist"]]).encode())
    cls, variant = (("Image", "f32x4"), ("MaskedImage", "f64x1"), ("Image", "u8x2"), ("MaskedImage", "u8x2"))[h % 4]
    bad = replay_one(cls, beh, variant)
    if bad:
        return {"class": cls, "variant": variant, "what": bad}
    return None
