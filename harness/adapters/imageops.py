"""Adapter for Image.tla: replay geometry-op sequences on coordinate-ramp images (C01).

Channel 0 / 1 of the test image hold the row / column index of the ORIGINAL image, channel 2 an
affine combination; order-1 interpolation reproduces affine functions exactly, so after any
sequence of operations every pixel the specification calls valid must hold A(x)."""
import math

import numpy as np

from .. import lattice as L

TOL = 1e-9
ROT = {"r90": (0.0, 1.0), "r180": (-1.0, 0.0), "r270": (0.0, -1.0), "p345": (3 / 5, 4 / 5), "p345n": (3 / 5, -4 / 5), "p51213": (5 / 13, 12 / 13)}


def _ramp(sh):
    r, c = np.indices(sh).astype(float)
    return np.stack([r, c, 2 * r - c + 3.0])


def make(cls, beh):
    from menpo.image import BooleanImage, Image, MaskedImage
    from menpo.shape import PointCloud

    sh = tuple(beh["shape0"])
    mask = np.array(beh["mask0"], dtype=bool)
    if cls == "Image":
        img = Image(_ramp(sh))
    elif cls == "MaskedImage":
        img = MaskedImage(_ramp(sh), mask=mask)
    else:
        img = BooleanImage(mask.copy())
    img.landmarks["lm"] = PointCloud(L.pts(beh["lms0"]))
    return img


def _call(img, op, args, exp):
    import menpo.transform as mt

    if op == "rescale":
        s, m = args
        return img.rescale([L.fl(s[0]), L.fl(s[1])], round=m, return_transform=True)
    if op == "resize":
        return img.resize(tuple(args[0]), return_transform=True)
    if op == "rotate":
        r, retain, m = args
        c, s = ROT[r]
        return img.rotate_ccw_about_centre(math.degrees(math.atan2(s, c)), retain_shape=retain, round=m, return_transform=True)
    if op == "mirror":
        return img.mirror(axis=args[0], return_transform=True)
    if op == "zoom":
        return img.zoom(L.fl(args[0]), return_transform=True)
    if op == "crop":
        mn, mx, c = args
        return img.crop(np.array([L.fl(x) for x in mn]), np.array([L.fl(x) for x in mx]), constrain_to_boundary=c, return_transform=True)
    S = L.mat(exp["S"])
    is_translation = np.allclose(S[:2, :2], np.eye(2))
    T = mt.Translation(S[:2, 2]) if is_translation else mt.Affine(S)
    if op == "warp":
        return img.warp_to_shape(tuple(exp["shape"]), T, warp_landmarks=True, return_transform=True)
    if op == "warp_order0":
        return img.warp_to_shape(tuple(exp["shape"]), T, warp_landmarks=True, order=0, return_transform=True)
    raise ValueError(op)


def replay_one(cls, beh):
    from menpo.image.base import ImageBoundaryError

    img = make(cls, beh)
    lms0 = L.pts(beh["lms0"])
    for k, ev in enumerate(beh["hist"]):
        op, args, exp = ev["op"], ev["args"], ev["exp"]
        tag = "%s step %d %s%r" % (cls, k, op, args)
        if cls == "BooleanImage" and op == "warp_order0":
            op = "warp"
        keep_px, keep_lm = img.pixels.copy(), img.landmarks["lm"].points.copy()
        try:
            res, T = _call(img, op, args, exp)
            err = ""
        except ImageBoundaryError:
            err = "ImageBoundaryError"
        except ValueError:
            err = "ValueError"
        if not np.array_equal(img.pixels, keep_px) or not np.array_equal(img.landmarks["lm"].points, keep_lm):
            return tag + ": the operation modified its input image"
        if err != exp.get("err", ""):
            return tag + ": outcome %r, expected %r" % (err or "ok", exp.get("err") or "ok")
        if err:
            continue
        if type(res) is not type(img):
            return tag + ": result class " + type(res).__name__
        if tuple(res.shape) != tuple(exp["shape"]):
            return tag + ": result shape %r, expected %r" % (tuple(res.shape), tuple(exp["shape"]))
        S = L.mat(exp["S"])
        probe = np.array([[0.0, 0.0], [1.0, 2.0], [res.shape[0] - 1.0, res.shape[1] - 1.0], [0.5, 1.25]])
        if not L.close(T.apply(probe), L.apply_h(S, probe), 1e-9):
            return tag + ": the returned transform does not map result coordinates to source coordinates as the pixels were sampled"
        want_lm = L.pts(exp["lms"])
        got_lm = res.landmarks["lm"].points
        if got_lm.shape != want_lm.shape or not L.close(got_lm, want_lm, 1e-9):
            return tag + ": landmarks not moved with the pixels (max diff %.4g)" % L.maxdiff(got_lm, want_lm)
        valid = np.array(exp["valid"], dtype=bool)
        A = L.mat(exp["A"])
        if cls != "BooleanImage":
            if ev["op"] == "warp_order0":
                src = np.array(exp["src"], dtype=int)
                sv = np.array(exp["srcvalid"], dtype=bool)
                sA = L.mat(exp["srcA"])
                for i in range(res.shape[0]):
                    for j in range(res.shape[1]):
                        a, b = src[i, j]
                        if a == -2:
                            continue
                        if a == -1:
                            want = np.zeros(3)
                        elif not sv[a, b]:
                            continue
                        else:
                            p = L.apply_h(sA, np.array([[float(a), float(b)]]))[0]
                            want = np.array([p[0], p[1], 2 * p[0] - p[1] + 3.0])
                        if not L.close(res.pixels[:, i, j], want, 1e-9):
                            return tag + ": nearest-neighbour warp put the wrong source pixel at %r (got %s, expected source index %r)" % (
                                (i, j), res.pixels[:, i, j].tolist(), (int(a), int(b)))
            else:
                idx = np.argwhere(valid)
                if len(idx):
                    p = L.apply_h(A, idx.astype(float))
                    want = np.stack([p[:, 0], p[:, 1], 2 * p[:, 0] - p[:, 1] + 3.0])
                    got = res.pixels[:, idx[:, 0], idx[:, 1]]
                    if not L.close(got, want, 1e-9):
                        w = np.argwhere(np.abs(got - want) > 1e-9)[0]
                        return tag + ": pixel content is not registered with the transform (pixel %r holds %s, expected %s)" % (
                            idx[w[1]].tolist(), got[:, w[1]].tolist(), want[:, w[1]].tolist())
                # the property's own observation: sampling the result at a returned landmark gives the original landmark's content
                for q, (lm, lm0) in enumerate(zip(got_lm, lms0)):
                    fl, ce = np.floor(lm).astype(int), np.ceil(lm).astype(int)
                    if (fl < 0).any() or (ce >= np.array(res.shape)).any():
                        continue
                    if all(valid[a, b] for a in (fl[0], ce[0]) for b in (fl[1], ce[1])):
                        sval = res.sample(res.landmarks["lm"].points[q:q + 1], order=1)[:2, 0]
                        if not L.close(sval, lm0, 1e-8):
                            return tag + ": sampling the result at landmark %d gives %s, the original landmark annotates %s" % (q, sval.tolist(), lm0.tolist())
        if cls in ("MaskedImage", "BooleanImage"):
            wm = np.array(exp["mask"], dtype=int)
            gm = res.mask.mask if cls == "MaskedImage" else res.mask
            j = wm >= 0
            if gm.shape != wm.shape or not np.array_equal(gm[j], wm[j].astype(bool)):
                w = np.argwhere(j & (gm != wm.astype(bool)))[0] if gm.shape == wm.shape else None
                return tag + ": the mask is not carried by the same mapping as the pixels (first difference at %r)" % (None if w is None else w.tolist(),)
        img = res
    return None


def replay(beh):
    for cls in ("Image", "MaskedImage", "BooleanImage"):
        bad = replay_one(cls, beh)
        if bad:
            return {"class": cls, "what": bad}
    return None
