"""Adapter for Landmarks.tla: replay manager / owner histories on real LandmarkManagers."""
import numpy as np

from .shapes import buffers

NONE = "__none__"
SHIFT = 1000


def _mk_shape(idx, d, token, empty=False):
    """A shape whose every coordinate equals `token`; the class rotates with the object id so that
    every structure-carrying class takes part (sparse adjacency, trilist, label masks).
    empty: a point cloud of ZERO points of dimension d - a legal group that still has a dimensionality"""
    import menpo.shape as ms
    from collections import OrderedDict

    if empty:
        return ms.PointCloud(np.zeros((0, d)))
    P = np.full((4, d), float(token))
    k = idx % 5
    if k == 0:
        return ms.PointCloud(P)
    if k == 1:
        return ms.PointUndirectedGraph.init_from_edges(P, np.array([[0, 1], [1, 2], [2, 3]]))
    if k == 2:
        return ms.TriMesh(P, trilist=np.array([[0, 1, 2], [0, 2, 3]]))
    if k == 3:
        masks = OrderedDict([("x", np.array([True, True, False, False])), ("y", np.array([False, True, True, True]))])
        return ms.LabelledPointUndirectedGraph.init_from_edges(P, np.array([[0, 1], [2, 3]]), masks)
    return ms.PointDirectedGraph.init_from_edges(P, np.array([[0, 1], [1, 2], [3, 2]]))


def struct_digest(s):
    out = []
    for path, b in sorted(buffers(s), key=lambda x: x[0]):
        if path == ".points" or "_landmarks" in path:
            continue
        out.append((path, b.dtype.str, b.shape, b.tobytes()))
    return out


def mutate(s, token):
    """in-place write into EVERY reachable buffer of the object"""
    for path, b in buffers(s):
        if "_landmarks" in path:
            continue
        if path == ".points":
            b[...] = float(token)
        elif b.dtype == bool:
            np.logical_not(b, out=b)
        elif b.dtype.kind in "iu":
            if "indptr" in path:
                continue
            b[...] = (b + 1) % 4  # indices stay inside 0..3
        else:
            b[...] = float(token)


def _fn(x):
    """ToJson of a TLA+ function: a list when the domain is 1..n, else an object with string keys"""
    if isinstance(x, list):
        return {i + 1: v for i, v in enumerate(x)}
    return {int(k): v for k, v in x.items()}


class World:
    def __init__(self, owner_kind, empties=False):
        from menpo.image import Image
        from menpo.landmark import LandmarkManager
        from menpo.shape import PointCloud

        self.owners = {1: Image(np.zeros((1, 5, 5))) if owner_kind == 0 else PointCloud(np.zeros((3, 2)))}
        self.mgrs = {1: LandmarkManager(), 2: self.owners[1].landmarks}
        self.objs = {}
        self.empties = empties   # objects with an odd id are created as zero-point clouds
        self.digest = {}  # base token -> structure digest of the object(s) carrying it

    # the specification's group name "b" is played by the empty string: a legal (if unusual) name that is NOT the None key
    REAL = {"b": ""}
    BACK = {"": "b"}

    def key(self, n):
        return None if n == NONE else self.REAL.get(n, n)

    def names(self, mgr):
        return [self.BACK.get(x, x) for x in mgr.group_labels]

    def step(self, ev):
        import menpo.transform as mt

        op, a = ev["op"], ev["args"]
        err = ""
        res_obj = None
        try:
            if op == "new":
                pass
            elif op == "mutate":
                pass
            elif op == "set":
                self.mgrs[a[0]][self.key(a[1])] = self.objs[a[2]]
            elif op == "get":
                res_obj = self.mgrs[a[0]][self.key(a[1])]
            elif op == "del":
                del self.mgrs[a[0]][self.key(a[1])]
            elif op == "keys":
                got = [self.BACK.get(x, x) for x in self.mgrs[a[0]]]
                if got != ev["keys"] or self.names(self.mgrs[a[0]]) != ev["keys"] or len(self.mgrs[a[0]]) != len(ev["keys"]):
                    return "keys / iteration order differs: %r, expected %r" % (got, ev["keys"])
            elif op == "copy_mgr":
                self.mgrs[ev["res"]] = self.mgrs[a[0]].copy()
            elif op == "assign":
                self.n_assign = getattr(self, "n_assign", 0) + 1
                src = self.mgrs[a[1]]
                if self.n_assign % 2 == 0 and src.n_groups:
                    # the library's own route for the same assignment: copy_landmarks_and_path(source, target) hands the source's
                    # manager to the target (as_masked / as_unmasked / from_vector use it) - dimension check and copy included
                    from menpo.base import copy_landmarks_and_path

                    class _Source:
                        landmarks = src
                        has_landmarks = True

                    copy_landmarks_and_path(_Source(), self.owners[a[0]])
                else:
                    self.owners[a[0]].landmarks = src
            elif op == "transform_owner":
                w = self.owners[a[0]]
                if hasattr(w, "warp_to_shape"):
                    # images move their landmarks by the inverse of the sampling transform
                    self.owners[ev["res"]] = w.warp_to_shape(w.shape, mt.Translation([-float(SHIFT)] * 2))
                else:
                    self.owners[ev["res"]] = mt.Translation([float(SHIFT)] * 2).apply(w)
            else:
                raise RuntimeError("unknown op " + op)
        except (ValueError, KeyError) as e:
            err = type(e).__name__
        if err != ev["err"]:
            return "outcome %r, expected %r" % (err or "ok", ev["err"] or "ok")
        objs = _fn(ev["objs"])
        if op == "new":
            tok = objs[ev["res"]]
            s = _mk_shape(ev["res"], a[0], tok, empty=self.empties and ev["res"] % 2 == 1)
            self.objs[ev["res"]] = s
            self.digest[tok] = struct_digest(s)
        elif op == "mutate":
            tok = objs[a[0]]
            mutate(self.objs[a[0]], tok)
            self.digest[tok] = struct_digest(self.objs[a[0]])
        elif op == "get" and not err:
            if ev["res"] in self.objs:
                if self.objs[ev["res"]] is not res_obj:
                    return "get returned a different object than before for the same stored group"
            else:
                self.objs[ev["res"]] = res_obj
        # the owner -> manager map of the model: (re)bind managers that belong to owners
        for w, m in _fn(ev["own"]).items():
            if w in self.owners:
                self.mgrs[m] = self.owners[w].landmarks
        return self.compare(ev, objs)

    def _check_obj(self, s, dim, val, where):
        if s.n_dims != dim:
            return "%s: n_dims %d, expected %d" % (where, s.n_dims, dim)
        if not np.all(s.points == float(val)):
            return "%s: coordinates hold %r, the specification says token %r" % (where, np.unique(s.points).tolist(), val)
        if struct_digest(s) != self.digest[val % SHIFT]:
            return "%s: structure arrays (adjacency / trilist / label masks) differ from the value that was stored" % where
        return None

    def compare(self, ev, objs):
        view = _fn(ev["mgrs"])
        for m, groups in view.items():
            real = self.mgrs[m]
            names = [g[0] for g in groups]
            if self.names(real) != names:
                return "manager %d holds groups %r, the specification says %r" % (m, self.names(real), names)
            if real.n_groups and real.n_dims != groups[0][1]:
                return "manager %d n_dims %r, expected %r" % (m, real.n_dims, groups[0][1])
            for name, dim, val in groups:
                r = self._check_obj(real[self.key(name)], dim, val, "manager %d group %r" % (m, name))
                if r:
                    return r
        for o, val in objs.items():
            s = self.objs[o]
            r = self._check_obj(s, s.n_dims, val, "held object %d" % o)
            if r:
                return r
        # no two managers may share a group object or any buffer of it
        seen = {}
        for m in view:
            for name in self.mgrs[m].group_labels:
                g = self.mgrs[m][name]
                if id(g) in seen and seen[id(g)] != m:
                    return "managers %d and %d share the group object %r" % (seen[id(g)], m, name)
                seen[id(g)] = m
        return None


def replay(hist, owner_kind=0, empties=False):
    w = World(owner_kind, empties)
    for k, ev in enumerate(hist):
        try:
            bad = w.step(ev)
        except Exception as e:
            from ..core import from_library

            if not from_library(e):
                raise
            bad = "%s raised by menpo while the step was executed / its result inspected: %s" % (type(e).__name__, str(e)[:160])
        if bad:
            return {"step": k, "op": ev["op"], "args": ev["args"], "what": bad}
    return None


# ---- code -> spec: random long histories recorded from the real classes (validated by Trace_Landmarks) ----
def _token(s):
    v = np.unique(s.points)
    return int(v[0]) if len(v) == 1 and float(v[0]).is_integer() else -1


def record_random(rng, n_ops, names=("n1", "n2", "n3", "n4", "n5")):
    """Drive real managers / owners with random operations; log every call with the OBSERVED outcome
    and the observed projection of all managers (name, dim, content token)."""
    import menpo.transform as mt

    w = World(rng.randint(0, 1))
    events = []
    clock = 1
    held = []
    own = {1: 2}

    def view():
        out = []
        for m in sorted(w.mgrs):
            mg = w.mgrs[m]
            out.append([[n, int(mg[n].n_dims), _token(mg[n])] for n in mg.group_labels])
        return out

    def objs_view():
        return {str(o): _token(w.objs[o]) for o in held}

    for _ in range(n_ops):
        mids = sorted(w.mgrs)
        r = rng.random()
        ev = None
        err = ""
        res = 0
        keys = []
        try:
            if (r < 0.18 and len(w.objs) < 60) or not held:
                d = rng.choice([2, 2, 3])
                oid = len(w.objs) + 1
                s = _mk_shape(oid, d, clock)
                w.objs[oid] = s
                held.append(oid)
                ev = ("new", [d])
                res = oid
                clock += 1
            elif r < 0.33:
                o = rng.choice(held)
                mutate(w.objs[o], clock)
                ev = ("mutate", [o])
                clock += 1
            elif r < 0.58:
                m, n, o = rng.choice(mids), rng.choice(list(names) + [NONE]), rng.choice(held)
                ev = ("set", [m, n, o])
                w.mgrs[m][None if n == NONE else n] = w.objs[o]
                # the stored copy is a NEW object for the model
                oid = len(w.objs) + 1
                w.objs[oid] = w.mgrs[m][n]
            elif r < 0.72:
                m, n = rng.choice(mids), rng.choice(list(names) + [NONE])
                ev = ("get", [m, n])
                h = w.mgrs[m][None if n == NONE else n]
                found = [o for o, s in w.objs.items() if s is h]
                if not found:          # an object the manager was never seen to store: logged under a new id (the model will refuse it)
                    w.objs[len(w.objs) + 1] = h
                    found = [len(w.objs)]
                res = found[0]
                if res not in held:
                    held.append(res)
            elif r < 0.80:
                m, n = rng.choice(mids), rng.choice(names)
                ev = ("del", [m, n])
                del w.mgrs[m][n]
            elif r < 0.86:
                m = rng.choice(mids)
                ev = ("keys", [m])
                keys = list(w.mgrs[m])
            elif r < 0.92 and len(w.mgrs) < 12:
                m = rng.choice(mids)
                ev = ("copy_mgr", [m])
                new = w.mgrs[m].copy()
                res = len(w.mgrs) + 1
                w.mgrs[res] = new
                for n in new.group_labels:
                    w.objs[len(w.objs) + 1] = new[n]
            elif r < 0.97 and len(w.mgrs) < 12:
                wid, m = rng.choice(sorted(w.owners)), rng.choice(mids)
                ev = ("assign", [wid, m])
                w.owners[wid].landmarks = w.mgrs[m]
                res = len(w.mgrs) + 1
                w.mgrs[res] = w.owners[wid].landmarks
                own[wid] = res
                for n in w.mgrs[res].group_labels:
                    w.objs[len(w.objs) + 1] = w.mgrs[res][n]
            else:
                continue
        except (ValueError, KeyError) as e:
            err = type(e).__name__
            res = 0
        events.append({"op": ev[0], "args": ev[1], "res": res, "err": err, "keys": keys, "mgrs": view(), "objs": objs_view(),
                       "own": [own[k] for k in sorted(own)]})
    return {"events": events}
