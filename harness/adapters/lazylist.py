"""Adapter between the LazyList specification and the real menpo.base.LazyList.

`Machine` executes the spec's actions on real LazyList objects built from instrumented
callables and returns each step's observation in the vocabulary of LazyList.tla:
   term  = {"base": b, "fs": [f1, f2, ...]}      (value of an element)
   calls = [[0, b], [f1, b], ...]                 (callable invocations, in order)
"""
import numpy as np

NONE_V = 1000
PLAIN_BASE = 100


def _n(v):
    return None if v == NONE_V else v


class Term(tuple):
    """(base, fs) - hashable value flowing through the real callables."""


class Machine:
    def __init__(self, n, ctor="iterable", use_numpy_index=False):
        from menpo.base import LazyList

        self.LazyList = LazyList
        self.log = []
        self.nf = 0
        self.nb = 0
        self.use_numpy_index = use_numpy_index
        if ctor == "iterable":
            ll = LazyList.init_from_iterable(list(range(1, n + 1)), f=self._base)
        else:
            ll = LazyList.init_from_index_callable(lambda i: self._base(i + 1), n)
        self.lists = {1: ll}

    # instrumented callables -----------------------------------------------------------
    def _base(self, x):
        self.log.append([0, x])
        return (x, ())

    def _mk(self, k):
        def f(t):
            self.log.append([k, t[0]])
            return (t[0], t[1] + (k,))

        return f

    @staticmethod
    def term(t):
        return {"base": t[0], "fs": list(t[1])}

    # one spec action ------------------------------------------------------------------
    def step(self, op, args):
        mark = len(self.log)
        try:
            obs = self._do(op, args)
        except (IndexError, ValueError, TypeError, KeyError) as e:
            obs = {"err": type(e).__name__}
        delta = self.log[mark:]
        if op in ("index", "iter", "iter_first"):
            if "err" in obs:
                if delta:
                    obs["unexpected_calls"] = delta
            else:
                obs["calls"] = delta
        elif delta:
            obs["unexpected_calls"] = delta
        return obs

    def _new(self, ll):
        if not isinstance(ll, self.LazyList):
            return {"err": "not-a-LazyList:" + type(ll).__name__}
        i = len(self.lists) + 1
        self.lists[i] = ll
        return {"id": i, "len": len(ll)}

    def _do(self, op, a):
        L = self.lists
        if op == "map":
            f = self._mk(a[1])
            self.nf = max(self.nf, a[1])
            return self._new(L[a[0]].map(f))
        if op == "map_ambiguous":
            class Both(list):
                def __call__(self, x):
                    return x

            return self._new(L[a[0]].map(Both([self._mk(1)])))
        if op == "map_each":
            first, k = a[1], a[2]
            fs = [self._mk(first + i) for i in range(k)]
            r = self._new(L[a[0]].map(fs))
            self.nf = max(self.nf, first + k - 1)
            return r
        if op == "slice":
            sl = [_n(a[1]), _n(a[2]), _n(a[3])]
            if self.use_numpy_index:
                sl = [None if x is None else np.int64(x) for x in sl]
            return self._new(L[a[0]][slice(*sl)])
        if op == "fancy":
            idx = list(a[1])
            # every kind of "iterable of integers": list, ndarray, tuple, one-shot generator / iterator
            kind = (len(idx) + a[0] + (1 if self.use_numpy_index else 0)) % 5
            if kind == 1:
                idx = np.array(idx, dtype=int)
            elif kind == 2:
                idx = tuple(idx)
            elif kind == 3:
                idx = (i for i in list(idx))
            elif kind == 4:
                idx = iter(idx)
            keep = idx.copy() if isinstance(idx, np.ndarray) else (list(idx) if isinstance(idx, list) else None)
            got = L[a[0]][idx]
            # the index object belongs to the caller (who may use it on the next list, of another length): it is read, not rewritten
            if keep is not None and not (np.array_equal(idx, keep) if isinstance(idx, np.ndarray) else idx == keep):
                return {"err": "caller-index-modified:" + type(idx).__name__}
            return self._new(got)
        if op == "repeat":
            # (a count computed with numpy is a count)
            return self._new(L[a[0]].repeat(np.int64(a[1]) if self.use_numpy_index else a[1]))
        if op == "concat":
            return self._new(L[a[0]] + L[a[1]])
        if op == "concat_plain":
            k, first = a[1], a[2]
            plain = [(first + i, ()) for i in range(k)]
            r = L[a[0]] + plain
            # the ordinary list is the caller's: what it is made to hold afterwards must not reach the lazy list
            plain[:] = [(987654, ())] * k
            plain.append((987655, ()))
            return self._new(r)
        if op == "copy":
            return self._new(L[a[0]].copy())
        if op == "len":
            return {"len": len(L[a[0]])}
        if op == "index":
            k = a[1]
            if self.use_numpy_index:
                k = np.int64(k)
            return {"val": self.term(L[a[0]][k])}
        if op == "iter":
            return {"vals": [self.term(t) for t in L[a[0]]]}
        if op == "iter_first":
            return {"val": self.term(next(iter(L[a[0]])))}
        raise ValueError("unknown op " + op)

    def final(self):
        """Fully read every list (in id order) - what the lists denote now."""
        return [[self.term(t) for t in self.lists[i]] for i in sorted(self.lists)]


def replay(beh, use_numpy_index=False):
    """Replay one generated behaviour.  Returns None when the real code agrees with the
    specification at every step, else a dict describing the first disagreement."""
    from ..core import from_library

    try:
        m = Machine(beh["init"], beh.get("ctor", "iterable"), use_numpy_index)
    except Exception as e:
        if not from_library(e):
            raise
        return {"step": "construction", "ctor": beh.get("ctor", "iterable"), "n": beh["init"],
                "observed": "%s raised by menpo while the base list was built: %s" % (type(e).__name__, str(e)[:120])}
    for i, ev in enumerate(beh["hist"]):
        try:
            obs = m.step(ev["op"], ev["args"])
        except Exception as e:
            if not from_library(e):
                raise
            obs = {"raised": "%s: %s" % (type(e).__name__, str(e)[:120])}
        if obs != ev["obs"]:
            return {"step": i, "op": ev["op"], "args": ev["args"], "expected": ev["obs"], "observed": obs}
    if "final" in beh:
        mark = len(m.log)
        fin = m.final()
        if fin != beh["final"]:
            return {"step": "final", "expected": beh["final"], "observed": fin}
    return None


# ---- code -> spec: random programs recorded as traces ---------------------------------------
def record_random(rng, n_ops, max_lists=40, max_len=60):
    """Run a random program on the real LazyList and log every call with its observation."""
    n0 = rng.randint(0, 12)
    ctor = rng.choice(["iterable", "index"])
    m = Machine(n0, ctor, use_numpy_index=rng.random() < 0.5)
    events = []
    nf, nb = 0, 0
    for _ in range(n_ops):
        ids = sorted(m.lists)
        l = rng.choice(ids)
        n = len(m.lists[l])
        grow = len(ids) < max_lists
        r = rng.random()

        def rb():
            return rng.choice([NONE_V] + list(range(-n - 3, n + 4)))

        if not grow or r < 0.30:
            if rng.random() < 0.15:
                op, args = "iter", [l]
            elif rng.random() < 0.1:
                op, args = "len", [l]
            else:
                op, args = "index", [l, rng.randint(-n - 2, n + 1)]
        elif r < 0.42:
            op, args = "map", [l, nf + 1]
        elif r < 0.50:
            k = n if rng.random() < 0.8 else n + rng.choice([-1, 1, 2])
            k = max(k, 0)
            op, args = "map_each", [l, nf + 1, k]
        elif r < 0.68:
            op, args = "slice", [l, rb(), rb(), rng.choice([NONE_V, -3, -2, -1, 1, 2, 3, 0])]
        elif r < 0.76:
            k = rng.randint(0, 6)
            lo, hi = (-n, n - 1) if rng.random() < 0.85 else (-n - 1, n)
            idx = [rng.randint(lo, hi) for _ in range(k)] if n > 0 else []
            op, args = "fancy", [l, idx]
        elif r < 0.83:
            k = rng.choice([-1, 0, 1, 2, 3])
            if n * max(k, 0) > max_len:
                k = 1
            op, args = "repeat", [l, k]
        elif r < 0.90:
            b = rng.choice(ids)
            if n + len(m.lists[b]) > max_len:
                op, args = "copy", [l]
            else:
                op, args = "concat", [l, b]
        elif r < 0.95:
            k = rng.randint(0, 3)
            op, args = "concat_plain", [l, k, PLAIN_BASE + nb + 1]
        else:
            op, args = "copy", [l]
        obs = m.step(op, args)
        if "err" not in obs:
            if op == "map":
                nf += 1
            elif op == "map_each":
                nf += args[2]
            elif op == "concat_plain":
                nb += args[1]
        events.append({"op": op, "args": args, "obs": obs})
    return {"init": n0, "ctor": ctor, "events": events}
