"""Adapter for Graphs.tla: every query of menpo.shape.graph against the declarative answers."""
import numpy as np
from scipy.sparse import csr_matrix


def _wt(a, b):
    lo, hi = min(a, b), max(a, b)
    return [1, 2, 3, 5][(lo * 3 + hi * 5 + lo * hi) % 4]


def _pts(n):
    return np.array([[float(v), float(v * v) + 0.5] for v in range(n)])


def _mask_key(k):
    k = k.strip("{}").strip()
    return tuple(int(x) for x in k.split(",")) if k else ()


def _fn(d):
    return {int(k): v for k, v in d.items()}


def _valid_path(path, s, t, edges_dir):
    if not path or path[0] != s or path[-1] != t or len(set(path)) != len(path):
        return False
    return all((int(a), int(b)) in edges_dir for a, b in zip(path[:-1], path[1:]))


def _common(g, o, directed, bad, label):
    n = o["n"]
    E = [tuple(e) for e in o["edges"]]
    edir = set(E) if directed else set(E) | {(b, a) for a, b in E}
    got = [tuple(int(x) for x in e) for e in np.asarray(g.edges).reshape(-1, 2).tolist()]
    if sorted(got) != sorted(E) or len(got) != len(set(got)) or g.n_edges != len(E):
        bad.append((label + "edges are not exactly the edge set the graph was built from (each edge once)", {"got": got, "want": E}, None))
    if g.n_vertices != n or list(g.vertices) != list(range(n)):
        bad.append((label + "n_vertices / vertices wrong", {}, None))
    A = g.adjacency_matrix.toarray()
    want_A = np.zeros((n, n), dtype=bool)
    for a, b in edir:
        want_A[a, b] = True
    if not np.array_equal(A != 0, want_A):
        bad.append((label + "adjacency matrix does not match the edges", {}, None))
    if sorted(int(v) for v in g.isolated_vertices()) != sorted(o["iso"]) or g.has_isolated_vertices() != bool(o["iso"]):
        bad.append((label + "isolated vertices wrong", {"got": g.isolated_vertices(), "want": o["iso"]}, None))
    al = g.get_adjacency_list()
    for v in range(n):
        if sorted(int(x) for x in al[v]) != sorted(b for a, b in edir if a == v):
            bad.append((label + "adjacency list wrong", {"vertex": v}, None))
            break
    for a in range(n):
        for b in range(n):
            if bool(g.is_edge(a, b)) != ((a, b) in edir):
                bad.append((label + "is_edge wrong", {"pair": [a, b]}, None))
                return edir
    if bool(g.has_cycles()) != o["cyc"]:
        bad.append((label + "has_cycles wrong", {"got": bool(g.has_cycles()), "want": o["cyc"], "edges": E}, None))
    dist = {int(k): _fn(v) for k, v in o["dist"].items()}
    npaths = {int(k): _fn(v) for k, v in o["npaths"].items()} if o["npaths"] else None     # None: above the path-counting scope
    for s in range(n):
        for t in range(n):
            if s == t:
                continue
            for method in ("bfs", "dfs"):
                p = [int(x) for x in g.find_path(s, t, method=method)]
                if dist[s][t] < 0:
                    if p != []:
                        bad.append((label + "find_path returns a path between unconnected vertices", {"s": s, "t": t, "got": p}, None))
                elif not _valid_path(p, s, t, edir):
                    bad.append((label + "find_path does not return a valid simple path", {"s": s, "t": t, "got": p, "method": method}, None))
            allp = g.find_all_paths(s, t) if npaths is not None else []
            if npaths is not None and (len(allp) != npaths[s][t] or g.n_paths(s, t) != npaths[s][t] or len({tuple(p) for p in allp}) != len(allp) or not all(
                    _valid_path([int(x) for x in p], s, t, edir) for p in allp)):
                bad.append((label + "find_all_paths / n_paths wrong", {"s": s, "t": t, "got": len(allp), "want": npaths[s][t]}, None))
            # unweighted shortest path: route realises the BFS distance
            route, cost = g.find_shortest_path(s, t, unweighted=True)
            route = [int(x) for x in route]
            if dist[s][t] < 0:
                if route != [] or not np.isinf(cost):
                    bad.append((label + "shortest path between unconnected vertices", {"s": s, "t": t}, None))
            else:
                if not _valid_path(route, s, t, edir) or len(route) - 1 != dist[s][t]:
                    bad.append((label + "unweighted shortest route is not a shortest path", {"s": s, "t": t, "got": route, "want_len": dist[s][t]}, None))
                elif cost != dist[s][t]:
                    acc = sum(dist[s][v] for v in route[:-1])
                    kind = "shortest_path_cost_accumulated" if cost == acc else None
                    bad.append((label + "shortest path cost is not the length of the route", {"s": s, "t": t, "route": route, "got": cost, "want": dist[s][t]}, kind))
    return edir


def _weighted(cls, o, directed):
    n = o["n"]
    A = np.zeros((n, n))
    for a, b in o["edges"]:
        A[a, b] = _wt(a, b)
        if not directed:
            A[b, a] = _wt(a, b)
    return cls(csr_matrix(A))


def _check_weight_forms(cls, o, directed, bad, label):
    """the same weighted adjacency (weights that are not whole numbers) in the documented forms - a dense ndarray (float64,
    float32) or a csr matrix: the graph keeps the weights it was given"""
    n = o["n"]
    A = np.zeros((n, n))
    for a, b in o["edges"]:
        A[a, b] = _wt(a, b) * 0.5 + 0.25
        if not directed:
            A[b, a] = A[a, b]
    for fname, M in (("a dense float64 array", A.copy()), ("a dense float32 array", A.astype(np.float32)), ("a csr matrix", csr_matrix(A))):
        try:
            g = cls(M)
            got = np.asarray(g.adjacency_matrix.todense(), dtype=float)
        except Exception as e:
            bad.append((label + "a weighted adjacency given as %s is refused (%s)" % (fname, type(e).__name__), {"msg": str(e)[:100]}, None))
            continue
        if got.shape != A.shape or not np.allclose(got, A, rtol=0, atol=1e-6):
            bad.append((label + "a weighted adjacency given as %s does not keep its weights (truncated / dropped edges?)" % fname, {}, None))
            continue
        for a, b in o["edges"][:3]:
            if not bool(g.is_edge(a, b)):
                bad.append((label + "an edge of weight %.2f given through %s is not an edge" % (A[a, b], fname), {"edge": [a, b]}, None))
                break


def _check_signed(cls, o, directed, bad, label):
    """an edge is an edge whatever the sign of its weight: edge set, edge tests, adjacency lists, neighbour relations"""
    n = o["n"]
    A = np.zeros((n, n))
    for a, b in o["edges"]:
        w = _wt(a, b) * (-1.0 if (a + b) % 2 else 1.0)
        A[a, b] = w
        if not directed:
            A[b, a] = w
    g = cls(csr_matrix(A))
    E = [tuple(e) for e in o["edges"]]
    edir = set(E) if directed else set(E) | {(b, a) for a, b in E}
    got = sorted(tuple(int(x) for x in e) for e in np.asarray(g.edges).reshape(-1, 2).tolist())
    if got != sorted(E) or g.n_edges != len(E):
        bad.append((label + "edges of a graph with negative weights are not the edge set it was built from", {"got": got, "want": sorted(E)}, None))
    al = g.get_adjacency_list()
    for a in range(n):
        if sorted(int(x) for x in al[a]) != sorted(b for x, b in edir if x == a):
            bad.append((label + "adjacency list wrong with negative weights", {"vertex": a}, None))
            break
        for b in range(n):
            if bool(g.is_edge(a, b)) != ((a, b) in edir):
                bad.append((label + "is_edge disagrees with the edge set when weights are negative", {"pair": [a, b], "weight": A[a, b]}, None))
                return
    if sorted(int(v) for v in g.isolated_vertices()) != sorted(o["iso"]):
        bad.append((label + "isolated vertices wrong with negative weights", {}, None))


def _check_weighted(g, o, directed, bad, label):
    n = o["n"]
    E = [tuple(e) for e in o["edges"]]
    edir = set(E) if directed else set(E) | {(b, a) for a, b in E}
    wd = {int(k): _fn(v) for k, v in o["wdist"].items()}
    for s in range(n):
        for t in range(n):
            if s == t:
                continue
            route, cost = g.find_shortest_path(s, t)
            route = [int(x) for x in route]
            if wd[s][t] < 0:
                if route != [] or not np.isinf(cost):
                    bad.append((label + "weighted shortest path between unconnected vertices", {"s": s, "t": t}, None))
                continue
            if not _valid_path(route, s, t, edir):
                bad.append((label + "weighted shortest route is not a valid path", {"s": s, "t": t, "got": route}, None))
                continue
            w = sum(_wt(a, b) for a, b in zip(route[:-1], route[1:]))
            if w != wd[s][t]:
                bad.append((label + "weighted shortest route is not a minimum-cost route", {"s": s, "t": t, "route": route, "cost_of_route": w, "minimum": wd[s][t]}, None))
            elif abs(cost - wd[s][t]) > 1e-9:
                acc = sum(wd[s][v] for v in route[:-1])
                kind = "shortest_path_cost_accumulated" if abs(cost - acc) < 1e-9 else None
                bad.append((label + "reported shortest path cost is not the cost of the route", {"s": s, "t": t, "route": route, "got": cost, "want": wd[s][t]}, kind))


def _check_orders(cls, o, directed, bad, label):
    """query histories on one object: each answer is a function of the graph alone"""
    n = o["n"]
    wd = {int(k): _fn(v) for k, v in o["wdist"].items()}
    hd = {int(k): _fn(v) for k, v in o["dist"].items()}

    def want(tbl):
        return np.array([[np.inf if tbl[s][t] < 0 else float(tbl[s][t]) for t in range(n)] for s in range(n)])

    for order in o["orders"]:
        g = _weighted(cls, o, directed)
        for step, q in enumerate(order):
            if q in ("p", "m", "q"):
                # queries whose answers are checked elsewhere; here they only have to leave the graph alone
                try:
                    if q == "p":
                        for s in range(n):
                            for t in range(n):
                                if s != t:
                                    g.find_path(s, t)
                    elif q == "m":
                        if not directed and o.get("mst", -1) >= 0:
                            g.minimum_spanning_tree(0)
                    else:
                        g.n_edges, g.n_vertices, g.has_cycles(), g.has_isolated_vertices(), g.isolated_vertices(), g.get_adjacency_list()
                        if hasattr(g, "edges"):
                            g.edges
                        for v in range(n):
                            g.n_paths(0, v) if n <= 5 else None
                except Exception as e:
                    bad.append((label + "query %r raised %s" % (q, type(e).__name__), {"order": order, "step": step, "msg": str(e)[:100]}, None))
                    break
                continue
            tbl = wd if q == "w" else hd
            D = np.asarray(g.find_all_shortest_paths(unweighted=(q == "u"))[0], dtype=float)
            if D.shape != (n, n) or not np.array_equal(D, want(tbl)):
                bad.append((label + "all-pairs %s distances depend on the queries asked before" % ("weighted" if q == "w" else "hop-count"),
                            {"order": order, "step": step}, None))
                break
            stop = False
            for s in range(n):
                for t in range(n):
                    if s == t or tbl[s][t] < 0:
                        continue
                    route = [int(x) for x in g.find_shortest_path(s, t, unweighted=(q == "u"))[0]]
                    c = sum(_wt(a, b) for a, b in zip(route[:-1], route[1:])) if q == "w" else len(route) - 1
                    if c != tbl[s][t]:
                        bad.append((label + "%s shortest route depends on the queries asked before" % ("weighted" if q == "w" else "hop-count"),
                                    {"order": order, "step": step, "s": s, "t": t, "route": route}, None))
                        stop = True
                        break
                if stop:
                    break
            if stop:
                break


def _check_masks(pg, o, directed, bad, label, cls_name):
    n = o["n"]
    P = _pts(n)
    for key, exp in o["masks"].items():
        keep = _mask_key(key)
        m = np.zeros(n, dtype=bool)
        m[list(keep)] = True
        r = pg.from_mask(m)
        got = sorted(tuple(int(x) for x in e) for e in np.asarray(r.edges).reshape(-1, 2).tolist())
        want = sorted(tuple(e) for e in exp)
        if type(r).__name__ != cls_name:
            bad.append((label + "from_mask changes the class", {"got": type(r).__name__}, None))
        if got != want:
            bad.append((label + "from_mask is not the induced subgraph renumbered in order", {"mask": list(keep), "got": got, "want": want}, None))
        elif not np.array_equal(r.points, P[list(keep)]):
            bad.append((label + "from_mask does not carry the points of the surviving vertices", {"mask": list(keep)}, None))
        if r.n_vertices != len(keep):
            bad.append((label + "from_mask vertex count", {"mask": list(keep)}, None))
    if not np.array_equal(pg.points, P):
        bad.append((label + "from_mask modified the receiver", {}, None))


def _edge_forms(build, E, n, ref, bad, label, undirected):
    """the same edge list in every legal form of the array: narrow / unsigned integer types wide enough for the vertex ids,
    a list of lists, rows in another order (and, undirected, each edge listed in both directions) - always the same graph"""
    A0 = np.asarray(ref.adjacency_matrix.todense())
    forms = [("int32", E.astype(np.int32)), ("int16", E.astype(np.int16)), ("uint16", E.astype(np.uint16)), ("uint32", E.astype(np.uint32)),
             ("list of lists", E.tolist()), ("rows reversed", E[::-1].copy())]
    if n <= 256:
        forms.append(("uint8", E.astype(np.uint8)))
    if n <= 128:
        forms.append(("int8", E.astype(np.int8)))
    if undirected and len(E):
        forms.append(("both directions listed", np.vstack([E, E[:, ::-1]])))
    if not len(E):
        forms = [f for f in forms if f[0] != "list of lists"]
    for name, ee in forms:
        try:
            g2 = build(ee)
            A = np.asarray(g2.adjacency_matrix.todense())
        except Exception as e:
            bad.append((label + "a legal edge list given as %s is refused / fails" % name, {"n": n, "error": "%s: %s" % (type(e).__name__, str(e)[:100])}, None))
            return
        if A.shape != A0.shape or not np.array_equal(A != 0, A0 != 0) or g2.n_edges != ref.n_edges:
            bad.append((label + "the edge list given as %s builds another graph" % name, {"n": n}, None))
            return


def check_ug(o):
    import menpo.shape as ms

    bad = []
    n = o["n"]
    E = np.array(o["edges"], dtype=int).reshape(-1, 2)
    g = ms.UndirectedGraph.init_from_edges(E, n)
    pg = ms.PointUndirectedGraph.init_from_edges(_pts(n), E)
    for gg, label in ((g, "UndirectedGraph: "), (pg, "PointUndirectedGraph: ")):
        _common(gg, o, False, bad, label)
        nb = _fn(o["nbr"])
        for v in range(n):
            if sorted(int(x) for x in gg.neighbours(v)) != sorted(nb[v]) or gg.n_neighbours(v) != len(nb[v]):
                bad.append((label + "neighbours wrong", {"vertex": v}, None))
                break
        if bool(gg.is_tree()) != o["tree"]:
            bad.append((label + "is_tree wrong", {"got": bool(gg.is_tree()), "want": o["tree"]}, None))
    _edge_forms(lambda ee: ms.UndirectedGraph.init_from_edges(ee, n), E, n, g, bad, "UndirectedGraph: ", True)
    _edge_forms(lambda ee: ms.PointUndirectedGraph.init_from_edges(_pts(n), ee), E, n, g, bad, "PointUndirectedGraph: ", True)
    _check_masks(pg, o, False, bad, "PointUndirectedGraph: ", "PointUndirectedGraph")
    if len(E):
        wg = _weighted(ms.UndirectedGraph, o, False)
        _check_weighted(wg, o, False, bad, "UndirectedGraph (weighted): ")
        _check_orders(ms.UndirectedGraph, o, False, bad, "UndirectedGraph (weighted): ")
        _check_signed(ms.UndirectedGraph, o, False, bad, "UndirectedGraph (signed weights): ")
        _check_weight_forms(ms.UndirectedGraph, o, False, bad, "UndirectedGraph: ")
        if o["mst"] >= 0:
            for root in range(n):
                t = wg.minimum_spanning_tree(root)
                te = [tuple(int(x) for x in e) for e in np.asarray(t.edges).reshape(-1, 2).tolist()]
                w = sum(_wt(a, b) for a, b in te)
                und = {tuple(sorted(e)) for e in te}
                ok = len(te) == n - 1 and und <= {tuple(sorted(e)) for e in o["edges"]} and t.root_vertex == root
                if ok:  # every vertex reachable from the root along the tree's directed edges
                    seen, stack = {root}, [root]
                    while stack:
                        x = stack.pop()
                        for a, b in te:
                            if a == x and b not in seen:
                                seen.add(b)
                                stack.append(b)
                    ok = len(seen) == n
                if not ok:
                    bad.append(("minimum_spanning_tree is not a spanning tree rooted as asked", {"root": root, "edges": te}, None))
                elif w != o["mst"]:
                    bad.append(("minimum_spanning_tree is not of minimum weight", {"root": root, "got": w, "want": o["mst"]}, None))
    return bad


def check_dg(o):
    import menpo.shape as ms

    bad = []
    n = o["n"]
    E = np.array(o["edges"], dtype=int).reshape(-1, 2)
    g = ms.DirectedGraph.init_from_edges(E, n)
    pg = ms.PointDirectedGraph.init_from_edges(_pts(n), E)
    ch, pa = _fn(o["children"]), _fn(o["parents"])
    for gg, label in ((g, "DirectedGraph: "), (pg, "PointDirectedGraph: ")):
        _common(gg, o, True, bad, label)
        for v in range(n):
            if sorted(int(x) for x in gg.children(v)) != sorted(ch[v]) or gg.n_children(v) != len(ch[v]) or \
               sorted(int(x) for x in gg.parents(v)) != sorted(pa[v]) or gg.n_parents(v) != len(pa[v]):
                bad.append((label + "children / parents wrong", {"vertex": v}, None))
                break
    _edge_forms(lambda ee: ms.DirectedGraph.init_from_edges(ee, n), E, n, g, bad, "DirectedGraph: ", False)
    _edge_forms(lambda ee: ms.PointDirectedGraph.init_from_edges(_pts(n), ee), E, n, g, bad, "PointDirectedGraph: ", False)
    # the tree constructors accept exactly the <<edge set, root>> pairs that are rooted trees - and refuse the others with an error
    if n >= 2 and "rooted" in o:
        rooted = set(int(r) for r in o["rooted"])
        for r in range(n):
            for label, build in (("Tree", lambda: ms.Tree.init_from_edges(E.copy(), n, r)),
                                 ("PointTree", lambda: ms.PointTree.init_from_edges(_pts(n), E.copy(), r))):
                try:
                    t = build()
                    ok = True
                except ValueError:
                    ok = False
                except Exception as e:
                    bad.append(("%s constructor fails with %s instead of accepting / refusing the edge set" % (label, type(e).__name__), {"root": r, "msg": str(e)[:100]}, None))
                    return bad
                if ok != (r in rooted):
                    bad.append(("%s constructor %s" % (label, "refuses a rooted tree" if not ok else "accepts an edge set that is not a tree rooted at the given vertex"),
                                {"root": r, "edges": o["edges"]}, None))
                    return bad
    _check_masks(pg, o, True, bad, "PointDirectedGraph: ", "PointDirectedGraph")
    if len(E):
        P = _pts(n)
        rl = pg.relative_locations()
        ee = np.asarray(pg.edges).reshape(-1, 2)
        if not np.array_equal(rl, P[ee[:, 1]] - P[ee[:, 0]]):
            bad.append(("relative_locations wrong", {}, None))
        _check_weighted(_weighted(ms.DirectedGraph, o, True), o, True, bad, "DirectedGraph (weighted): ")
        _check_orders(ms.DirectedGraph, o, True, bad, "DirectedGraph (weighted): ")
        _check_signed(ms.DirectedGraph, o, True, bad, "DirectedGraph (signed weights): ")
        _check_weight_forms(ms.DirectedGraph, o, True, bad, "DirectedGraph: ")
    return bad


def check_tree(o):
    import menpo.shape as ms

    bad = []
    n, root = o["n"], o["root"]
    E = np.array(o["edges"], dtype=int).reshape(-1, 2)
    par, dep, ch = _fn(o["parent"]), _fn(o["depth"]), _fn(o["children"])
    # the same tree with edge weights of either sign, chosen so that the weights leaving every vertex with two or more children
    # CANCEL (+1 ... +1, -(k-1)): an edge is an edge whatever its weight, and a vertex with children is not a leaf
    W = np.zeros((n, n))
    for v in range(n):
        kids = sorted(ch[v])
        for i, w in enumerate(kids):
            W[v, w] = (-(len(kids) - 1.0) if i == len(kids) - 1 else 1.0) if len(kids) > 1 else -2.5
    for t, label in ((ms.Tree.init_from_edges(E, n, root), "Tree: "), (ms.PointTree.init_from_edges(_pts(n), E, root), "PointTree: "),
                     (ms.Tree(csr_matrix(W), root), "Tree (signed weights that cancel per vertex): "),
                     (ms.PointTree(_pts(n), W.copy(), root), "PointTree (signed weights that cancel per vertex): ")):
        if t.root_vertex != root:
            bad.append((label + "root wrong", {}, None))
        if not t.is_tree() or t.has_cycles():
            bad.append((label + "a tree does not pass its own is_tree / has_cycles", {}, None))
        for v in range(n):
            p = t.parent(v)
            if (p is None) != (par[v] < 0) or (p is not None and int(p) != par[v]):
                bad.append((label + "parent wrong", {"vertex": v, "got": p, "want": par[v]}, None))
            if sorted(int(x) for x in t.children(v)) != sorted(ch[v]) or t.n_children(v) != len(ch[v]):
                bad.append((label + "children wrong", {"vertex": v}, None))
            # a tree is a directed graph: the inherited parents / edge tests agree with the tree's own relations
            want_par = [] if par[v] < 0 else [par[v]]
            got_par = list(t.parents(v))
            if got_par != want_par or t.n_parents(v) != len(want_par):
                bad.append((label + "parents() / n_parents() disagree with parent()", {"vertex": v, "got": got_par, "want": want_par}, None))
            for w in range(n):
                if bool(t.is_edge(v, w)) != (w in ch[v]):
                    bad.append((label + "is_edge disagrees with children", {"pair": [v, w]}, None))
                    break
            if t.depth_of_vertex(v) != dep[v]:
                bad.append((label + "depth_of_vertex wrong", {"vertex": v, "got": t.depth_of_vertex(v), "want": dep[v]}, None))
            if bool(t.is_leaf(v)) != (v in o["leaves"]):
                bad.append((label + "is_leaf wrong", {"vertex": v}, None))
        if sorted(int(x) for x in t.leaves) != sorted(o["leaves"]) or t.n_leaves != len(o["leaves"]):
            bad.append((label + "leaves wrong", {"got": t.leaves, "want": o["leaves"]}, None))
        md = max(dep.values())
        if int(t.maximum_depth) != md:
            bad.append((label + "maximum_depth inconsistent with depth_of_vertex / parent relation", {"got": int(t.maximum_depth), "want": md}, None))
        for d in range(md + 2):
            want = sorted(v for v in range(n) if dep[v] == d)
            if sorted(int(x) for x in t.vertices_at_depth(d)) != want or t.n_vertices_at_depth(d) != len(want):
                bad.append((label + "vertices_at_depth inconsistent with depth_of_vertex", {"depth": d, "got": t.vertices_at_depth(d), "want": want}, None))
        if bad:
            return bad
    pt = ms.PointTree.init_from_edges(_pts(n), E, root)
    _edge_forms(lambda ee: ms.Tree.init_from_edges(ee, n, root), E, n, pt, bad, "Tree: ", False)
    _edge_forms(lambda ee: ms.PointTree.init_from_edges(_pts(n), ee, root), E, n, pt, bad, "PointTree: ", False)
    P = _pts(n)
    for key, exp in o["masks"].items():
        keep = _mask_key(key)
        m = np.zeros(n, dtype=bool)
        m[list(keep)] = True
        try:
            r = pt.from_mask(m)
            err = False
        except ValueError:
            err = True
        if err != exp["err"]:
            bad.append(("PointTree.from_mask: %s" % ("accepted a mask that cannot give a tree" if exp["err"] else "refused a valid mask"),
                        {"mask": list(keep), "root": root}, None))
            continue
        if err:
            continue
        got = sorted(tuple(int(x) for x in e) for e in np.asarray(r.edges).reshape(-1, 2).tolist())
        if got != sorted(tuple(e) for e in exp["edges"]) or r.root_vertex != exp["root"]:
            bad.append(("PointTree.from_mask does not keep exactly what stays connected to the root (renumbered)",
                        {"mask": list(keep), "got": got, "want": exp["edges"], "root": [int(r.root_vertex), exp["root"]]}, None))
        elif not np.array_equal(r.points, P[sorted(exp["keep"])]):
            bad.append(("PointTree.from_mask does not carry the right points", {"mask": list(keep)}, None))
    return bad


def check_grid(o):
    """the predefined grid constructors: row-major numbering, spacing, the 4-connected lattice (both directions when directed)"""
    import menpo.shape as ms
    from menpo.image import Image

    bad = []
    h, w, n = o["h"], o["w"], o["n"]
    und = {tuple(sorted(e)) for e in o["edges"]}
    nb = _fn(o["nbr"])
    co = _fn(o["coords"])
    for spacing, sr, sc in ((None, 1, 1), (2, 2, 2), ((2, 3), 2, 3)):
        P = np.array([[co[v][0] * sr, co[v][1] * sc] for v in range(n)], dtype=float)
        for cls, directed in ((ms.PointUndirectedGraph, False), (ms.PointDirectedGraph, True)):
            label = "%s.init_2d_grid(%r, spacing=%r): " % (cls.__name__, (h, w), spacing)
            try:
                g = cls.init_2d_grid((h, w), spacing=spacing)
                A = np.asarray(g.adjacency_matrix.todense()) != 0
            except Exception as e:
                bad.append((label + "raised %s" % type(e).__name__, {"msg": str(e)[:100]}, None))
                continue
            if g.points.shape != P.shape or not np.array_equal(g.points, P):
                bad.append((label + "points are not the row-major grid with the requested spacing", {}, None))
                continue
            got = {(int(i), int(j)) for i, j in zip(*np.nonzero(A))}
            want = {(a, b) for a, b in und} | {(b, a) for a, b in und}
            if got != want:
                bad.append((label + "adjacency is not the 4-connected lattice (symmetric: every lattice edge in both directions)",
                            {"missing": sorted(want - got)[:4], "extra": sorted(got - want)[:4]}, None))
                continue
            for v in range(n):
                if directed:
                    ok = sorted(int(x) for x in g.children(v)) == sorted(nb[v]) and sorted(int(x) for x in g.parents(v)) == sorted(nb[v])
                else:
                    ok = sorted(int(x) for x in g.neighbours(v)) == sorted(nb[v])
                if not ok or any(bool(g.is_edge(v, u)) != (u in nb[v]) for u in range(n)):
                    bad.append((label + "neighbours / edge tests disagree with the lattice", {"vertex": v}, None))
                    break
            if not directed:
                ge = {tuple(sorted(int(x) for x in e)) for e in np.asarray(g.edges).reshape(-1, 2).tolist()}
                if ge != und or g.n_edges != len(und):
                    bad.append((label + "edges / n_edges are not the lattice edges", {}, None))
    # a depth image gives the same lattice on 3-D points (row, column, depth)
    depth = np.arange(n, dtype=float).reshape(1, h, w) * 0.5 + 1.0
    for cls in (ms.PointUndirectedGraph, ms.PointDirectedGraph):
        label = "%s.init_from_depth_image(%r): " % (cls.__name__, (h, w))
        try:
            g = cls.init_from_depth_image(Image(depth.copy()))
            A = np.asarray(g.adjacency_matrix.todense()) != 0
        except Exception as e:
            bad.append((label + "raised %s" % type(e).__name__, {"msg": str(e)[:100]}, None))
            continue
        P3 = np.array([[co[v][0], co[v][1], depth[0, co[v][0], co[v][1]]] for v in range(n)], dtype=float)
        got = {(int(i), int(j)) for i, j in zip(*np.nonzero(A))}
        want = {(a, b) for a, b in und} | {(b, a) for a, b in und}
        if g.points.shape != P3.shape or not np.array_equal(g.points, P3) or got != want:
            bad.append((label + "is not the lattice over (row, column, depth) points", {}, None))
    return bad


def check_predef(o):
    """the predefined graph builders (empty / star / complete / chain, open and closed) for every graph class they accept"""
    import menpo.shape as ms
    from menpo.shape import graph_predefined as gp

    bad = []
    n = o["n"]
    P = _pts(n)
    shape = ms.PointCloud(P)
    want_dir = {tuple(e) for e in o["edges"]}                 # directed edge set of the specification
    want_und = {tuple(sorted(e)) for e in o["edges"]}
    kind = o["shape"]
    classes = [("PointUndirectedGraph", False), ("UndirectedGraph", False), ("PointDirectedGraph", True), ("DirectedGraph", True)]
    if o["is_tree"]:
        classes += [("PointTree", True), ("Tree", True)]
    for cname, directed in classes:
        cls = getattr(ms, cname)
        label = "%s_graph(n=%d%s, graph_cls=%s): " % (kind, n, {"chain": ", closed=%r" % o["closed"], "star": ", root=%d" % o["root"]}.get(kind, ""), cname)
        try:
            if kind == "chain":
                g = gp.chain_graph(shape, graph_cls=cls, closed=o["closed"])
            elif kind == "star":
                g = gp.star_graph(shape, o["root"], graph_cls=cls)
            elif kind == "complete":
                g = gp.complete_graph(shape, graph_cls=cls)
            else:
                if cname not in ("PointUndirectedGraph", "UndirectedGraph"):
                    continue
                g = gp.empty_graph(shape, return_pointgraph=cname.startswith("Point"))
        except Exception as e:
            bad.append((label + "raised %s" % type(e).__name__, {"msg": str(e)[:100]}, None))
            continue
        A = np.asarray(g.adjacency_matrix.todense()) != 0
        got = {(int(i), int(j)) for i, j in zip(*np.nonzero(A))}
        want = want_dir if directed else ({(a, b) for a, b in want_und} | {(b, a) for a, b in want_und})
        if got != want:
            bad.append((label + "edges are not those of the named graph", {"missing": sorted(want - got)[:4], "extra": sorted(got - want)[:4]}, None))
            continue
        if hasattr(g, "points") and not np.array_equal(g.points, P):
            bad.append((label + "does not carry the points of the shape", {}, None))
        if kind == "chain" and directed and not o["is_tree"] and bool(g.has_cycles()) != o["closed"]:
            bad.append((label + "has_cycles() is %r" % bool(g.has_cycles()), {}, None))
    return bad


CHECKS = {"ug": check_ug, "dg": check_dg, "tree": check_tree, "grid": check_grid, "predef": check_predef}


def run_case(o):
    return CHECKS[o["kind"]](o)
