"""Adapter for Labels.tla (labelled graph histories) and Trace_Labels.tla (labeller contract events).

Run as a script it replays a behaviour file and writes the OBSERVED projection of every step, so that
the same replay can be executed in separate interpreters with different PYTHONHASHSEED values and
the outputs compared byte for byte (determinism clause of C15)."""
import json
import re
import sys

import numpy as np


def coords(tags):
    return np.array([[float(t), float(2 * t + 1)] for t in tags]).reshape(-1, 2)


def build(g, by_indices=False):
    from collections import OrderedDict

    from menpo.shape import LabelledPointUndirectedGraph

    masks = OrderedDict((n, np.array(m, dtype=bool)) for n, m in g["labels"])
    E = np.array(sorted(g["edges"]), dtype=int).reshape(-1, 2)
    P = coords(g["pts"])
    if by_indices:
        # the other public constructor: labels given as index arrays, connectivity as an adjacency matrix
        A = np.zeros((len(P), len(P)), dtype=int)
        for a, b in E:
            A[a, b] = A[b, a] = 1
        idx = OrderedDict((n, np.nonzero(m)[0]) for n, m in masks.items())
        return LabelledPointUndirectedGraph.init_from_indices_mapping(P, A, idx)
    obj = LabelledPointUndirectedGraph.init_from_edges(P, E, masks)
    # what was handed to the constructor stays the caller's: the buffers are reused for something else straight away (mask buffers
    # inverted, the mapping emptied, coordinates and edge list overwritten) - the group must not follow
    for m in list(masks.values()):
        np.logical_not(m, out=m)
    masks.clear()
    P[...] = -777.0
    E[...] = 0
    return obj


def project(obj):
    tags = [int(round(x)) for x in obj.points[:, 0]]
    edges = sorted(sorted(int(v) for v in e) for e in np.asarray(obj.edges).reshape(-1, 2).tolist())
    labels = [[n, [bool(b) for b in obj._labels_to_masks[n]]] for n in obj.labels] if hasattr(obj, "_labels_to_masks") else []
    return {"pts": tags, "edges": edges, "labels": labels}


def expected(g):
    return {"pts": list(g["pts"]), "edges": sorted(sorted(e) for e in g["edges"]), "labels": [[n, list(m)] for n, m in g["labels"]]}


def replay(hist):
    """returns (observations, first disagreement or None)"""
    obs = []
    cur = build(hist[0]["res"])
    p = project(cur)
    obs.append(p)
    if p != expected(hist[0]["res"]):
        return obs, {"step": 0, "what": "initial graph differs", "got": p, "want": expected(hist[0]["res"])}
    try:
        p2 = project(build(hist[0]["res"], by_indices=True))
    except Exception as e:
        p2 = "%s: %s" % (type(e).__name__, str(e)[:100])
    if p2 != expected(hist[0]["res"]):
        return obs, {"step": 0, "what": "the same graph built from index arrays (init_from_indices_mapping) differs", "got": p2, "want": expected(hist[0]["res"])}
    def warm(g):
        """ask every observer once: whatever an object memoises must not leak into the objects derived from it"""
        for l in list(g.labels):
            g.get_label(l)
            g.has_label(l) if hasattr(g, "has_label") else None
        g.n_labels, g.n_points

    for k, ev in enumerate(hist[1:], 1):
        op, arg = ev["op"], ev["arg"]
        last = k == len(hist) - 1          # (every transition is the last step of some emitted history)
        if last:
            warm(cur)
        before = project(cur)
        err = ""
        res = None
        try:
            if op == "with_labels":
                res = cur.with_labels(list(arg) if len(arg) > 1 else (arg[0] if k % 2 else [arg[0]]))
            elif op == "without_labels":
                a = sorted(arg)
                res = cur.without_labels(a if len(a) > 1 else (a[0] if k % 2 else a))
            elif op == "add_label":
                # the indices in every legal form: a sorted list, an index array counting from the end (numpy's negative indices),
                # an unsorted list
                ii = sorted(arg[1])
                npts = cur.n_points
                form = k % 3
                if form == 1 and all(i < npts for i in ii):
                    ii = np.array([i - npts for i in ii])
                elif form == 2:
                    ii = list(reversed(ii))
                res = cur.add_label(arg[0], ii)
            elif op == "remove_label":
                res = cur.remove_label(arg)
            elif op == "get_label":
                res = cur.get_label(arg)
        except (ValueError, KeyError, IndexError) as e:
            err = type(e).__name__
        except Exception as e:
            from harness.core import from_library

            if not from_library(e):
                raise
            err = "%s raised by menpo: %s" % (type(e).__name__, str(e)[:120])
        if project(cur) != before:
            return obs, {"step": k, "op": op, "arg": arg, "what": "the receiver was modified"}
        if err != ev["err"]:
            return obs, {"step": k, "op": op, "arg": arg, "what": "outcome %r, expected %r" % (err or "ok", ev["err"] or "ok")}
        if err:
            obs.append({"err": err})
            continue
        p = project(res)
        obs.append(p)
        want = expected(ev["res"])
        if op == "get_label":
            if type(res).__name__ != "PointUndirectedGraph":
                return obs, {"step": k, "op": op, "what": "get_label returned " + type(res).__name__}
            want["labels"] = []
        elif type(res).__name__ != "LabelledPointUndirectedGraph":
            return obs, {"step": k, "op": op, "what": "result class " + type(res).__name__}
        if p != want:
            return obs, {"step": k, "op": op, "arg": arg, "what": "result differs from the specification", "got": p, "want": want}
        if op != "get_label" and last:
            # reading each label of the RESULT gives that label's points of the result (not of the graph it was derived from)
            for l in res.labels:
                sub = res.get_label(l)
                m = np.asarray(res._labels_to_masks[l], dtype=bool)
                if sub.n_points != int(m.sum()) or not np.array_equal(sub.points, res.points[m]):
                    return obs, {"step": k, "op": op, "arg": arg, "what": "get_label(%r) on the result does not return the result's points under that label" % l}
        if op != "get_label":
            # independence: the new graph shares no mask / point buffer with the receiver
            if any(np.shares_memory(res._labels_to_masks[n], cur._labels_to_masks[m]) for n in res.labels for m in cur.labels) or \
                    np.shares_memory(res.points, cur.points):
                return obs, {"step": k, "op": op, "what": "result shares buffers with the receiver"}
            cur = res
    return obs, None


# ---------------------------------------------------------------- predefined labellers
def labellers():
    import menpo.landmark.labels as ll

    out = []
    for name in sorted(dir(ll)):
        f = getattr(ll, name)
        m = re.search(r"_(\d+)(?:_mirrored)?_to_", name)
        if callable(f) and m and hasattr(f, "group_label") and not name.startswith("bounding_box"):
            out.append((name, f, int(m.group(1))))
    return out


def _feeds():
    """what every labeller returns for its canonical input, by (n_points, n_dims): results of one labeller are legal inputs of another"""
    from menpo.shape import PointCloud

    out = {}
    for name, f, n_in in labellers():
        d = 3 if "3d" in name.lower() or "bu3dfe" in name else 2
        P = np.array([[float(3 * i), float(50 + 11 * i)] + ([float(-2 * i)] if d == 3 else []) for i in range(n_in)])
        try:
            r = f(PointCloud(P))
        except Exception:
            continue
        out.setdefault((r.n_points, d), []).append((name, r))
    return out


def labeller_event(name, f, n_in, feeds=None):
    """record what labeller f does to a tagged point set, for Trace_Labels"""
    import menpo.transform as mt
    from collections import OrderedDict
    from menpo.landmark.exceptions import LabellingError
    from menpo.shape import LabelledPointUndirectedGraph, PointCloud

    d = 3 if "3d" in name.lower() or "bu3dfe" in name else 2
    P = np.array([[float(i), float(1000 + 7 * i)] + ([float(-3 * i)] if d == 3 else []) for i in range(n_in)])
    ev = {"f": name, "n_in": n_in, "ok": True, "notes": []}
    keep = P.copy()
    pc = PointCloud(P)
    res, mapping = f(pc, return_mapping=True)
    out_pts = res.points
    idx = []
    for q in out_pts:
        hit = np.nonzero(np.all(P == q, axis=1))[0]
        idx.append(int(hit[0]) if len(hit) == 1 else -1)
    ev["idx"] = idx
    n_out = len(idx)
    if hasattr(res, "_labels_to_masks"):
        ev["masks"] = [[bool(b) for b in res._labels_to_masks[l]] for l in res.labels]
        ev["labels"] = list(res.labels)
    else:  # a TriMesh: labels exposed through the mapping
        ev["masks"] = [[(j in set(np.asarray(v).tolist())) for j in range(n_out)] for v in mapping.values()]
        ev["labels"] = list(mapping.keys())
    if hasattr(res, "edges"):
        ev["edges"] = [[int(a), int(b)] for a, b in np.asarray(res.edges).reshape(-1, 2).tolist()]
    else:
        ev["edges"] = sorted({tuple(sorted((int(t[i]), int(t[(i + 1) % 3])))) for t in res.trilist for i in range(3)})
        ev["edges"] = [list(e) for e in ev["edges"]]
    ev["untouched"] = bool(np.array_equal(P, keep) and np.array_equal(pc.points, keep))
    # the three accepted input kinds give the same result
    same = True
    r_arr = f(P.copy())
    lg = LabelledPointUndirectedGraph.init_with_all_label(P.copy(), np.zeros((n_in, n_in), dtype=int)) if False else None
    from scipy.sparse import csr_matrix
    lg = LabelledPointUndirectedGraph.init_with_all_label(P.copy(), csr_matrix((n_in, n_in), dtype=int))
    r_lg = f(lg)
    for r in (r_arr, r_lg):
        if type(r) is not type(res) or not np.array_equal(r.points, out_pts):
            same = False
        elif hasattr(res, "labels") and (r.labels != res.labels or any(
                not np.array_equal(r._labels_to_masks[l], res._labels_to_masks[l]) for l in res.labels)):
            same = False
    # ... and so does every other point-carrying class (a mesh whose triangles leave vertices unused, graphs, a tree), and the
    # result of any other labeller that has the right number of points: only the points count
    from menpo.shape import PointDirectedGraph, PointTree, PointUndirectedGraph, TriMesh

    others = []
    if n_in >= 4:
        others.append(("TriMesh", TriMesh(P.copy(), trilist=np.array([[0, 1, 2], [1, 2, 3]]))))
        others.append(("PointUndirectedGraph", PointUndirectedGraph.init_from_edges(P.copy(), np.array([[0, 1], [2, 3]]))))
        others.append(("PointDirectedGraph", PointDirectedGraph.init_from_edges(P.copy(), np.array([[1, 0], [2, 3]]))))
        others.append(("PointTree", PointTree.init_from_edges(P.copy(), np.array([[i, i + 1] for i in range(n_in - 1)]), 0)))
    for tag, obj in others:
        try:
            r = f(obj)
        except Exception as e:
            same = False
            ev["notes"].append("%s input: %s" % (tag, type(e).__name__))
            continue
        if type(r) is not type(res) or not np.array_equal(r.points, out_pts):
            same = False
            ev["notes"].append("%s input gives another result" % tag)
    for other, obj in (feeds or {}).get((n_in, d), []):
        try:
            r = f(obj)
            w = f(PointCloud(obj.points.copy()))
        except Exception as e:
            same = False
            ev["notes"].append("result of %s as input: %s" % (other, type(e).__name__))
            continue
        if type(r) is not type(w) or not np.array_equal(r.points, w.points) or (
                hasattr(w, "labels") and (r.labels != w.labels or any(not np.array_equal(r._labels_to_masks[l], w._labels_to_masks[l]) for l in w.labels))):
            same = False
            ev["notes"].append("result of %s as input gives another result than its bare points" % other)
    ev["same_for_all_input_kinds"] = same
    # commutes with a transform of the input
    T = mt.Affine(np.eye(d + 1) + np.triu(np.full((d + 1, d + 1), 0.25), 1))
    T.h_matrix[:d, d] = np.arange(1, d + 1)
    a = f(T.apply(pc))
    b = T.apply(res)
    comm = type(a) is type(b) and np.allclose(a.points, b.points, atol=1e-9)
    if comm and hasattr(a, "labels"):
        comm = a.labels == b.labels and all(np.array_equal(a._labels_to_masks[l], b._labels_to_masks[l]) for l in a.labels)
    ev["commutes"] = bool(comm)
    # wrong sizes are refused
    rej = []
    sizes = {n_in - 1, n_in + 1, 0, 1} | set(k[0] for k in (feeds or {}).keys()) | {x[2] for x in labellers()}
    for n in sorted(sizes):
        if n == n_in or n < 0:
            continue
        Q = np.array([[float(i), float(i * i)] + ([0.5] if d == 3 else []) for i in range(n)]).reshape(n, d)
        try:
            f(PointCloud(Q))
            rej.append(False)
        except LabellingError:
            rej.append(True)
        except Exception as e:  # refused all the same (the property does not name the exception class)
            rej.append(True)
            ev["notes"].append("n=%d: %s instead of LabellingError" % (n, type(e).__name__))
    ev["rejects_wrong_size"] = all(rej)
    return ev


def main(argv):
    """labels.py <behaviours.json> <out.json>: replay all behaviours, write observations"""
    behs = json.load(open(argv[1]))
    out = []
    for h in behs:
        obs, bad = replay(h)
        out.append({"obs": obs, "bad": bad})
    if len(argv) > 3 and argv[3] == "labellers":
        feeds = _feeds()
        evs = []
        for x in labellers():
            try:
                evs.append(labeller_event(*x, feeds=feeds))
            except Exception as e:       # a labeller that falls over on a legal input: an event that satisfies no clause
                evs.append({"f": x[0], "n_in": x[2], "ok": False, "idx": [], "masks": [], "edges": [], "labels": [], "untouched": False,
                            "commutes": False, "rejects_wrong_size": False, "same_for_all_input_kinds": False,
                            "notes": ["%s raised while the labeller was exercised: %s" % (type(e).__name__, str(e)[:160])]})
    else:
        evs = []
    with open(argv[2], "w") as f:
        json.dump({"histories": out, "labellers": evs}, f, sort_keys=False)


if __name__ == "__main__":
    import os, warnings

    warnings.filterwarnings("ignore")
    sys.path.insert(0, os.environ.get("MENPO_REPO", "/repo"))
    sys.path.insert(0, os.path.dirname(os.path.dirname(os.path.dirname(os.path.abspath(__file__)))))
    main(sys.argv)
