"""Adapter for ApplyCache.tla: replay apply / in-place-write histories on real transforms."""
import numpy as np

VALS = {
    1: np.array([[1.0, 1.0], [3.0, 1.0], [2.0, 2.5]]),
    2: np.array([[0.5, 0.5], [3.5, 2.0], [1.0, 3.0]]),
    90: np.array([[1.0, 1.0], [9.0, 9.0], [2.0, 2.5]]),
}
VALS[11] = VALS[1] + np.array([[1e-9, 0.0], [0.0, -1e-9], [1e-10, 0.0]])
S = np.array([[0.0, 0], [4, 0], [4, 3], [0, 4], [2, 2]])
T = np.array([[0.0, 0], [5, 1], [4, 4], [-1, 3], [2, 1]])
TRIS = np.array([[0, 1, 4], [1, 2, 4], [2, 3, 4], [3, 0, 4]])
KINDS = ["PiecewiseAffine", "PythonPWA", "ThinPlateSplines", "Affine", "Chain", "AlignmentSimilarity", "Homogeneous", "WithDimsList", "WithDimsSlice",
         "ThinPlateSplines(R2LogRRBF)"]
# whole-number points inside the source domain: the same VALUES as int64 / int32 / float32 arrays, batched or not
WHOLE = np.array([[1, 1], [3, 1], [2, 2], [1, 2], [2, 1], [3, 2], [1, 3]])


def make(kind):
    import menpo.transform as mt
    from menpo.shape import PointCloud, TriMesh
    from menpo.transform.piecewiseaffine.base import PythonPWA

    if kind == "PiecewiseAffine":
        return mt.PiecewiseAffine(TriMesh(S, trilist=TRIS), PointCloud(T))
    if kind == "PythonPWA":
        return PythonPWA(TriMesh(S, trilist=TRIS), PointCloud(T))
    if kind == "ThinPlateSplines":
        return mt.ThinPlateSplines(PointCloud(S), PointCloud(T))
    if kind == "ThinPlateSplines(R2LogRRBF)":
        from menpo.transform import rbf

        return mt.ThinPlateSplines(PointCloud(S), PointCloud(T), kernel=rbf.R2LogRRBF(S.copy()))
    if kind == "Affine":
        return mt.Affine(np.array([[2.0, 1, 3], [-1, 3, 0], [0, 0, 1]]))
    if kind == "Homogeneous":
        return mt.Homogeneous(np.array([[1.0, 2, 0], [0, 1, 1], [0.1, 0, 1]]))
    if kind == "AlignmentSimilarity":
        return mt.AlignmentSimilarity(PointCloud(S), PointCloud(T))
    if kind == "WithDimsList":
        return mt.WithDims([1, 0])
    if kind == "WithDimsSlice":
        return mt.WithDims(slice(0, 2))
    return mt.TransformChain([mt.Translation([1.0, -2.0]), mt.PiecewiseAffine(TriMesh(S + [1.0, -2.0], trilist=TRIS), PointCloud(T)),
                              mt.UniformScale(2.0, 2)])


_EXPECT = {}
_WHOLE_REF = {}


def expected(kind):
    """value -> what a fresh transform returns for a fresh copy of that value"""
    from menpo.transform.piecewiseaffine.base import TriangleContainmentError

    if kind not in _EXPECT:
        e = {}
        for v, a in VALS.items():
            try:
                e[v] = ("ok", make(kind).apply(a.copy()))
            except TriangleContainmentError as ex:
                e[v] = ("err", np.asarray(ex.points_outside_source_domain).astype(bool))
        _EXPECT[kind] = e
    return _EXPECT[kind]


def _query(t, kind):
    """every public non-mutating use of a transform other than apply; results are discarded (their correctness is C03-C05's
    business) - what matters here is that the transform is the same function afterwards"""
    from ..core import from_library

    try:
        if hasattr(t, "pseudoinverse") and kind not in ("WithDimsList", "WithDimsSlice"):
            t.pseudoinverse()
        c = t.copy()
        for name in ("n_dims", "n_dims_output", "has_true_inverse", "n_parameters", "n_points", "n_tris"):
            getattr(t, name, None)
        if hasattr(t, "as_vector"):
            try:
                t.as_vector()
            except NotImplementedError:
                pass
        if hasattr(t, "aligned_source"):
            t.aligned_source()
            t.alignment_error()
        str(t)
        repr(c)
    except Exception as ex:
        if not from_library(ex):
            raise
        return "a read-only use of the transform (pseudoinverse / copy / parameters / properties) raised %s: %s" % (type(ex).__name__, str(ex)[:160])
    return None


def replay(args):
    from menpo.shape import PointCloud
    from menpo.transform.piecewiseaffine.base import TriangleContainmentError

    kind, hist = args
    t = make(kind)
    exp = expected(kind)
    arrays = {1: VALS[1].copy(), 2: VALS[1].copy()}
    for k, ev in enumerate(hist):
        a, v = ev["a"], ev["v"]
        if ev["op"] == "write":
            arrays[a][...] = VALS[v]
            continue
        if ev["op"] == "query":
            bad = _query(t, kind)
            if bad:
                return {"sig": None, "step": k, "kind": kind, "op": "query", "what": bad}
            continue
        b = ev["batch"] or None
        if b and k % 2:
            b = np.int64(b)      # a batch size computed with numpy is a batch size
        keep = arrays[a].copy()
        try:
            x = arrays[a] if ev["op"] == "apply" else PointCloud(arrays[a], copy=False)
            r = t.apply(x, batch_size=b)
            got = ("ok", r if ev["op"] == "apply" else r.points)
        except TriangleContainmentError as ex:
            got = ("err", np.asarray(ex.points_outside_source_domain).astype(bool))
        except Exception as ex:
            from ..core import from_library

            if not from_library(ex):
                raise
            return {"sig": None, "step": k, "kind": kind, "op": ev["op"], "array": a, "value": v, "batch": ev["batch"],
                    "what": "apply raised %s: %s" % (type(ex).__name__, str(ex)[:200])}
        want = exp[v]
        ok = got[0] == want[0] and got[1].shape == want[1].shape and (
            np.array_equal(got[1], want[1]) if want[0] == "err" else np.allclose(got[1], want[1], rtol=0, atol=1e-12))
        if ok and want[0] == "ok" and not np.allclose(got[1], want[1], rtol=0, atol=0) and v in (1, 11):
            # values 1 and 11 differ by 1e-9: their images must differ accordingly (not be each other's)
            other = exp[11 if v == 1 else 1][1]
            if np.array_equal(got[1], other) and not np.array_equal(want[1], other):
                ok = False
        if not ok:
            sig = None
            if (kind == "Chain" and b and got[0] == "err" and want[0] == "err"):
                # K2: a containment error escaping from the GENERIC batching loop carries the mask of the failing
                # batch only (the first batch that contains an outside point)
                first = next(lo for lo in range(0, len(want[1]), b) if want[1][lo:lo + b].any())
                if np.array_equal(got[1], want[1][first:first + b]):
                    sig = "generic_batching_mask_is_batch_local"
            return {"sig": sig, "step": k, "kind": kind, "op": ev["op"], "array": a, "value": v, "batch": ev["batch"],
                    "what": "apply returned something else than a fresh transform returns for the same input values",
                    "got": [got[0], got[1].tolist()], "want": [want[0], want[1].tolist()]}
        if not np.array_equal(arrays[a], keep):
            return {"step": k, "kind": kind, "what": "apply modified the caller's array"}
        if got[0] == "ok" and ev["op"] == "apply" and np.shares_memory(got[1], arrays[a]):
            return {"sig": None, "step": k, "kind": kind, "op": ev["op"], "array": a, "value": v, "batch": ev["batch"],
                    "what": "the result shares memory with the array that was passed: editing either changes the other"}
    # points that sit exactly ON the control points (where the radial kernels are singular), with OTHER transforms applied to the same
    # points in between and their results kept: the answer is finite and the same every time
    if kind.startswith("ThinPlateSplines"):
        import menpo.transform as mt
        from menpo.shape import PointCloud
        from menpo.transform import rbf

        onc = S.copy()
        first = np.asarray(t.apply(onc.copy()))
        kept = []
        for _ in range(3):
            kept.append(mt.ThinPlateSplines(PointCloud(S), PointCloud(T)).apply(onc.copy()))
            kept.append(rbf.R2LogR2RBF(S.copy()).apply(onc.copy()))
            again = np.asarray(t.apply(onc.copy()))
            if not np.all(np.isfinite(again)) or not np.array_equal(again, first):
                return {"sig": None, "kind": kind, "what": "apply on points that coincide with the control points changes (or is not finite) after other transforms were applied in between",
                        "got": again.tolist(), "want": first.tolist()}
        if not np.allclose(first, T, atol=1e-8 * 10):
            return {"sig": None, "kind": kind, "what": "the spline does not send its control points onto the target points"}
    # no points at all is a legal input: the answer is no points, whatever the batch size
    try:
        e0 = np.asarray(t.apply(np.zeros((0, 2))))
        for b in (1, 3):
            eb = np.asarray(t.apply(np.zeros((0, 2)), batch_size=b))
            if eb.shape != e0.shape:
                return {"sig": None, "kind": kind, "batch": b, "what": "apply on an empty (0, 2) array gives shape %r with batch_size=%d and %r without" % (eb.shape, b, e0.shape)}
        if e0.shape[0] != 0:
            return {"sig": None, "kind": kind, "what": "apply on an empty array returned %d points" % e0.shape[0]}
    except Exception as ex:
        from ..core import from_library

        if not from_library(ex):
            raise
        return {"sig": None, "kind": kind, "what": "apply on an empty (0, 2) array raised %s: %s" % (type(ex).__name__, str(ex)[:120])}
    # epilogue on the SAME object (whatever the history left in it): the value, not its number type or the batch size, decides
    if kind not in _WHOLE_REF:
        _WHOLE_REF[kind] = np.asarray(make(kind).apply(WHOLE.astype(float)), dtype=float)
    ref = _WHOLE_REF[kind]
    for dt in (np.int64, np.int32, np.float32):
        for b in (None, 2, 3):
            x = WHOLE.astype(dt)
            try:
                r = np.asarray(t.apply(x, batch_size=b), dtype=float)
            except Exception as ex:
                from ..core import from_library

                if not from_library(ex):
                    raise
                return {"sig": None, "kind": kind, "what": "apply on a %s array (batch_size=%r) raised %s" % (np.dtype(dt).name, b, type(ex).__name__)}
            if r.shape != ref.shape or not np.allclose(r, ref, rtol=0, atol=1e-4 if dt is np.float32 else 1e-9):
                return {"sig": None, "kind": kind, "batch": b, "what": "apply on a %s array (batch_size=%r) differs from the same values as float64, unbatched" % (np.dtype(dt).name, b),
                        "got": r.tolist(), "want": ref.tolist()}
            if not np.array_equal(x, WHOLE.astype(dt)):
                return {"sig": None, "kind": kind, "what": "apply modified the caller's integer array"}
    # equal VALUES in two number types, one straight after the other: what apply returns for the single-precision array does not depend
    # on whether the double-precision twin (or anything else) was applied just before - compared bit for bit with a fresh transform
    x32 = (WHOLE.astype(float) * 0.7 + WHOLE.astype(float).mean(axis=0) * 0.3 + 0.013).astype(np.float32)
    x64 = x32.astype(np.float64)

    def _out(tr, x):
        try:
            return ("value", np.asarray(tr.apply(x)))
        except Exception as ex:
            from ..core import from_library

            if not from_library(ex):
                raise
            pf = getattr(ex, "points_outside_source_domain", None)
            return (type(ex).__name__, None if pf is None else np.asarray(pf))

    def _same(a, b):
        return a[0] == b[0] and ((a[1] is None and b[1] is None) or (a[1] is not None and b[1] is not None and a[1].dtype == b[1].dtype
                                                                     and np.array_equal(a[1], b[1])))

    fresh32 = _out(make(kind), x32)
    _out(t, x64)
    after_twin = _out(t, x32)
    _out(t, WHOLE.astype(float))
    after_other = _out(t, x32)
    if not _same(after_twin, fresh32) or not _same(after_other, fresh32):
        return {"sig": None, "kind": kind, "what": "apply on a float32 array depends on what was applied before it (the same values as float64 / other points): "
                "not bit-identical to a fresh transform of the same definition",
                "got": [after_twin[0], after_other[0]], "want": fresh32[0]}
    return None
