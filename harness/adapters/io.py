"""Adapter for IO.tla: replay export / import / chdir histories on a real temporary directory tree,
plus the round-trip cases (import(export(x)) == Canon(x))."""
import os
import shutil
import tempfile
from pathlib import Path

import numpy as np

from .shapes import same, state

KIND_OF = {"lm.v1.ljson": "ljson", "x.pkl.gz": "pklgz", "p.pts": "pts", "img.png": "png", "m.pkl": "pkl", "pic.bmp": "bmp", "q.xyz": "bad"}
BAD_EXT = {"ljson": ".pts", "pts": ".ljson", "pkl": ".pkl.gz", "pklgz": ".pkl", "png": ".bmp", "bmp": ".png"}
_OBJ = {}


def objects(kind):
    """the two pooled objects of a kind (built once per process)"""
    from collections import OrderedDict

    import menpo.shape as ms
    import menpo.transform as mt
    from menpo.image import Image
    from menpo.model import PCAVectorModel

    if kind in _OBJ:
        return _OBJ[kind]
    P = np.array([[0.0, 0.5], [4.25, 0.5], [3.5, np.nan], [0.5, 4.0], [2.0, 2.0]])
    if kind == "ljson":
        masks = OrderedDict([("zeta é", np.array([1, 1, 1, 0, 0], bool)), ("alpha", np.array([0, 0, 1, 1, 1], bool)), ("mid", np.array([0, 1, 0, 1, 0], bool))])
        a = ms.LabelledPointUndirectedGraph.init_from_edges(P, np.array([[0, 1], [1, 2], [3, 4]]), masks)
        lm = ms.PointCloud(P[:, ::-1][:3] + 1).landmarks
        holder = ms.PointCloud(np.zeros((2, 2)))
        holder.landmarks["second"] = ms.PointCloud(np.nan_to_num(P) * 2)
        holder.landmarks["first"] = ms.PointUndirectedGraph.init_from_edges(np.nan_to_num(P) + 1, np.array([[0, 4]]))
        b = holder.landmarks
    elif kind == "pts":
        a = ms.PointCloud(np.array([[0.12345, 10.5], [3.0006, 2.9994], [7.25, 0.0]]))
        b = ms.PointCloud(np.array([[100.0004, 0.0004], [1.0, 2.0]]))
    elif kind in ("pkl", "pklgz"):
        g = ms.LabelledPointUndirectedGraph.init_from_edges(np.nan_to_num(P), np.array([[0, 1]]), OrderedDict([("all", np.ones(5, bool))]))
        g.landmarks["k"] = ms.PointCloud(np.nan_to_num(P)[:2])
        a = g
        b = mt.TransformChain([mt.Translation([1.0, 2.0]), mt.AlignmentSimilarity(ms.PointCloud(np.nan_to_num(P)), ms.PointCloud(np.nan_to_num(P) * 2 + 1))])
    else:  # 8-bit images
        a = Image(np.arange(256, dtype=np.uint8).reshape(1, 16, 16))
        rgb = np.stack([np.arange(256).reshape(16, 16), np.arange(256)[::-1].reshape(16, 16), (np.arange(256) * 7 % 256).reshape(16, 16)]).astype(np.uint8)
        b = Image(rgb)
    _OBJ[kind] = {1: a, 2: b}
    return _OBJ[kind]


def export(kind, obj, fp, **kw):
    import menpo.io as mio

    if kind in ("ljson", "pts"):
        return mio.export_landmark_file(obj, fp, **kw)
    if kind in ("pkl", "pklgz"):
        kw.pop("extension", None) if False else None
        return mio.export_pickle(obj, fp, **{k: v for k, v in kw.items() if k != "extension"})
    return mio.export_image(obj, fp, **kw)


def imp(kind, fp):
    import menpo.io as mio

    if kind in ("ljson", "pts"):
        return mio.import_landmark_file(fp)
    if kind in ("pkl", "pklgz"):
        return mio.import_pickle(fp)
    return mio.import_image(fp, normalize=False)


def _edges(s):
    if hasattr(s, "trilist"):  # a mesh is written with the undirected edges of its triangles
        return sorted({tuple(sorted((int(t[i]), int(t[(i + 1) % 3])))) for t in s.trilist for i in range(3)})
    if not hasattr(s, "adjacency_matrix"):
        return []
    # read off the adjacency matrix itself (not through the library's own edge listing): every pair joined in either direction,
    # self loops included
    A = s.adjacency_matrix
    A = np.asarray(A.todense()) if hasattr(A, "todense") else np.asarray(A)
    return sorted({tuple(sorted((int(i), int(j)))) for i, j in zip(*np.nonzero(A))})


def canon_equal(kind, exported, imported):
    """None when `imported` is the canonical form of `exported`, else a description"""
    if kind == "ljson":
        groups = {"LJSON": exported} if hasattr(exported, "n_points") else dict(exported.items())
        if sorted(imported.keys()) != sorted(groups.keys()):
            return "group names %r, expected %r" % (sorted(imported.keys()), sorted(groups.keys()))
        for k, e in groups.items():
            i = imported[k]
            if i.points.shape != e.points.shape or not np.array_equal(np.isnan(i.points), np.isnan(e.points)) or \
                    not np.array_equal(np.nan_to_num(i.points), np.nan_to_num(e.points)):
                return "group %r: coordinates (missing values included) differ" % k
            if _edges(i) != _edges(e):
                return "group %r: edges %r, expected %r" % (k, _edges(i), _edges(e))
            if hasattr(e, "labels"):
                if not hasattr(i, "labels") or list(i.labels) != list(e.labels):
                    return "group %r: labels %r, expected %r (same order)" % (k, getattr(i, "labels", None), e.labels)
                for l in e.labels:
                    if not np.array_equal(i._labels_to_masks[l], e._labels_to_masks[l]):
                        return "group %r: mask of label %r differs" % (k, l)
        return None
    if kind == "pts":
        i = imported["PTS"]
        if i.points.shape != exported.points.shape:
            return "PTS point count %r, expected %r" % (i.points.shape, exported.points.shape)
        if np.abs(i.points - exported.points).max() > 0.0005 + 1e-9:
            return "PTS coordinates differ by more than the three-decimal precision (max %.6f)" % np.abs(i.points - exported.points).max()
        return None
    if kind in ("pkl", "pklgz"):
        if type(imported) is not type(exported):
            return "unpickled class " + type(imported).__name__
        return same(state(exported), state(imported))
    if imported.pixels.dtype != np.uint8 or imported.pixels.shape != exported.pixels.shape or not np.array_equal(imported.pixels, exported.pixels):
        return "8-bit image data changed by export + import"
    return None


def _snapshot(root):
    out = {}
    for d, _, files in os.walk(root):
        for f in files:
            p = os.path.join(d, f)
            with open(p, "rb") as fh:
                out[os.path.relpath(p, root)] = fh.read()
    return out


def _spell(sp, root, dirname, name):
    if sp == "rel_str":
        return name
    if sp == "rel_path":
        return Path(name)
    p = os.path.join(root, dirname, name)
    return p if sp == "abs_str" else Path(p)


def replay(hist):
    from menpo.io.exceptions import OverwriteError

    root = tempfile.mkdtemp(prefix="menpo-io-")
    old = os.getcwd()
    try:
        for d in ("A", "B"):
            os.mkdir(os.path.join(root, d))
        os.chdir(os.path.join(root, "A"))
        snap = _snapshot(root)
        for k, ev in enumerate(hist):
            op = ev["op"]
            if op == "chdir":
                os.chdir(os.path.join(root, ev["dir"]))
                continue
            name = ev["name"]
            kind = KIND_OF[name]
            fp = _spell(ev["sp"], root, ev["dir"], name)
            err = ""
            got = None
            try:
                if op == "export":
                    if kind == "bad":
                        export("ljson", objects("ljson")[1], fp, overwrite=ev["ow"])
                    elif ev["err"] == "ValueError" or (ev.get("ext") == "bad"):
                        export(kind, objects(kind)[ev["obj"]], fp, overwrite=ev["ow"], extension=BAD_EXT[kind])
                    else:
                        # an explicit matching extension is tried on every other step
                        kw = {"extension": Path(name).suffixes[-1] if kind not in ("pklgz",) else ".pkl.gz"} if (k % 2 and kind not in ("pkl", "pklgz")) else {}
                        export(kind, objects(kind)[ev["obj"]], fp, overwrite=ev["ow"], **kw)
                else:
                    got = imp(kind, fp)
            except OverwriteError:
                err = "OverwriteError"
            except ValueError:
                err = "ValueError"
            except Exception as e:
                from ..core import from_library

                if not from_library(e):
                    raise
                err = "%s raised by menpo: %s" % (type(e).__name__, str(e)[:150])
            if kind in ("pkl", "pklgz") and ev["err"] == "ValueError" and op == "export" and err == "":
                # export_pickle takes no `extension` argument: the bad-extension export of the model is not expressible
                return None
            if err != ev["err"]:
                return {"step": k, "op": op, "name": name, "spelling": ev["sp"], "what": "outcome %r, expected %r" % (err or "ok", ev["err"] or "ok")}
            new = _snapshot(root)
            rel = os.path.join(ev["key"][0], ev["key"][1])
            if op == "import" or err:
                if new != snap:
                    changed = sorted(set(new) ^ set(snap)) + [f for f in new if f in snap and new[f] != snap[f]]
                    return {"step": k, "op": op, "name": name, "what": "a refused export / an import changed the file system", "files": changed}
                if op == "import" and not err:
                    bad = canon_equal(kind, objects(kind)[ev["obj"]], got)
                    if bad:
                        return {"step": k, "op": op, "name": name, "spelling": ev["sp"],
                                "what": "import does not return what the last accepted export wrote (object %d): %s" % (ev["obj"], bad)}
            else:
                others = {f: b for f, b in new.items() if f != rel}
                if others != {f: b for f, b in snap.items() if f != rel}:
                    return {"step": k, "op": op, "name": name, "what": "an export touched another file"}
                if rel not in new:
                    return {"step": k, "op": op, "name": name, "what": "accepted export wrote no file at the target path " + rel}
                if kind == "pklgz" and new[rel][:2] != b"\x1f\x8b":
                    return {"step": k, "op": op, "name": name, "what": ".pkl.gz written uncompressed"}
            snap = new
        return None
    finally:
        os.chdir(old)
        shutil.rmtree(root, ignore_errors=True)


# ---------------------------------------------------------------- round trips over object pools
def roundtrip_cases():
    """(label, kind, file name, object factory)"""
    from collections import OrderedDict

    import menpo.shape as ms
    from menpo.image import Image

    from ..checks.c06_heap import _instances

    out = []
    P2 = np.array([[0.0, 0.5], [4.25, 0.5], [3.5, 3.0], [0.5, 4.0], [2.0, 2.0]])
    P3 = np.hstack([P2, np.arange(5)[:, None] * 1.5])
    tl = np.array([[0, 1, 4], [1, 2, 4]])
    edges = np.array([[0, 1], [1, 2], [3, 4]])
    for d, P in ((2, P2), (3, P3)):
        nanP = P.copy()
        nanP[2, 1] = np.nan
        shapes = {
            "PointCloud": lambda P=P: ms.PointCloud(P), "PointCloudNaN": lambda nanP=nanP: ms.PointCloud(nanP),
            "TriMesh": lambda P=P: ms.TriMesh(P, trilist=tl),
            # the coordinates' number type is not part of the data: whole numbers stored as int64, halves / quarters as float32
            "PointCloudInt64": lambda P=P: ms.PointCloud(np.round(P * 4).astype(np.int64)),
            "PointCloudFloat32": lambda P=P: ms.PointCloud(P.astype(np.float32)),
            "PointUndirectedGraphInt32": lambda P=P: ms.PointUndirectedGraph.init_from_edges(np.round(P * 4).astype(np.int32), edges.astype(np.int32)),
            "PointUndirectedGraph": lambda P=P: ms.PointUndirectedGraph.init_from_edges(P, edges),
            "PointUndirectedGraphNoEdges": lambda P=P: ms.PointUndirectedGraph.init_from_edges(P, np.zeros((0, 2), dtype=int)),
            "PointDirectedGraph": lambda P=P: ms.PointDirectedGraph.init_from_edges(P, edges),
            "PointTree": lambda P=P: ms.PointTree.init_from_edges(P, np.array([[0, 1], [0, 2], [2, 3], [2, 4]]), root_vertex=0),
            "LabelledGraph": lambda P=P: ms.LabelledPointUndirectedGraph.init_from_edges(
                P, edges, OrderedDict([("zü", np.array([1, 1, 1, 0, 0], bool)), ("a", np.array([0, 0, 1, 1, 1], bool))])),
        }
        # labelled and plain graphs with every small edge count on 2..4 points (0, 1, 2, 3 edges; chains, a triangle, a self loop)
        for npts in (2, 3, 4):
            for ne, es in ((0, []), (1, [[0, 1]]), (2, [[0, 1], [1, npts - 1]] if npts > 2 else [[0, 0], [0, 1]]),
                           (3, [[0, 1], [1, 2], [0, 2]] if npts > 2 else [[0, 0], [0, 1], [1, 1]])):
                ea = np.array(es, dtype=int).reshape(-1, 2)
                Q = P[:npts]
                half = np.arange(npts) < (npts + 1) // 2
                shapes["LabelledGraph_%dpts_%dedges" % (npts, ne)] = lambda Q=Q, ea=ea, half=half: ms.LabelledPointUndirectedGraph.init_from_edges(
                    Q, ea, OrderedDict([("first", half.copy()), ("rest", ~half | (np.arange(len(half)) == 0))]))
                shapes["PointUndirectedGraph_%dpts_%dedges" % (npts, ne)] = lambda Q=Q, ea=ea: ms.PointUndirectedGraph.init_from_edges(Q, ea)
        # a self connection given through the ADJACENCY MATRIX (a non-zero diagonal entry) - the graph has the edge (3, 3) whatever the
        # edge-list constructor would have made of it; the file lists it and the reader has to bring it back
        def _loop_adj(P=P):
            A = np.zeros((5, 5), dtype=int)
            for a_, b_ in ((0, 1), (1, 2), (3, 3)):
                A[a_, b_] = A[b_, a_] = 1
            return A
        shapes["PointUndirectedGraphSelfLoopFromAdjacency"] = lambda P=P, _loop_adj=_loop_adj: ms.PointUndirectedGraph(P, _loop_adj())
        shapes["LabelledGraphSelfLoopFromAdjacency"] = lambda P=P, _loop_adj=_loop_adj: ms.LabelledPointUndirectedGraph(
            P, _loop_adj(), OrderedDict([("all", np.ones(5, bool))]))
        for n, f in shapes.items():
            out.append(("ljson %dD %s" % (d, n), "ljson", "rt.ljson", f))
    for fname in ("e.ljson", "e.v2.pts", "e.png", "e.pkl", "e.pkl.gz"):
        out.append(("existing empty file " + fname, "refuse_empty", fname, None))
    for fname in ("clip.mp4", "clip.v2.final.mp4", "anim.gif", "clip.avi"):
        out.append(("refused video export " + fname, "refuse_video", fname, None))
    # points left of / above the origin (annotations may lie outside the image): the sign survives
    out.append(("pts negative coordinates", "pts", "rt.neg.pts", lambda: ms.PointCloud(np.array([[-12.5, 3.25], [4.0, -7.125], [-0.5, -2048.75], [6.0, 1.0]]))))
    out.append(("pts", "pts", "rt.pts", lambda: ms.PointCloud(np.array([[0.12345, 10.5], [3.0006, 2.9994], [7.25, 0.0]]))))
    # coordinates of every magnitude an image can have (the three-decimal promise is absolute, not relative)
    out.append(("pts int64 coordinates", "pts", "rt.int.pts", lambda: ms.PointCloud(np.array([[12, 0], [3, 2047], [511, 7]], dtype=np.int64))))
    out.append(("pts float32 coordinates", "pts", "rt.f32.pts", lambda: ms.PointCloud(np.array([[0.5, 10.25], [300.125, 2.75], [7.25, 0.0]], dtype=np.float32))))
    out.append(("pts large coordinates", "pts", "rt.big.pts", lambda: ms.PointCloud(np.array([[1234.5678, 0.0004], [10000.1234, 99999.9996], [512.0005, 2047.4994]]))))
    # multi-dot file names for every format
    out.append(("pts multi-dot name", "pts", "rt.v2.final.pts", lambda: ms.PointCloud(np.array([[0.5, 1.25], [2.0, 3.0], [4.0, 0.125]]))))
    out.append(("ljson multi-dot name", "ljson", "rt.v2.final.ljson", lambda: ms.PointCloud(P2)))
    for name, family, factory in _instances():
        if name in ("LazyList",):
            continue
        out.append(("pickle " + name, "pkl", "rt.pkl", factory))
        out.append(("gz pickle " + name, "pklgz", "rt.pkl.gz", factory))
        if name in ("PCAModel", "PCAVectorModel"):
            # models in a non-default state: the active view narrowed, and trimmed
            def narrowed(factory=factory):
                m = factory()
                m.n_active_components = max(1, m.n_components - 2)
                return m

            def trimmed(factory=factory):
                m = factory()
                m.trim_components(max(1, m.n_components - 1))
                m.n_active_components = 1
                return m

            out.append(("pickle %s (active view narrowed)" % name, "pkl", "rt.pkl", narrowed))
            out.append(("gz pickle %s (trimmed, one active)" % name, "pklgz", "rt.pkl.gz", trimmed))
        if name in ("PointCloud", "Image", "PCAModel"):
            out.append(("pickle (multi-dot name) " + name, "pkl", "rt.v1.2024.pkl", factory))
            out.append(("gz pickle (multi-dot name) " + name, "pklgz", "rt.v1.2024.pkl.gz", factory))
    lut = np.arange(256, dtype=np.uint8).reshape(16, 16)
    for ext in ("png", "bmp"):
        out.append(("L " + ext, ext, "rt." + ext, lambda: Image(lut[None].copy())))
        out.append(("RGB " + ext, ext, "rt." + ext, lambda: Image(np.stack([lut, lut[::-1], lut.T]).copy())))
        out.append(("L multi-dot name " + ext, ext, "rt.v2.final." + ext, lambda: Image(lut[None].copy())))
        # degenerate-but-legal shapes: a single row, a single column, a single pixel
        for hh, ww in ((1, 7), (6, 1), (1, 1), (2, 3)):
            blk = (np.arange(hh * ww * 3, dtype=np.uint8) * 9 + 3).reshape(3, hh, ww)
            out.append(("L %dx%d %s" % (hh, ww, ext), ext, "rt." + ext, lambda blk=blk: Image(blk[:1].copy())))
            out.append(("RGB %dx%d %s" % (hh, ww, ext), ext, "rt." + ext, lambda blk=blk: Image(blk.copy())))
    return out


def _run_refusal(label, fname):
    """exporters whose encoder is not installed here (video, animated gif) still have a refusal path that runs before the encoder
    is started: an existing file, under every spelling of its path, is refused with OverwriteError and keeps its bytes"""
    import menpo.io as mio
    from menpo.image import Image
    from menpo.io.exceptions import OverwriteError

    root = tempfile.mkdtemp(prefix="menpo-rf-")
    try:
        frames = [Image(np.full((3, 4, 6), 0.25 * k)) for k in range(3)]
        for spell in ("Path", "str"):
            p = Path(root) / fname
            sentinel = ("KEEP-ME " + fname + " " + spell).encode()
            p.write_bytes(sentinel)
            arg = p if spell == "Path" else str(p)
            try:
                mio.export_video(frames, arg, overwrite=False)
                return label + ": export_video to an existing file (%s) was not refused" % spell
            except OverwriteError:
                pass
            except Exception as e:
                return label + ": export_video to an existing file (%s) raised %s instead of OverwriteError" % (spell, type(e).__name__)
            if not p.exists():
                return label + ": the refused export_video (%s) DELETED the existing file" % spell
            if p.read_bytes() != sentinel:
                return label + ": the refused export_video (%s) changed the existing file" % spell
            if sorted(x.name for x in Path(root).iterdir()) != [fname]:
                return label + ": the refused export_video (%s) left other files behind: %r" % (spell, sorted(x.name for x in Path(root).iterdir()))
        return None
    finally:
        shutil.rmtree(root, ignore_errors=True)


def _run_refuse_empty(label, fname):
    """an existing file of zero bytes (a handle just opened, the stub of a failed export) is an existing file: refused unless
    overwriting is asked for, and still empty afterwards"""
    import menpo.io as mio
    import menpo.shape as ms
    from menpo.image import Image
    from menpo.io.exceptions import OverwriteError

    root = tempfile.mkdtemp(prefix="menpo-re-")
    try:
        ext = fname.rsplit(".", 1)[1]
        for spell in ("Path", "str"):
            p = Path(root) / fname
            p.write_bytes(b"")
            arg = p if spell == "Path" else str(p)
            try:
                if ext in ("ljson", "pts"):
                    mio.export_landmark_file(ms.PointCloud(np.array([[1.0, 2.0], [3.0, 4.0]])), arg)
                elif ext in ("pkl", "gz"):
                    mio.export_pickle({"a": 1}, arg)
                else:
                    mio.export_image(Image(np.zeros((1, 4, 4), dtype=np.uint8)), arg)
                return label + ": exporting onto an existing empty file (%s) without overwrite=True was not refused" % spell
            except OverwriteError:
                pass
            except Exception as e:
                return label + ": exporting onto an existing empty file (%s) raised %s instead of OverwriteError" % (spell, type(e).__name__)
            if not p.exists() or p.read_bytes() != b"":
                return label + ": the refused export changed the existing empty file"
        return None
    finally:
        shutil.rmtree(root, ignore_errors=True)


def run_roundtrip(case):
    import menpo.io as mio
    from menpo.image import Image

    label, kind, fname, factory = case
    if kind == "refuse_video":
        return _run_refusal(label, fname)
    if kind == "refuse_empty":
        return _run_refuse_empty(label, fname)
    root = tempfile.mkdtemp(prefix="menpo-rt-")
    try:
        obj = factory()
        s0 = state(obj) if hasattr(obj, "__dict__") else None
        p = Path(root) / fname
        try:
            export(kind, obj, p)
        except Exception as e:
            return label + ": export raised %s: %s" % (type(e).__name__, str(e)[:120])
        if s0 is not None and same(s0, state(obj)):
            return label + ": export modified the object: " + same(s0, state(obj))
        try:
            got = imp(kind, str(p))
        except Exception as e:
            return label + ": importing the file just written raised %s: %s" % (type(e).__name__, str(e)[:120])
        if kind in ("pkl", "pklgz"):
            bad = same(state(obj), state(got)) if type(got) is type(obj) else "class " + type(got).__name__
        elif kind == "ljson":
            bad = canon_equal("ljson", obj if hasattr(obj, "labels") or not hasattr(obj, "trilist") else obj, got)
            # a mesh / directed graph / tree comes back as an undirected point graph with the same undirected edges
        else:
            bad = canon_equal(kind, obj, got)
        if bad:
            return label + ": " + str(bad)
        if kind in ("png", "bmp"):
            # normalised import -> export -> import: 8-bit data must survive unchanged
            fl = mio.import_image(str(p), normalize=True)
            p2 = Path(root) / ("again." + kind)
            mio.export_image(fl, p2)
            again = mio.import_image(str(p2), normalize=False)
            if not np.array_equal(again.pixels, obj.pixels):
                return label + ": 8-bit values change on import(normalised) -> export -> import (%d of 256 levels differ)" % int(
                    (again.pixels != obj.pixels).any(axis=0).sum() if again.pixels.shape == obj.pixels.shape else -1)
            f = Image(np.linspace(0, 1, 16 * 16).reshape(1, 16, 16))
            mio.export_image(f, Path(root) / ("float." + kind))
            back = mio.import_image(str(Path(root) / ("float." + kind)), normalize=True)
            if np.abs(back.pixels - f.pixels).max() >= 1.0 / 255 + 1e-12:
                return label + ": float image changes by a quantisation level or more"
        return None
    finally:
        shutil.rmtree(root, ignore_errors=True)


# ---- code -> spec: random long histories recorded from the real library (validated by Trace_IO) ----------
def record_random(rng, n_ops, names=("lm.v1.ljson", "x.pkl.gz", "p.pts", "m.pkl")):
    """Execute random export / import / chdir calls on a real temporary tree and log each call with its
    OBSERVED outcome; for imports the observed object is identified against the pool (0 = matches none)."""
    from menpo.io.exceptions import OverwriteError

    root = tempfile.mkdtemp(prefix="menpo-iotr-")
    old = os.getcwd()
    events = []
    try:
        for d in ("A", "B"):
            os.mkdir(os.path.join(root, d))
        os.chdir(os.path.join(root, "A"))
        cwd = "A"
        for _ in range(n_ops):
            r = rng.random()
            if r < 0.12:
                d = "B" if cwd == "A" else "A"
                os.chdir(os.path.join(root, d))
                cwd = d
                events.append({"op": "chdir", "name": "", "obj": 0, "sp": "", "dir": d, "ow": False, "err": "", "ext": ""})
                continue
            name = rng.choice(names + ("q.xyz",)) if r < 0.6 else rng.choice(names)
            kind = KIND_OF[name]
            sp = rng.choice(["rel_str", "rel_path", "abs_str", "abs_path"])
            d = "A" if sp.startswith("rel") else rng.choice(["A", "B"])
            fp = _spell(sp, root, d, name)
            err = ""
            if r < 0.6:
                obj = 1 if kind == "bad" else rng.choice([1, 2])
                ow = rng.random() < 0.4
                ext = "bad" if (kind not in ("bad", "pkl", "pklgz") and rng.random() < 0.15) else ""
                try:
                    if kind == "bad":
                        export("ljson", objects("ljson")[1], fp, overwrite=ow)
                    elif ext == "bad":
                        export(kind, objects(kind)[obj], fp, overwrite=ow, extension=BAD_EXT[kind])
                    else:
                        export(kind, objects(kind)[obj], fp, overwrite=ow)
                except OverwriteError:
                    err = "OverwriteError"
                except ValueError:
                    err = "ValueError"
                events.append({"op": "export", "name": name, "obj": obj, "sp": sp, "dir": d, "ow": ow, "err": err, "ext": ext})
            else:
                seen = 0
                try:
                    got = imp(kind, fp)
                    for k, o in objects(kind).items():
                        if canon_equal(kind, o, got) is None:
                            seen = k
                    if seen == 0:
                        seen = -1          # imported something that is no pooled object
                except ValueError:
                    err = "ValueError"
                events.append({"op": "import", "name": name, "obj": seen, "sp": sp, "dir": d, "ow": False, "err": err, "ext": ""})
        return {"events": events}
    finally:
        os.chdir(old)
        shutil.rmtree(root, ignore_errors=True)
