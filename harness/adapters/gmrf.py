"""Adapter for GMRF.tla: exact precision / mean / Mahalanobis values vs menpo.model.gmrf."""
import numpy as np

from .. import lattice as L


def _graphs(nv, E):
    import menpo.shape as ms

    edges = np.array([[a - 1, b - 1] for a, b in sorted(E)], dtype=int).reshape(-1, 2)
    out = [("undirected", ms.UndirectedGraph.init_from_edges(edges, nv))]
    out.append(("directed", ms.DirectedGraph.init_from_edges(edges, nv)))
    return out


def _dense(Q):
    return np.asarray(Q.todense()) if hasattr(Q, "todense") else np.asarray(Q)


def _check_stats(model, st, queries, tag, tol, nv, E):
    Qx = L.mat(st["Q"])
    mean = np.array([L.fl(x) for x in st["mean"]])
    try:
        Q = _dense(model.precision).astype(float)
    except Exception as e:  # a malformed sparse matrix produced by the library
        return tag + ": the precision matrix is malformed (densifying it raises %s: %s)" % (type(e).__name__, str(e)[:80])
    scale = max(1.0, np.abs(Qx).max())
    if Q.shape != Qx.shape or not np.allclose(Q, Qx, atol=tol * scale, rtol=0):
        return tag + ": precision differs from the sum of inverted block covariances (max diff %.3g)" % (np.abs(Q - Qx).max() if Q.shape == Qx.shape else float("nan"))
    if not np.allclose(Q, Q.T, atol=tol * scale):
        return tag + ": precision not symmetric"
    adj = {(a - 1, b - 1) for a, b in E} | {(b - 1, a - 1) for a, b in E}
    for i in range(nv):
        for j in range(nv):
            if i != j and (i, j) not in adj and abs(Q[i, j]) > tol * scale:
                return tag + ": precision couples vertices %d and %d which the graph does not join" % (i, j)
    if np.linalg.eigvalsh((Q + Q.T) / 2).min() < -tol * scale * 10:
        return tag + ": precision not positive semi-definite"
    if not np.allclose(model.mean_vector, mean, atol=1e-9) or not np.allclose(model.mean(), mean, atol=1e-9):
        return tag + ": model mean is not the sample mean"
    if model.n_samples != st["n"]:
        return tag + ": n_samples %r, expected %d" % (model.n_samples, st["n"])
    qs = np.array(queries, dtype=float)
    want = np.array([L.fl(x) for x in st["maha"]])
    got_b = np.asarray(model.mahalanobis_distance(qs), dtype=float)
    got_s = np.array([float(model.mahalanobis_distance(q)) for q in qs])
    mscale = max(1.0, np.abs(want).max())
    if not np.allclose(got_b, want, atol=tol * mscale * 10) or not np.allclose(got_s, want, atol=tol * mscale * 10):
        return tag + ": Mahalanobis distances differ (single %s, batched %s, expected %s)" % (got_s.tolist(), got_b.tolist(), want.tolist())
    if (got_b < -tol * mscale * 10).any():
        return tag + ": negative Mahalanobis distance"
    if abs(float(model.mahalanobis_distance(mean))) > tol * mscale * 10:
        return tag + ": Mahalanobis distance of the mean is not zero"
    return None


def check_batch(o):
    from menpo.model import GMRFVectorModel

    bad = []
    c = o["case"]
    nv = o["nv"]
    data = np.array(o["data"], dtype=float)
    for gname, g in _graphs(nv, c["E"]):
        dense64 = None
        for sparse in (True, False):
            for dtype, tol in ((np.float64, 1e-9), (np.float32, 2e-3)):
                tag = "%s graph, %s storage, %s" % (gname, "sparse" if sparse else "dense", dtype.__name__)
                m = GMRFVectorModel(data.copy(), g, mode=c["mode"], sparse=sparse, bias=c["bias"], dtype=dtype)
                r = _check_stats(m, o["stats"], o["queries"], tag, tol, nv, c["E"])
                if r:
                    bad.append((r, {"edges": c["E"], "mode": c["mode"], "bias": c["bias"]}, None))
                if dtype is np.float64 and not r:
                    if dense64 is None:
                        dense64 = _dense(m.precision)
                    elif not np.allclose(dense64, _dense(m.precision), atol=1e-10, rtol=0):
                        bad.append((tag + ": sparse and dense precision differ", {"edges": c["E"]}, None))
    return bad


def check_incr(o):
    from menpo.model import GMRFVectorModel

    bad = []
    c = o["case"]
    nv = o["nv"]
    data = np.array(o["data"], dtype=float)
    comp = c["comp"]
    for gname, g in _graphs(nv, c["E"])[:1]:
        for sparse in (True, False):
            a = comp[0]
            m = GMRFVectorModel(data[:a].copy(), g, mode=c["mode"], sparse=sparse, bias=c["bias"], incremental=True)
            for k, st in enumerate(o["steps"]):
                if k > 0:
                    m.increment(data[a:a + comp[k]].copy())
                    a += comp[k]
                tag = "%s storage after %d increment(s) (chunks %s)" % ("sparse" if sparse else "dense", k, comp[:k + 1])
                r = _check_stats(m, st, o["queries"], tag, 1e-8, nv, c["E"])
                if r:
                    bad.append((r, {"edges": c["E"], "mode": c["mode"], "bias": c["bias"], "composition": comp}, None))
                    break
    return bad


def run_case(o):
    return check_batch(o) if o["case"]["kind"] == "batch" else check_incr(o)
