"""Adapter for GMRF.tla: exact precision / mean / Mahalanobis values vs menpo.model.gmrf."""
import numpy as np

from .. import lattice as L


def _graphs(nv, E):
    import menpo.shape as ms

    edges = np.array([[a - 1, b - 1] for a, b in sorted(E)], dtype=int).reshape(-1, 2)
    out = [("undirected", ms.UndirectedGraph.init_from_edges(edges, nv))]
    out.append(("directed", ms.DirectedGraph.init_from_edges(edges, nv)))
    # the same undirected graph in other legal representations of its adjacency: a dense array, and a sparse matrix that stores
    # an explicit zero where an edge was removed (adj[i, j] = adj[j, i] = 0 on a csr_matrix) - no edge there
    import scipy.sparse as sp

    A = np.zeros((nv, nv), dtype=int)
    for a, b in edges:
        A[a, b] = A[b, a] = 1
    out.append(("undirected(dense adjacency)", ms.UndirectedGraph(A.copy())))
    hole = next(((i, j) for i in range(nv) for j in range(i + 1, nv) if not A[i, j]), None)
    if hole is not None:
        B = A.copy()
        B[hole[0], hole[1]] = B[hole[1], hole[0]] = 1
        Bs = sp.csr_matrix(B)
        Bs.data[:] = [A[r, c] for r, c in zip(*Bs.nonzero())]      # same structure, a stored 0 at the removed edge
        out.append(("undirected(sparse adjacency with a stored zero)", ms.UndirectedGraph(Bs)))
    # a spanning tree of the vertices is also given as a Tree rooted at its first vertex (edges directed away from the root)
    if len(edges) == nv - 1 and nv >= 2:
        adj = {v: set() for v in range(nv)}
        for a, b in edges:
            adj[a].add(b)
            adj[b].add(a)
        seen, order, dedges = {0}, [0], []
        for v in order:
            for w in sorted(adj[v]):
                if w not in seen:
                    seen.add(w)
                    order.append(w)
                    dedges.append([v, w])
        if len(seen) == nv:
            out.append(("tree", ms.Tree.init_from_edges(np.array(dedges, dtype=int), nv, 0)))
    return out


def _antiparallel(nv, E):
    """the directed graph that joins every pair of E in BOTH directions: two edges per pair, each contributing its block"""
    import menpo.shape as ms

    ed = [[a - 1, b - 1] for a, b in sorted(E)]
    return ms.DirectedGraph.init_from_edges(np.array(ed + [[b, a] for a, b in ed], dtype=int).reshape(-1, 2), nv)


def _dense(Q):
    return np.asarray(Q.todense()) if hasattr(Q, "todense") else np.asarray(Q)


def _check_stats(model, st, queries, tag, tol, nv, E):
    Qx = L.mat(st["Q"])
    mean = np.array([L.fl(x) for x in st["mean"]])
    try:
        Q = _dense(model.precision).astype(float)
    except Exception as e:  # a malformed sparse matrix produced by the library
        return tag + ": the precision matrix is malformed (densifying it raises %s: %s)" % (type(e).__name__, str(e)[:80])
    scale = max(1.0, np.abs(Qx).max())
    if Q.shape != Qx.shape or not np.allclose(Q, Qx, atol=tol * scale, rtol=0):
        return tag + ": precision differs from the sum of inverted block covariances (max diff %.3g)" % (np.abs(Q - Qx).max() if Q.shape == Qx.shape else float("nan"))
    if not np.allclose(Q, Q.T, atol=tol * scale):
        return tag + ": precision not symmetric"
    adj = {(a - 1, b - 1) for a, b in E} | {(b - 1, a - 1) for a, b in E}
    for i in range(nv):
        for j in range(nv):
            if i != j and (i, j) not in adj and abs(Q[i, j]) > tol * scale:
                return tag + ": precision couples vertices %d and %d which the graph does not join" % (i, j)
    if np.linalg.eigvalsh((Q + Q.T) / 2).min() < -tol * scale * 10:
        return tag + ": precision not positive semi-definite"
    if not np.allclose(model.mean_vector, mean, atol=1e-9) or not np.allclose(model.mean(), mean, atol=1e-9):
        return tag + ": model mean is not the sample mean"
    if model.n_samples != st["n"]:
        return tag + ": n_samples %r, expected %d" % (model.n_samples, st["n"])
    qs = np.array(queries, dtype=float)
    want = np.array([L.fl(x) for x in st["maha"]])
    got_b = np.asarray(model.mahalanobis_distance(qs), dtype=float)
    got_s = np.array([float(model.mahalanobis_distance(q)) for q in qs])
    mscale = max(1.0, np.abs(want).max())
    if not np.allclose(got_b, want, atol=tol * mscale * 10) or not np.allclose(got_s, want, atol=tol * mscale * 10):
        return tag + ": Mahalanobis distances differ (single %s, batched %s, expected %s)" % (got_s.tolist(), got_b.tolist(), want.tolist())
    # a query written as a plain Python list (whole numbers as int literals) is the same query
    got_l = np.array([float(np.asarray(model.mahalanobis_distance([int(v) if float(v).is_integer() else float(v) for v in q]))) for q in qs])
    if not np.allclose(got_l, want, atol=tol * mscale * 10):
        return tag + ": Mahalanobis distance of a query given as a Python list differs (%s, expected %s)" % (got_l.tolist(), want.tolist())
    if (got_b < -tol * mscale * 10).any():
        return tag + ": negative Mahalanobis distance"
    if abs(float(model.mahalanobis_distance(mean))) > tol * mscale * 10:
        return tag + ": Mahalanobis distance of the mean is not zero"
    # the two options of the query, single and batched: (x - mean)' Q (x - mean) or x' Q x, squared or not
    for sm in (True, False):
        for sr in (False, True):
            dq = qs - mean if sm else qs
            w = np.einsum("ij,jk,ik->i", dq, Qx, dq)
            w = np.sqrt(np.maximum(w, 0)) if sr else w
            gb = np.asarray(model.mahalanobis_distance(qs, subtract_mean=sm, square_root=sr), dtype=float).ravel()
            gs = np.array([float(np.asarray(model.mahalanobis_distance(q, subtract_mean=sm, square_root=sr)).ravel()[0]) for q in qs])
            sc = max(1.0, np.abs(w).max())
            if sr:
                # (the root of a form that is zero up to rounding is decided by the sign of the rounding error: not judged)
                keep = w > 1e-3 * sc
                gb, gs, w = gb[keep] if gb.shape == keep.shape else gb, gs[keep], w[keep]
            if gb.shape != w.shape or not np.allclose(gb, w, atol=tol * sc * 100) or not np.allclose(gs, w, atol=tol * sc * 100):
                return tag + ": Mahalanobis distances with subtract_mean=%r, square_root=%r differ (single %s, batched %s, expected %s)" % (
                    sm, sr, gs.tolist(), gb.tolist(), w.tolist())
    return None


def check_batch(o):
    from menpo.model import GMRFVectorModel

    bad = []
    c = o["case"]
    nv = o["nv"]
    data = np.array(o["data"], dtype=float)
    for gname, g in _graphs(nv, c["E"]):
        dense64 = None
        for sparse in (True, False):
            for dtype, tol in ((np.float64, 1e-9), (np.float32, 2e-3)):
                tag = "%s graph, %s storage, %s" % (gname, "sparse" if sparse else "dense", dtype.__name__)
                arr = data.copy()
                m = GMRFVectorModel(arr, g, mode=c["mode"], sparse=sparse, bias=c["bias"], dtype=dtype)
                if not np.array_equal(arr, data):
                    bad.append(("building the model modified the caller's data array", {"edges": c["E"], "sparse": sparse}, None))
                r = _check_stats(m, o["stats"], o["queries"], tag, tol, nv, c["E"])
                if r:
                    bad.append((r, {"edges": c["E"], "mode": c["mode"], "bias": c["bias"]}, None))
                if dtype is np.float64 and not r:
                    # a model that was not built for increments refuses them - and is exactly what it was afterwards
                    try:
                        m.increment(data[:2].copy())
                        bad.append((tag + ": a model built with incremental=False accepted an increment", {}, None))
                    except Exception:
                        r2 = _check_stats(m, o["stats"], o["queries"], tag + ", after a refused increment", tol, nv, c["E"])
                        if r2:
                            bad.append((r2, {"edges": c["E"], "mode": c["mode"], "bias": c["bias"]}, None))
                if dtype is np.float64 and not r:
                    if dense64 is None:
                        dense64 = _dense(m.precision)
                    elif not np.allclose(dense64, _dense(m.precision), atol=1e-10, rtol=0):
                        bad.append((tag + ": sparse and dense precision differ", {"edges": c["E"]}, None))
            # the same samples stored in another number type are the same samples
            forms = [("float32", data.astype(np.float32), 2e-3)]
            if np.array_equal(data, np.round(data)):
                forms += [("int64", data.astype(np.int64), 1e-9), ("int32", data.astype(np.int32), 1e-9)]
            # ... and so are the same samples handed over as a LIST of per-sample arrays, each in its own number type (whole-number
            # samples as integers, one of them first when there is one): the statistics do not depend on the order of the samples
            whole = [i for i in range(len(data)) if np.array_equal(data[i], np.round(data[i]))]
            order = whole[:1] + [i for i in range(len(data)) if i not in whole[:1]]
            forms.append(("a list of per-sample arrays of mixed number types",
                          [data[i].astype(np.int64) if i in whole else data[i].copy() for i in order], 1e-9))
            # the same list with the first sample moved to the origin and everything halved (first sample whole - all zeros -, later
            # ones not, whenever two samples differ by an odd amount): mean and precision follow exactly, (mean - x0) / 2 and 4 Q
            half = (data - data[0]) * 0.5
            if not np.array_equal(half, np.round(half)):
                lst = [half[i].astype(np.int64) if np.array_equal(half[i], np.round(half[i])) else half[i].copy() for i in range(len(half))]
                try:
                    mh = GMRFVectorModel(lst, g, mode=c["mode"], sparse=sparse, bias=c["bias"])
                    Qh = _dense(mh.precision).astype(float)
                    Qx4 = 4.0 * L.mat(o["stats"]["Q"])
                    mean_h = (np.array([L.fl(x) for x in o["stats"]["mean"]]) - data[0]) * 0.5
                    if Qh.shape != Qx4.shape or not np.allclose(Qh, Qx4, rtol=0, atol=1e-9 * max(1.0, np.abs(Qx4).max())) \
                            or not np.allclose(mh.mean(), mean_h, atol=1e-9):
                        bad.append(("%s graph, %s storage: a model trained on a LIST of samples whose first member is an integer array and whose "
                                    "later members are not whole differs from the model of the same numbers as one float matrix" %
                                    (gname, "sparse" if sparse else "dense"), {"edges": c["E"], "mode": c["mode"], "bias": c["bias"]}, None))
                    # ... and one query, two spellings: a Python list that starts with an int literal, an ndarray
                    qq = np.array(o["queries"][0], dtype=float)
                    qq[0] = np.round(qq[0])
                    qq[1:] += 0.25
                    d_l = float(np.asarray(mh.mahalanobis_distance([int(qq[0])] + [float(v) for v in qq[1:]])))
                    d_a = float(np.asarray(mh.mahalanobis_distance(qq.copy())))
                    if not np.isclose(d_l, d_a, rtol=1e-9, atol=1e-12):
                        bad.append(("%s graph, %s storage: the Mahalanobis distance of a query written as a Python list (first coordinate an int "
                                    "literal) differs from the same query as an ndarray" % (gname, "sparse" if sparse else "dense"),
                                    {"got": d_l, "want": d_a}, None))
                except Exception as e:
                    from ..core import from_library

                    if not from_library(e):
                        raise
                    bad.append(("%s graph: a model trained on a list of mixed integer / float samples raised %s" % (gname, type(e).__name__), {"msg": str(e)[:100]}, None))
            for fname, arr2, tol in forms:
                tag = "%s graph, %s storage, data stored as %s" % (gname, "sparse" if sparse else "dense", fname)
                try:
                    m = GMRFVectorModel(arr2.copy() if isinstance(arr2, np.ndarray) else list(arr2), g, mode=c["mode"], sparse=sparse, bias=c["bias"])
                    r = _check_stats(m, o["stats"], o["queries"], tag, tol, nv, c["E"])
                except Exception as e:
                    from ..core import from_library

                    if not from_library(e):
                        raise
                    r = tag + ": raised %s: %s" % (type(e).__name__, str(e)[:100])
                if r:
                    bad.append((r, {"edges": c["E"], "mode": c["mode"], "bias": c["bias"]}, None))
            # a directed graph may join two vertices in both directions: two edges, two (equal) blocks - the precision is twice that of
            # the one-directional graph, in either storage
            if sparse and gname == "undirected" and c["E"]:
                ga = _antiparallel(nv, c["E"])
                Qx2 = 2.0 * L.mat(o["stats"]["Q"])
                for sp2 in (True, False):
                    try:
                        Qa = _dense(GMRFVectorModel(data.copy(), ga, mode=c["mode"], sparse=sp2, bias=c["bias"]).precision).astype(float)
                    except Exception as e:
                        bad.append(("directed graph with antiparallel edges (%s storage) raised %s" % ("sparse" if sp2 else "dense", type(e).__name__), {}, None))
                        continue
                    if Qa.shape != Qx2.shape or not np.allclose(Qa, Qx2, rtol=0, atol=1e-9 * max(1.0, np.abs(Qx2).max())):
                        bad.append(("directed graph with antiparallel edges: the %s precision is not the sum over its edges (max diff %.3g)" % (
                            "sparse" if sp2 else "dense", np.abs(Qa - Qx2).max() if Qa.shape == Qx2.shape else float("nan")), {"edges": c["E"], "mode": c["mode"]}, None))
            # the same samples carried far from the origin (a large common offset):
            # the precision does not see an offset, in either storage, in either number type
            if sparse:
                # (in another unit as well, so that the entries are not single-precision numbers: rounding the SAMPLES to float32 would
                #  cost two digits of their spread)
                far = data * 0.737 + 262144.37
                ref = None
                for sp2 in (False, True):
                    for dt2 in (np.float64, np.float32):
                        try:
                            Qf = _dense(GMRFVectorModel(far.copy(), g, mode=c["mode"], sparse=sp2, bias=c["bias"], dtype=dt2).precision).astype(float)
                        except Exception as e:
                            bad.append(("%s graph: data far from the origin raised %s" % (gname, type(e).__name__), {}, None))
                            continue
                        if ref is None:
                            ref = Qf
                        elif Qf.shape != ref.shape or not np.allclose(Qf, ref, rtol=0, atol=2e-3 * max(1.0, np.abs(ref).max())):
                            bad.append(("%s graph: for samples far from the origin the %s %s precision differs from the dense float64 one (max %.3g)" % (
                                gname, "sparse" if sp2 else "dense", np.dtype(dt2).name, np.abs(Qf - ref).max()), {"edges": c["E"], "mode": c["mode"]}, None))
            # the object-backed class (samples and queries are shapes) on the same data
            from menpo.model import GMRFModel

            tag = "GMRFModel, %s graph, %s storage" % (gname, "sparse" if sparse else "dense")
            sm = _ShapeModel(GMRFModel(_ShapeModel.shapes(data), g, mode=c["mode"], sparse=sparse, bias=c["bias"]))
            r = _check_stats(sm, o["stats"], o["queries"], tag, 1e-9, nv, c["E"])
            if r:
                bad.append((r, {"edges": c["E"], "mode": c["mode"], "bias": c["bias"]}, None))
            # ... and on training shapes whose coordinates are stored as whole numbers (pixel annotations): same model, and a mean
            # that is the sample mean, not its integer part
            if np.array_equal(data, np.round(data)):
                from menpo.shape import PointCloud

                ishapes = [PointCloud(np.asarray(r_, dtype=np.int64).reshape(-1, 1)) for r_ in data]
                tag = "GMRFModel on integer-typed shapes, %s graph, %s storage" % (gname, "sparse" if sparse else "dense")
                try:
                    smi = _ShapeModel(GMRFModel(ishapes, g, mode=c["mode"], sparse=sparse, bias=c["bias"]))
                    r = _check_stats(smi, o["stats"], o["queries"], tag, 1e-9, nv, c["E"])
                except Exception as e:
                    from ..core import from_library

                    if not from_library(e):
                        raise
                    r = tag + ": raised %s: %s" % (type(e).__name__, str(e)[:100])
                if r:
                    bad.append((r, {"edges": c["E"], "mode": c["mode"], "bias": c["bias"]}, None))
    return bad


class _ShapeModel:
    """GMRFModel (Vectorizable samples: one 1-D point per vertex) seen through the vector interface of _check_stats"""

    def __init__(self, m):
        self.m = m

    @staticmethod
    def shapes(rows):
        from menpo.shape import PointCloud

        return [PointCloud(np.asarray(r, dtype=float).reshape(-1, 1)) for r in rows]

    precision = property(lambda self: self.m.precision)
    mean_vector = property(lambda self: self.m.mean_vector)
    n_samples = property(lambda self: self.m.n_samples)

    def mean(self):
        return self.m.mean().as_vector()

    def mahalanobis_distance(self, q, **kw):
        q = np.asarray(q, dtype=float)
        return self.m.mahalanobis_distance(self.shapes(q) if q.ndim == 2 else self.shapes([q])[0], **kw)

    def increment(self, rows):
        self.m.increment(self.shapes(rows))


def _scale_equivariance(data, g, c, bad, tag):
    """the same data in other units (x 1e-4, x 1e3): precision scales by 1 / unit^2, the mean by unit, distances are unit-free"""
    from menpo.model import GMRFVectorModel

    base = GMRFVectorModel(data.copy(), g, mode=c["mode"], sparse=False, bias=c["bias"])
    P0 = np.asarray(base.precision, dtype=float)
    q = data[:2] * 0.5 + 1.0
    d0 = np.asarray(base.mahalanobis_distance(q), dtype=float)
    for unit in (1e-4, 1e3):
        for sparse in (True, False):
            m = GMRFVectorModel(data * unit, g, mode=c["mode"], sparse=sparse, bias=c["bias"])
            P = _dense(m.precision).astype(float)
            if P.shape != P0.shape or not np.allclose(P * unit * unit, P0, rtol=1e-6, atol=1e-9 * np.abs(P0).max()):
                bad.append((tag + ": the precision of the same data in units of %g is not the precision / unit^2 (%s storage)" % (unit, "sparse" if sparse else "dense"), {}, None))
                continue
            d = np.asarray(m.mahalanobis_distance(q * unit), dtype=float)
            if not np.allclose(d, d0, rtol=1e-6, atol=1e-9):
                bad.append((tag + ": Mahalanobis distances change with the unit of the data (%g)" % unit, {}, None))


def check_incr(o):
    from menpo.model import GMRFModel, GMRFVectorModel

    bad = []
    c = o["case"]
    nv = o["nv"]
    data = np.array(o["data"], dtype=float)
    comp = c["comp"]
    for gname, g in _graphs(nv, c["E"])[:1]:
        for sparse, shaped in ((True, False), (False, False), (True, True), (False, True)):
            a = comp[0]
            if shaped:
                m = _ShapeModel(GMRFModel(_ShapeModel.shapes(data[:a]), g, mode=c["mode"], sparse=sparse, bias=c["bias"], incremental=True))
            else:
                m = GMRFVectorModel(data[:a].copy(), g, mode=c["mode"], sparse=sparse, bias=c["bias"], incremental=True)
            for k, st in enumerate(o["steps"]):
                if k > 0:
                    chunk = data[a:a + comp[k]].copy()
                    m.increment(chunk)
                    if not np.array_equal(chunk, data[a:a + comp[k]]):
                        bad.append(("increment modified the caller's data array", {"composition": comp}, None))
                    a += comp[k]
                tag = "%s, %s storage after %d increment(s) (chunks %s)" % ("GMRFModel" if shaped else "GMRFVectorModel", "sparse" if sparse else "dense", k, comp[:k + 1])
                r = _check_stats(m, st, o["queries"], tag, 1e-8, nv, c["E"])
                if r:
                    bad.append((r, {"edges": c["E"], "mode": c["mode"], "bias": c["bias"], "composition": comp}, None))
                    break
    # the same composition on the directed graph that joins every pair in both directions: increments == batch, either storage
    if c["E"]:
        ga = _antiparallel(nv, c["E"])
        for sparse in (True, False):
            b_ = GMRFVectorModel(data.copy(), ga, mode=c["mode"], sparse=sparse, bias=c["bias"])
            a = comp[0]
            m = GMRFVectorModel(data[:a].copy(), ga, mode=c["mode"], sparse=sparse, bias=c["bias"], incremental=True)
            for k in range(1, len(comp)):
                m.increment(data[a:a + comp[k]].copy())
                a += comp[k]
            Qb, Qm = _dense(b_.precision).astype(float), _dense(m.precision).astype(float)
            if Qb.shape != Qm.shape or not np.allclose(Qb, Qm, rtol=0, atol=1e-8 * max(1.0, np.abs(Qb).max())):
                bad.append(("directed graph with antiparallel edges, %s storage: the incremented precision differs from the batch one (max %.3g)" % (
                    "sparse" if sparse else "dense", np.abs(Qb - Qm).max()), {"edges": c["E"], "composition": comp}, None))
    return bad


def check_blocks(o):
    """k features per vertex: the assembly rule of the specification with numpy's inverse as the block symbol"""
    from menpo.model import GMRFVectorModel

    bad = []
    c = o["case"]
    nv, k = o["nv"], o["k"]
    rng = np.random.RandomState(11)
    data = rng.randint(0, 7, size=(9, nv * k)).astype(float) + rng.rand(9, nv * k) * 0.25
    pl = o["placement"]
    nc = c["ncomp"]

    def binv(C):
        C = np.atleast_2d(C)
        if nc == 0:
            return np.linalg.inv(C)
        w, V = np.linalg.eigh(C)
        j = np.argsort(w)[::-1][:nc]
        return (V[:, j] / w[j]) @ V[:, j].T

    Q = np.zeros((nv * k, nv * k))
    if pl["edges"]:
        for e in pl["edges"]:
            a, b = slice(e["a"]["from"], e["a"]["to"]), slice(e["b"]["from"], e["b"]["to"])
            if c["mode"] == "concatenation":
                inv = binv(np.cov(np.hstack([data[:, a], data[:, b]]), rowvar=0, bias=c["bias"]))
                Q[a, a] += inv[:k, :k]
                Q[b, b] += inv[k:, k:]
                Q[a, b] += inv[:k, k:]
                Q[b, a] += inv[k:, :k]
            else:
                inv = binv(np.cov(data[:, a] - data[:, b], rowvar=0, bias=c["bias"]))
                Q[a, a] += inv
                Q[b, b] += inv
                Q[a, b] -= inv
                Q[b, a] -= inv
    else:
        for r in pl["diagonal"]:
            a = slice(r["from"], r["to"])
            Q[a, a] = binv(np.cov(data[:, a], rowvar=0, bias=c["bias"]))
    mean = data.mean(axis=0)
    if nc == 0:
        _scale_equivariance(data, _graphs(nv, c["E"])[0][1], c, bad, "k=%d" % k)
    qs = np.vstack([mean + 1.0, mean * 0.5, np.arange(nv * k, dtype=float)])
    want_m = np.einsum("ij,jk,ik->i", qs - mean, Q, qs - mean)
    for gname, g in _graphs(nv, c["E"]):
        models = {}
        for sparse in (True, False):
            tag = "k=%d n_components=%s %s graph, %s storage" % (k, nc or None, gname, "sparse" if sparse else "dense")
            arr = data.copy()
            m = GMRFVectorModel(arr, g, mode=c["mode"], sparse=sparse, bias=c["bias"], n_components=nc or None)
            if not np.array_equal(arr, data):
                bad.append((tag + ": building the model modified the caller's data array", {}, None))
            try:
                P = _dense(m.precision).astype(float)
            except Exception as e:
                bad.append((tag + ": malformed precision (%s)" % type(e).__name__, {"edges": c["E"]}, None))
                continue
            models[sparse] = P
            sc = max(1.0, np.abs(Q).max())
            if P.shape != Q.shape or not np.allclose(P, Q, atol=1e-8 * sc):
                bad.append((tag + ": precision is not the sum of the inverted block covariances placed at their blocks", {"edges": c["E"], "mode": c["mode"]}, None))
                continue
            if not np.allclose(P, P.T, atol=1e-9 * sc) or np.linalg.eigvalsh((P + P.T) / 2).min() < -1e-7 * sc:
                bad.append((tag + ": precision not symmetric positive semi-definite", {}, None))
            got = np.asarray(m.mahalanobis_distance(qs), dtype=float)
            one = np.array([float(m.mahalanobis_distance(q)) for q in qs])
            if not np.allclose(got, want_m, rtol=1e-7, atol=1e-7) or not np.allclose(one, want_m, rtol=1e-7, atol=1e-7):
                bad.append((tag + ": Mahalanobis distances differ", {}, None))
            if abs(float(m.mahalanobis_distance(mean))) > 1e-7 or not np.allclose(m.mean(), mean):
                bad.append((tag + ": mean / distance at the mean wrong", {}, None))
        if len(models) == 2 and not np.allclose(models[True], models[False], atol=1e-10):
            bad.append(("k=%d %s graph: sparse and dense precision differ" % (k, gname), {"edges": c["E"]}, None))
    return bad


def run_case(o):
    if o["case"]["kind"] == "blocks":
        return check_blocks(o)
    return check_batch(o) if o["case"]["kind"] == "batch" else check_incr(o)
