"""Adapter for Features.tla: the wrapper protocol and the normaliser algebra of menpo.feature."""
import math
import warnings

import numpy as np

from .. import lattice as L
from .shapes import same, state


def _feature(name, params):
    import menpo.feature as mf

    simple = {"gradient": mf.gradient, "gaussian_filter": lambda x: mf.gaussian_filter(x, 1.5), "gaussian_filter_0": lambda x: mf.gaussian_filter(x, 0), "igo": mf.igo, "double_igo": mf.double_igo,
              "es": mf.es, "no_op": mf.no_op, "normalize_std": mf.normalize_std, "normalize_norm": mf.normalize_norm,
              "normalize_var": mf.normalize_var,
              "igo_of_gaussian": lambda x: mf.igo(mf.gaussian_filter(x, 1.5)),
              "normalize_std_of_gradient": lambda x: mf.normalize_std(mf.gradient(x)),
              "gradient_of_no_op": lambda x: mf.gradient(mf.no_op(x))}
    if name in simple:
        return simple[name]
    p = {k: v for k, v in params.items()}
    return lambda x: mf.daisy(x, **p)


def check_wrap(o):
    from menpo.image import Image, MaskedImage
    from menpo.shape import PointCloud

    bad = []
    c = o["case"]
    H, W = c["shape"]
    rng = np.random.RandomState(7)
    px = rng.rand(c["c"], H, W).astype(c["dtype"]) + 0.1
    if c["img"] == "image":
        img = Image(px.copy())
    else:
        m = np.ones((H, W), dtype=bool)
        if c["img"] == "masked_sparse":
            m = (np.add.outer(np.arange(H), np.arange(W)) % 3) != 0
        img = MaskedImage(px.copy(), mask=m)
    for name, pts in o["lms_in"]:
        img.landmarks[name] = PointCloud(L.pts(pts))
    s0 = state(img)
    f = _feature(c["f"], o["daisy"])
    with warnings.catch_warnings():
        warnings.simplefilter("ignore")
        r = f(img)
        raw = f(px.copy())
    d = same(s0, state(img))
    if d:
        bad.append(("the feature modified its input image: " + d, {}, None))
    if type(r).__name__ != o["kind"]:
        bad.append(("result is a %s, expected %s" % (type(r).__name__, o["kind"]), {}, None))
        return bad
    want_shape = (o["channels"],) + tuple(o["shape"])
    if r.pixels.shape != want_shape:
        bad.append(("result pixels have shape %r, expected %r" % (r.pixels.shape, want_shape), {}, None))
        return bad
    if not isinstance(raw, np.ndarray) or raw.shape != r.pixels.shape or not np.array_equal(raw, r.pixels, equal_nan=True):
        bad.append(("feature(image).pixels differs from feature(image.pixels)",
                    {"maxdiff": float(np.nanmax(np.abs(raw - r.pixels))) if isinstance(raw, np.ndarray) and raw.shape == r.pixels.shape else None}, None))
    if not np.array_equal(px, img.pixels):
        bad.append(("the feature modified the pixel array of its input", {}, None))
    # the result is a new object: writing into it must not reach the input (and vice versa)
    if np.shares_memory(r.pixels, img.pixels):
        bad.append(("the feature image shares its pixel buffer with the input image", {}, None))
    px2 = px.copy()
    with warnings.catch_warnings():
        warnings.simplefilter("ignore")
        raw2 = f(px2)
    if isinstance(raw2, np.ndarray) and np.shares_memory(raw2, px2):
        bad.append(("the feature of a raw array shares memory with that array", {}, None))
    # an image whose mask is all true has a feature image whose mask is all true - also when the output grid is one row / column
    if c["img"] == "masked_full" and hasattr(r, "mask") and not bool(np.all(r.mask.mask)):
        bad.append(("the feature of an image with an all-true mask has %d false mask pixels (output shape %r)" % (int((~r.mask.mask).sum()), tuple(r.shape)), {}, None))
    # where the image came from is not part of what the feature computes: the same image remembering a file path (as every
    # imported image does) gives the same feature image, landmarks and mask
    import pathlib

    img_p = img.copy()
    img_p.path = pathlib.Path("/data/set.v2/face_01.png")
    with warnings.catch_warnings():
        warnings.simplefilter("ignore")
        r_p = f(img_p)
    d = same(state(r), state(r_p))
    if d:
        bad.append(("the feature of the same image carrying a file path (an imported image) differs: " + d, {}, None))
    if o["daisy"]["rings"]:
        # options given explicitly with the values the defaults stand for give the same feature; the caller's option lists are
        # not modified, so a second call with the same objects agrees with the first
        import menpo.feature as mf

        dz = o["daisy"]
        sig = [dz["radius"] * (i + 1) / float(2 * dz["rings"]) for i in range(dz["rings"])] + [float(dz["radius"])]
        rr = [dz["radius"] * (i + 1) / float(dz["rings"]) for i in range(dz["rings"])]
        rr[-1] = int(dz["radius"])          # (the outermost radius doubles as the integer `radius`)
        s_keep, r_keep = list(sig), list(rr)
        kw = dict(step=dz["step"], histograms=dz["histograms"], orientations=dz["orientations"], sigmas=sig, ring_radii=rr)
        with warnings.catch_warnings():
            warnings.simplefilter("ignore")
            e1 = mf.daisy(px.copy(), **kw)
            e2 = mf.daisy(img, **kw)
        if sig != s_keep or rr != r_keep:
            bad.append(("daisy modified the option lists it was given", {"sigmas": sig, "ring_radii": rr}, None))
        if e1.shape != raw.shape or not np.array_equal(e1, raw):
            bad.append(("daisy with sigmas / ring_radii given explicitly at their default values differs from the default call", {}, None))
        if e2.pixels.shape != e1.shape or not np.array_equal(e2.pixels, e1):
            bad.append(("two daisy calls with the same option objects disagree (array then image)", {"shapes": [e1.shape, e2.pixels.shape]}, None))
    names = [n for n, _ in o["lms"]]
    have = list(r.landmarks.group_labels) if r.has_landmarks else []
    if sorted(have) != sorted(names):
        bad.append(("landmark groups %r on the result, expected %r" % (have, names), {}, None))
    else:
        for n, pts in o["lms"]:
            if not L.close(r.landmarks[n].points, L.pts(pts), 1e-12):
                bad.append(("landmark group %r not carried / rescaled to the new size" % n, {"got": r.landmarks[n].points, "want": L.pts(pts)}, None))
            if np.shares_memory(r.landmarks[n].points, img.landmarks[n].points):
                bad.append(("result landmarks alias the input's", {}, None))
    # the result OWNS its annotations: adding, editing and deleting groups on it is not seen by the input image
    if hasattr(r, "landmarks") and hasattr(img, "landmarks"):
        from menpo.shape import PointCloud as _PC
        before = {n: img.landmarks[n].points.copy() for n in (img.landmarks.group_labels if img.has_landmarks else [])}
        if r.landmarks is img.landmarks:
            bad.append(("the feature image and the input image share one landmark manager", {}, None))
        r.landmarks["__probe__"] = _PC(np.zeros((1, img.n_dims)))
        for n in list(r.landmarks.group_labels):
            r.landmarks[n].points[...] += 1.0
        after = {n: img.landmarks[n].points.copy() for n in (img.landmarks.group_labels if img.has_landmarks else [])}
        if sorted(after) != sorted(before) or any(not np.array_equal(before[n], after[n]) for n in before):
            bad.append(("editing the landmarks of the feature image changed the input image's landmarks", {"groups": sorted(after)}, None))
        for n in list(r.landmarks.group_labels):
            del r.landmarks[n]
        if sorted(img.landmarks.group_labels if img.has_landmarks else []) != sorted(before):
            bad.append(("deleting landmark groups of the feature image deleted them on the input image", {}, None))
    if o["mask_rule"] == "copy":
        if not np.array_equal(r.mask.mask, img.mask.mask):
            bad.append(("mask not carried over unchanged", {}, None))
        if np.shares_memory(r.mask.pixels, img.mask.pixels):
            bad.append(("result mask aliases the input mask", {}, None))
    elif o["mask_rule"] == "resize":
        want = img.mask.resize(tuple(o["shape"]))
        if r.mask.shape != tuple(o["shape"]) or not np.array_equal(r.mask.mask, want.mask):
            bad.append(("mask not resized to the feature image's size", {}, None))
    return bad


def _owns_landmarks(r, x, tag, bad):
    """a normalised image keeps the input's annotations as its OWN copies (add / edit / delete on the result is not seen by the input)"""
    from menpo.shape import PointCloud as _PC
    if isinstance(x, np.ndarray) or isinstance(r, np.ndarray):
        return
    want = {n: x.landmarks[n].points.copy() for n in x.landmarks.group_labels}
    have = {n: r.landmarks[n].points.copy() for n in (r.landmarks.group_labels if r.has_landmarks else [])}
    if sorted(have) != sorted(want) or any(not np.array_equal(have[n], want[n]) for n in want):
        bad.append((tag + ": the landmarks of the input are not carried onto the normalised image", {"got": sorted(have), "want": sorted(want)}, None))
        return
    if r.landmarks is x.landmarks or any(np.shares_memory(r.landmarks[n].points, x.landmarks[n].points) for n in want):
        bad.append((tag + ": the normalised image shares its landmark manager / point buffers with the input", {}, None))
    r.landmarks["__probe__"] = _PC(np.zeros((1, x.n_dims)))
    for n in want:
        r.landmarks[n].points[...] += 1.0
    now = {n: x.landmarks[n].points.copy() for n in x.landmarks.group_labels}
    if sorted(now) != sorted(want) or any(not np.array_equal(now[n], want[n]) for n in want):
        bad.append((tag + ": editing the landmarks of the normalised image changed the input image's landmarks", {"groups": sorted(now)}, None))
    # put the input back for the calls that follow
    for n in list(x.landmarks.group_labels):
        if n not in want:
            del x.landmarks[n]
    for n in want:
        x.landmarks[n].points[...] = want[n]


def check_norm(o):
    import menpo.feature as mf
    from menpo.image import Image, MaskedImage

    bad = []
    c = o["case"]
    g = np.array(o["grid"], dtype=float)
    nch, npix = g.shape
    unit = 10.0 ** (-c.get("unit", 0))
    px = g.reshape(nch, 2, npix // 2) * unit
    f = {"std": mf.normalize_std, "norm": mf.normalize_norm, "var": mf.normalize_var}[c["stat"]]
    cen = np.array([[L.fl(x) for x in row] for row in o["centred"]]).reshape(px.shape)
    s2 = np.array([L.fl(x) for x in o["scale2"]])
    scale = s2 if c["stat"] == "var" else np.sqrt(s2)
    if c["mode"] == "all":
        scale = np.full(nch, scale[0])
    # values are grid * unit: centred values scale by unit, std / norm by unit, var by unit^2
    cen = cen * unit
    scale = scale * (unit * unit if c["stat"] == "var" else unit)
    if o["outcome"] == "ok":
        want = cen / scale[:, None, None]
    elif o["outcome"] == "skip_zero":
        want = cen.copy()
        if c["mode"] == "per_channel":
            nz = scale != 0
            want[nz] = cen[nz] / scale[nz][:, None, None]
    inputs = [("array", px.copy()), ("Image", Image(px.copy())), ("MaskedImage", MaskedImage(px.copy()))]
    from menpo.shape import PointCloud
    for _, x in inputs[1:]:
        x.landmarks["a"] = PointCloud(np.array([[0.0, 0.0], [1.0, 0.5]]))
        x.landmarks["b"] = PointCloud(np.array([[0.5, 1.0]]))
    for tag, x in inputs:
        keep = px.copy()
        try:
            with warnings.catch_warnings():
                warnings.simplefilter("ignore")
                r = f(x, mode=c["mode"], error_on_divide_by_zero=c["raise"])
            got = r if isinstance(r, np.ndarray) else r.pixels
            outcome = "value"
        except ValueError:
            outcome = "ValueError"
        if o["outcome"] == "ValueError":
            if outcome != "ValueError":
                bad.append(("%s: a zero scale was not refused although error_on_divide_by_zero=True" % tag, {}, None))
            continue
        if outcome == "ValueError":
            bad.append(("%s: ValueError although the scale is %s" % (tag, "non-zero" if o["outcome"] == "ok" else "zero and skipping was requested"), {}, None))
            continue
        if not np.all(np.isfinite(got)):
            bad.append((tag + ": non-finite values produced", {}, None))
        elif got.shape != want.shape or not np.allclose(got, want, rtol=1e-9, atol=1e-12 * max(1.0, float(np.abs(want).max()))):
            bad.append((tag + ": normalised values differ from (x - mean) / scale", {"got": got, "want": want}, None))
        if not np.array_equal(px, keep) or (not isinstance(x, np.ndarray) and not np.array_equal(x.pixels, keep)):
            bad.append((tag + ": the normaliser modified its input", {}, None))
        _owns_landmarks(r, x, tag, bad)
        # the same request through the generic normaliser with the matching scale statistic, and with the options given by position:
        # same outcome, same values, same kind of result
        def _stat(v, axis=None):
            if c["stat"] == "std":
                return np.std(v, axis=axis)
            if c["stat"] == "var":
                return np.var(v, axis=axis)
            return np.sqrt(np.sum(np.asarray(v) ** 2, axis=axis))

        fresh = x.copy()
        calls = [("normalize(x, scale_func=..., mode=..., error_on_divide_by_zero=...)",
                  lambda: mf.normalize(fresh, scale_func=_stat, mode=c["mode"], error_on_divide_by_zero=c["raise"])),
                 ("normalize(x, scale_func, mode, error_on_divide_by_zero) [positional]", lambda: mf.normalize(fresh, _stat, c["mode"], c["raise"])),
                 ("%s(x, mode, error_on_divide_by_zero) [positional]" % f.__name__, lambda: f(fresh, c["mode"], c["raise"]))]
        for ctag, call in calls:
            try:
                with warnings.catch_warnings():
                    warnings.simplefilter("ignore")
                    r2 = call()
                g2 = r2 if isinstance(r2, np.ndarray) else r2.pixels
                out2 = "value"
                _owns_landmarks(r2, fresh, tag + ": " + ctag, bad)
            except ValueError:
                out2 = "ValueError"
            except Exception as e:
                bad.append(("%s: %s raised %s" % (tag, ctag, type(e).__name__), {"msg": str(e)[:120]}, None))
                continue
            if out2 != outcome:
                bad.append(("%s: %s gives %s, the keyword call of %s gives %s" % (tag, ctag, out2, f.__name__, outcome), {}, None))
            elif out2 == "value" and (type(r2) is not type(r) or g2.shape != got.shape or not np.allclose(g2, got, rtol=1e-9, atol=1e-12 * max(1.0, float(np.abs(got).max())))):
                bad.append(("%s: %s differs from the keyword call of %s" % (tag, ctag, f.__name__), {}, None))
        if o["outcome"] == "ok" and c["stat"] in ("std", "norm") and outcome == "value":
            with warnings.catch_warnings():
                warnings.simplefilter("ignore")
                again = f(got.copy(), mode=c["mode"], error_on_divide_by_zero=c["raise"])
            if not np.allclose(again, got, rtol=1e-9, atol=1e-12):
                bad.append((tag + ": a second application changes the result", {}, None))
    return bad


def run_case(o):
    return check_wrap(o) if o["case"]["kind"] == "wrap" else check_norm(o)
