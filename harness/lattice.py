"""Abstract values of the specifications <-> numpy: rationals are [num, den] pairs."""
from fractions import Fraction

import numpy as np


def fr(q):
    return Fraction(int(q[0]), int(q[1]))


def fl(q):
    return int(q[0]) / int(q[1])


def mat(M):
    """matrix over Q (rows of [n, d]) -> float64 ndarray"""
    return np.array([[fl(x) for x in row] for row in M], dtype=float)


def fmat(M):
    return [[fr(x) for x in row] for row in M]


def pts(P):
    """sequence of rational points -> (n, d) float ndarray"""
    if len(P) == 0:
        return np.zeros((0, 2))
    return np.array([[fl(x) for x in p] for p in P], dtype=float)


def ipts(P):
    """sequence of integer points -> (n, d) float ndarray"""
    return np.array(P, dtype=float)


def apply_h(M, P):
    """exact homogeneous application (float evaluation of the exact matrix)"""
    M = np.asarray(M, dtype=float)
    P = np.asarray(P, dtype=float)
    h = np.hstack([P, np.ones((P.shape[0], 1))]) @ M.T
    return h[:, :-1] / h[:, -1:]


def close(a, b, tol=1e-9):
    a = np.asarray(a, dtype=float)
    b = np.asarray(b, dtype=float)
    if a.shape != b.shape:
        return False
    if a.size == 0:
        return True
    scale = max(1.0, float(np.abs(b).max()))
    return bool(np.abs(a - b).max() <= tol * scale)


def maxdiff(a, b):
    a = np.asarray(a, dtype=float)
    b = np.asarray(b, dtype=float)
    if a.shape != b.shape:
        return float("inf")
    return float(np.max(np.abs(a - b))) if a.size else 0.0
