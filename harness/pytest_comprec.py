"""pytest plugin (loaded with `-p harness.pytest_comprec`, PYTHONPATH=/verif): records every composition,
in-place composition and pseudoinverse the repository's own tests perform on menpo transforms, as
events in the vocabulary of Transforms.tla (one trace per test; JSON written to $COMPREC_OUT).

Per event: the operand ids (objects are numbered in order of first appearance, results get the next
id exactly as the specification's NewId), the class projection of the result / receiver, the outcome,
and three clause flags evaluated here on the real operands (the specification cannot hold arbitrary
float matrices): law, honest, intact.  Nothing in /repo is modified: wrappers are installed from
outside."""
import copy
import json
import os

import numpy as np

FAMILY = ("Homogeneous", "Affine", "Similarity", "Rotation", "Translation", "UniformScale", "NonUniformScale")
_state = {"traces": [], "cur": None}
_depth = {"n": 0}


def proj(t):
    from menpo.transform import TransformChain
    from menpo.transform.base.alignment import Alignment

    if isinstance(t, TransformChain):
        return "Chain", False
    for c in type(t).__mro__:
        if c.__name__ in FAMILY and c.__module__.startswith("menpo.transform.homogeneous"):
            return c.__name__, isinstance(t, Alignment)
    return "Opaque", False


def sig(t, seen=()):
    """value signature used for the 'intact' clause"""
    from menpo.transform import TransformChain

    if isinstance(t, TransformChain):
        if id(t) in seen:
            return ("cycle",)
        return ("chain",) + tuple(sig(m, seen + (id(t),)) for m in t.transforms)
    h = getattr(t, "h_matrix", None)
    if isinstance(h, np.ndarray):
        extra = ()
        if hasattr(t, "target") and hasattr(t, "source"):
            extra = (np.asarray(t.source.points).tobytes(), np.asarray(t.target.points).tobytes())
        return (np.asarray(h).tobytes(),) + extra
    return ("opaque", id(t))


def honest(t):
    cls, _ = proj(t)
    if cls in ("Chain", "Opaque", "Homogeneous"):
        return True
    h = np.asarray(t.h_matrix, dtype=float)
    d = h.shape[0] - 1
    A, tr = h[:d, :d], h[:d, d]
    sc = max(1.0, np.abs(h).max())
    tol = 1e-8 * sc
    if np.abs(h[d, :d]).max() > tol or abs(h[d, d] - 1) > tol:
        return False
    if cls == "Affine":
        return True
    if cls == "Translation":
        return np.allclose(A, np.eye(d), atol=tol)
    if cls == "UniformScale":
        return np.allclose(A, A[0, 0] * np.eye(d), atol=tol) and np.abs(tr).max() <= tol
    if cls == "NonUniformScale":
        return np.allclose(A, np.diag(np.diag(A)), atol=tol) and np.abs(tr).max() <= tol
    G = A.T @ A
    if cls == "Rotation":
        return np.allclose(G, np.eye(d), atol=1e-7) and np.abs(tr).max() <= tol
    if cls == "Similarity":
        return np.allclose(G, G[0, 0] * np.eye(d), atol=1e-7 * max(1.0, abs(G[0, 0])))
    return True


def _points(*ts):
    d = None
    for t in ts:
        d = getattr(t, "n_dims", None)
        if isinstance(d, (int, np.integer)) and d > 0:
            break
        d = None
    if not d:
        return None
    rng = np.random.RandomState(3)
    return rng.rand(6, d) * 4 - 1


def _apply(t, P):
    try:
        r = np.asarray(t.apply(P), dtype=float)
    except Exception:
        return None
    return r if np.isfinite(r).all() else None


def _close(a, b):
    if a is None or b is None:
        return True          # not judged (outside a warp's domain, singular projective point, ...)
    if a.shape != b.shape:
        return False
    sc = max(1.0, np.abs(a).max(), np.abs(b).max())
    return bool(np.abs(a - b).max() <= 1e-6 * sc)


class _Trace:
    def __init__(self, name):
        self.name = name
        self.events = []
        self.ids = {}
        self.keep = []
        self.shadow = {}
        self.broken = False

    def ev(self, op, a=0, b=0, cls="", al=False, members=(), err="", law=True, honest=True, intact=True):
        self.events.append({"op": op, "a": a, "b": b, "cls": cls, "al": bool(al), "members": list(members), "err": err,
                            "law": bool(law), "honest": bool(honest), "intact": bool(intact)})

    def members(self, t):
        return [self.oid(m) for m in t.transforms]

    def register(self, t):
        self.keep.append(t)
        i = len(self.ids) + 1
        self.ids[id(t)] = i
        return i

    def oid(self, t):
        """id of an object; an unknown object is introduced (a chain after its members)"""
        k = id(t)
        if k in self.ids:
            return self.ids[k]
        cls, al = proj(t)
        ms = []
        if cls == "Chain":
            ms = [self.oid(m) for m in t.transforms if id(m) != k]   # (a chain listing itself is not followed)
        i = self.register(t)
        self.shadow[i] = list(ms)
        self.ev("intro", cls=cls, al=al, members=ms)
        return i

    def operand(self, t):
        i = self.oid(t)
        if proj(t)[0] == "Chain":
            ms = self.members(t)
            if ms != self.shadow.get(i):
                self.shadow[i] = list(ms)
                self.ev("sync", a=i, cls="Chain", members=ms)
        return i

    def result(self, r):
        """a fresh result object takes the next id; its chain members must already be known"""
        cls, al = proj(r)
        ms = self.members(r) if cls == "Chain" else []
        i = self.register(r)
        self.shadow[i] = list(ms)
        return i, cls, al, ms


def _guard(hooks, orig):
    """hooks = (pre, post, on_err).  The recorder never changes what the wrapped call does: a failure inside the
    recorder itself abandons the trace of this test (events so far are kept, the rest is not recorded)."""
    pre, post, on_err = hooks

    def w(self, *a, **kw):
        tr = _state["cur"]
        if tr is None or _depth["n"] > 0 or tr.broken or kw:
            return orig(self, *a, **kw)
        _depth["n"] += 1
        try:
            ctx = None
            try:
                ctx = pre(tr, self, *a)
            except Exception:
                tr.broken = True
            try:
                r = orig(self, *a)
            except Exception as e:
                if ctx is not None and not tr.broken:
                    try:
                        on_err(tr, ctx, e)
                    except Exception:
                        tr.broken = True
                raise
            if ctx is not None and not tr.broken:
                try:
                    post(tr, ctx, self, r, *a)
                except Exception:
                    tr.broken = True
            return r
        finally:
            _depth["n"] -= 1
    w.__name__ = getattr(orig, "__name__", "w")
    w.__doc__ = getattr(orig, "__doc__", None)
    return w


def _snap(t):
    try:
        return copy.deepcopy(t)
    except Exception:
        return None


def _real(t):
    from menpo.transform.base import Transform

    return isinstance(t, Transform) and type(t).__module__.startswith("menpo.")


def _pure(side):
    def pre(tr, self, transform):
        if not (_real(self) and _real(transform)):
            return None
        return {"a": tr.operand(self), "b": tr.operand(transform), "sa": sig(self), "sb": sig(transform)}

    def on_err(tr, c, e):
        tr.ev(side, c["a"], c["b"], err=type(e).__name__)

    def post(tr, c, self, r, transform):
        a, b = c["a"], c["b"]
        if id(r) in tr.ids:                       # the specification promises a fresh object
            tr.ev(side, a, b, cls="not fresh")
            tr.broken = True
            return
        P = _points(self, transform)
        law = True
        if P is not None:
            first, second = (self, transform) if side == "before" else (transform, self)
            mid = _apply(first, P)
            want = _apply(second, mid) if mid is not None else None
            law = _close(_apply(r, P), want)
        _, cls, al, ms = tr.result(r)
        tr.ev(side, a, b, cls=cls, al=al, members=ms, law=law, honest=honest(r), intact=(sig(self) == c["sa"] and sig(transform) == c["sb"]))
    return pre, post, on_err


def _inplace(side):
    op = side + "_inplace"

    def pre(tr, self, transform):
        if not (_real(self) and _real(transform)):
            return None
        c = {"a": tr.operand(self), "b": tr.operand(transform), "sb": sig(transform) if transform is not self else None}
        c["before"] = _snap(self)
        c["targ"] = _snap(transform) if transform is not self else c["before"]
        return c

    def on_err(tr, c, e):
        tr.ev(op, c["a"], c["b"], err=type(e).__name__)

    def post(tr, c, self, r, transform):
        a, b = c["a"], c["b"]
        cls, al = proj(self)
        ms = tr.members(self) if cls == "Chain" else []
        tr.shadow[a] = list(ms)
        law = True
        P = _points(self, transform)
        if P is not None and c["before"] is not None and c["targ"] is not None and cls != "Chain":
            first, second = (c["before"], c["targ"]) if side == "before" else (c["targ"], c["before"])
            mid = _apply(first, P)
            want = _apply(second, mid) if mid is not None else None
            law = _close(_apply(self, P), want)
        tr.ev(op, a, b, cls=cls, al=al, members=ms, law=law, honest=honest(self), intact=(c["sb"] is None or sig(transform) == c["sb"]))
    return pre, post, on_err


def _pinv_hooks():
    def pre(tr, self):
        if not _real(self) or proj(self)[0] not in FAMILY:
            return None
        return {"a": tr.operand(self), "sa": sig(self)}

    def on_err(tr, c, e):
        tr.ev("pinv", c["a"], err=type(e).__name__)

    def post(tr, c, self, r):
        a = c["a"]
        if id(r) in tr.ids:
            tr.ev("pinv", a, cls="not fresh")
            tr.broken = True
            return
        law = True
        h = np.asarray(self.h_matrix, dtype=float)
        P = _points(self)
        if P is not None and np.isfinite(h).all() and np.linalg.cond(h) < 1e8:
            f, g = _apply(self, P), _apply(r, P)
            law = _close(_apply(r, f) if f is not None else None, P) and _close(_apply(self, g) if g is not None else None, P)
        _, rc, ral, _ = tr.result(r)
        tr.ev("pinv", a, cls=rc, al=ral, law=law, honest=honest(r), intact=(sig(self) == c["sa"]))
    return pre, post, on_err


def install():
    import menpo.transform as mt
    from menpo.transform.base import Transform
    from menpo.transform.base.composable import ComposableTransform

    if getattr(Transform, "_verif_comprec", False):
        return
    Transform._verif_comprec = True
    for klass in (Transform, ComposableTransform):
        for side in ("before", "after"):
            name = "compose_" + side
            if name in klass.__dict__:
                setattr(klass, name, _guard(_pure(side), klass.__dict__[name]))
    for side in ("before", "after"):
        name = "compose_%s_inplace" % side
        setattr(ComposableTransform, name, _guard(_inplace(side), ComposableTransform.__dict__[name]))
    seen = set()
    stack = [Transform]
    while stack:
        k = stack.pop()
        for s in k.__subclasses__():
            if s not in seen:
                seen.add(s)
                stack.append(s)
    for k in seen:
        if "pseudoinverse" in k.__dict__ and k.__module__.startswith("menpo.transform.homogeneous"):
            setattr(k, "pseudoinverse", _guard(_pinv_hooks(), k.__dict__["pseudoinverse"]))


def pytest_configure(config):
    install()


def pytest_runtest_setup(item):
    _state["cur"] = _Trace(item.nodeid)


def pytest_runtest_teardown(item, nextitem):
    tr = _state["cur"]
    _state["cur"] = None
    if tr is not None and any(e["op"] not in ("intro", "sync") for e in tr.events):
        _state["traces"].append({"test": tr.name, "events": tr.events, "recorder_gave_up": tr.broken})


def pytest_sessionfinish(session, exitstatus):
    out = os.environ.get("COMPREC_OUT")
    if out:
        with open(out, "w") as f:
            json.dump(_state["traces"], f)
