"""pytest plugin (loaded with `-p harness.pytest_lazyrec`, PYTHONPATH=/verif): records every
LazyList operation performed while the repository's own tests run, as events in the vocabulary of
LazyList.tla together with the FULL operational state of every resulting list (its thunk
sequence, decoded from the real callables: partial(delayed, f, x) nests exactly as the
specification's MapThunk).  One trace per test; written as JSON to $LAZYREC_OUT at session end.
Nothing in /repo is modified: the wrappers are installed from outside at import time."""
import collections.abc as cabc
import json
import os
from functools import partial

NONE_V = 1000
PLAIN_BASE = 100

_state = {"traces": [], "cur": None}


class _Trace:
    def __init__(self, name):
        self.name = name
        self.events = []
        self.lists = {}      # id(obj) -> list id
        self.keep = []       # keep objects alive so that id() stays unique
        self.proj = {}       # id(callable) -> [base, fs]
        self.nf = 0
        self.nb = 0
        self.broken = None

    # ---- projection of real callables onto thunks ------------------------------------------------
    def thunk(self, c, new_fid=None):
        k = id(c)
        if k in self.proj:
            return self.proj[k]
        self.keep.append(c)
        if isinstance(c, partial) and getattr(c.func, "__name__", "") == "delayed" and len(c.args) == 2 and new_fid is not None:
            inner = self.thunk(c.args[1])
            t = [inner[0], inner[1] + [new_fid]]
        else:
            self.nb += 1
            t = [PLAIN_BASE + self.nb, []]
        self.proj[k] = t
        return t

    def thunks(self, ll, fids=None):
        out = []
        for i, c in enumerate(ll._callables):
            out.append(self.thunk(c, None if fids is None else fids[i]))
        return [{"base": t[0], "fs": list(t[1])} for t in out]

    def lid(self, ll):
        """id of a list; an unknown list is a new ROOT (all its unknown callables are fresh bases)"""
        k = id(ll)
        if k in self.lists:
            return self.lists[k]
        self.keep.append(ll)
        first = PLAIN_BASE + self.nb + 1
        known = [id(c) in self.proj for c in ll._callables]
        i = len(self.lists) + 1
        self.lists[k] = i
        th = self.thunks(ll)
        self.events.append({"op": "root", "args": [len(ll._callables), first], "obs": {"id": i, "len": len(ll._callables)}, "thunks": th,
                            "fresh": [not x for x in known]})
        return i

    def new(self, ll, fids=None):
        self.keep.append(ll)
        i = len(self.lists) + 1
        self.lists[id(ll)] = i
        return i, self.thunks(ll, fids)

    def ev(self, op, args, obs, thunks=None):
        e = {"op": op, "args": args, "obs": obs}
        if thunks is not None:
            e["thunks"] = thunks
        self.events.append(e)


def _n(v):
    return NONE_V if v is None else int(v)


def install():
    from menpo.base import LazyList

    if getattr(LazyList, "_verif_wrapped", False):
        return
    LazyList._verif_wrapped = True
    orig = {k: getattr(LazyList, k) for k in ("map", "repeat", "copy", "__add__", "__getitem__", "__len__")}
    depth = {"n": 0}

    def guarded(fn):
        def w(self, *a, **kw):
            tr = _state["cur"]
            if tr is None or depth["n"] > 0 or tr.broken:
                return fn(None, self, *a, **kw)
            depth["n"] += 1
            try:
                return fn(tr, self, *a, **kw)
            finally:
                depth["n"] -= 1
        return w

    def do_map(tr, self, f):
        if tr is None:
            return orig["map"](self, f)
        l = tr.lid(self)
        if isinstance(f, cabc.Iterable) and callable(f):
            try:
                return orig["map"](self, f)
            except ValueError:
                tr.ev("map_ambiguous", [l], {"err": "ValueError"})
                raise
        each = isinstance(f, cabc.Iterable) and not callable(f)
        k = len(f) if each else None
        try:
            r = orig["map"](self, f)
        except ValueError:
            tr.ev("map_each" if each else "map", [l, tr.nf + 1] + ([k] if each else []), {"err": "ValueError"})
            raise
        n = len(r._callables)
        fids = [tr.nf + 1 + i for i in range(n)] if each else [tr.nf + 1] * n
        i, th = tr.new(r, fids)
        if each:
            tr.ev("map_each", [l, tr.nf + 1, k], {"id": i, "len": n}, th)
            tr.nf += n
        else:
            tr.ev("map", [l, tr.nf + 1], {"id": i, "len": n}, th)
            tr.nf += 1
        return r

    def do_repeat(tr, self, n):
        if tr is None:
            return orig["repeat"](self, n)
        l = tr.lid(self)
        r = orig["repeat"](self, n)
        i, th = tr.new(r)
        tr.ev("repeat", [l, int(n)], {"id": i, "len": len(r._callables)}, th)
        return r

    def do_copy(tr, self):
        if tr is None:
            return orig["copy"](self)
        l = tr.lid(self)
        r = orig["copy"](self)
        i, th = tr.new(r)
        tr.ev("copy", [l], {"id": i, "len": len(r._callables)}, th)
        return r

    def do_add(tr, self, other):
        if tr is None:
            return orig["__add__"](self, other)
        a = tr.lid(self)
        if isinstance(other, LazyList):
            b = tr.lid(other)
            r = orig["__add__"](self, other)
            i, th = tr.new(r)
            tr.ev("concat", [a, b], {"id": i, "len": len(r._callables)}, th)
            return r
        r = orig["__add__"](self, other)
        k = len(r._callables) - len(self._callables)
        first = PLAIN_BASE + tr.nb + 1
        i, th = tr.new(r)
        tr.ev("concat_plain", [a, k, first], {"id": i, "len": len(r._callables)}, th)
        return r

    def do_getitem(tr, self, s):
        if tr is None:
            return orig["__getitem__"](self, s)
        l = tr.lid(self)
        if isinstance(s, cabc.Iterable):
            idx = [int(x) for x in s]
            try:
                r = orig["__getitem__"](self, idx)
            except IndexError:
                tr.ev("fancy", [l, idx], {"err": "IndexError"})
                raise
            i, th = tr.new(r)
            tr.ev("fancy", [l, idx], {"id": i, "len": len(r._callables)}, th)
            return r
        if isinstance(s, slice):
            args = [l, _n(s.start), _n(s.stop), _n(s.step)]
            try:
                r = orig["__getitem__"](self, s)
            except ValueError:
                tr.ev("slice", args, {"err": "ValueError"})
                raise
            i, th = tr.new(r)
            tr.ev("slice", args, {"id": i, "len": len(r._callables)}, th)
            return r
        k = int(s)
        n = len(self._callables)
        try:
            v = orig["__getitem__"](self, s)
        except IndexError:
            if k >= n or k < -n:
                tr.ev("index", [l, k], {"err": "IndexError"})
            raise
        tr.ev("index", [l, k], {"read": True})
        return v

    def do_len(tr, self):
        n = orig["__len__"](self)
        if tr is not None:
            tr.ev("len", [tr.lid(self)], {"len": n})
        return n

    LazyList.map = guarded(do_map)
    LazyList.repeat = guarded(do_repeat)
    LazyList.copy = guarded(do_copy)
    LazyList.__add__ = guarded(do_add)
    LazyList.__getitem__ = guarded(do_getitem)
    LazyList.__len__ = guarded(do_len)


def pytest_configure(config):
    install()


def pytest_runtest_setup(item):
    _state["cur"] = _Trace(item.nodeid)


def pytest_runtest_teardown(item, nextitem):
    tr = _state["cur"]
    _state["cur"] = None
    if tr is not None and tr.events:
        _state["traces"].append({"test": tr.name, "events": tr.events})


def pytest_sessionfinish(session, exitstatus):
    out = os.environ.get("LAZYREC_OUT")
    if out:
        with open(out, "w") as f:
            json.dump(_state["traces"], f)
