"""Run TLC (direct java, SerialGC) on a module of /verif/spec and collect what the checks need.

The stock `tlc` wrapper uses ParallelGC which burns minutes of sys time on this VM, so java is
called directly.  Every run gets its own scratch directory (metadir, emitted behaviours); the
caller removes it through `Scratch`.
"""
import json
import os
import re
import shutil
import subprocess
import tempfile
import time

SPEC_DIR = os.path.join(os.path.dirname(os.path.dirname(os.path.abspath(__file__))), "spec")
JARS = "/opt/veriftools/tla/tla2tools.jar:/opt/veriftools/tla/CommunityModules-deps.jar"


class MachineryError(Exception):
    """TLC / harness failure that is not a verdict about menpo (exit code 2)."""


class Scratch:
    def __init__(self, tag="verif"):
        self.dir = tempfile.mkdtemp(prefix="menpo-%s-" % tag)

    def path(self, *names):
        return os.path.join(self.dir, *names)

    def cleanup(self):
        shutil.rmtree(self.dir, ignore_errors=True)

    def __enter__(self):
        return self

    def __exit__(self, *a):
        self.cleanup()


class TLCResult:
    def __init__(self):
        self.generated = 0
        self.distinct = 0
        self.depth = 0
        self.wall_s = 0.0
        self.stdout = ""
        self.violation = None  # name of violated invariant / property, if any
        self.coverage = {}  # action name -> (distinct, total) when -coverage was requested
        self.ok = False
        self.printed = []  # PrintT lines

    def as_dict(self):
        return {
            "states_generated": self.generated,
            "distinct_states": self.distinct,
            "depth": self.depth,
            "wall_s": round(self.wall_s, 2),
            "violation": self.violation,
        }


_RE_STATES = re.compile(r"(\d+) states generated, (\d+) distinct states found")
_RE_SIM = re.compile(r"The number of states generated: (\d+)")
_RE_DEPTH = re.compile(r"The depth of the complete state graph search is (\d+)")
_RE_INV = re.compile(r"Error: Invariant (\S+) is violated")
_RE_PROP = re.compile(r"Error: Action property (\S+) is violated|Error: Temporal properties were violated")
_RE_COV = re.compile(r"^<(\w+) line \d+, col \d+ to line \d+, col \d+ of module (\w+)>: (\d+):(\d+)", re.M)


def run(
    module,
    cfg,
    scratch,
    env=None,
    workers=8,
    simulate=None,
    depth=None,
    seed=None,
    coverage=False,
    deadlock_check=False,
    timeout=3600,
    xmx="6g",
    expect_violation=False,
    extra=None,
):
    """Run TLC on spec/<module>.tla with spec/<cfg>.  Returns TLCResult.

    `simulate`: number of behaviours for -simulate; `depth`: their length.
    Raises MachineryError on parse/semantic/evaluation errors (anything other than a clean
    finish or a reported invariant/property violation)."""
    meta = scratch.path("meta-%s-%d" % (module, int(time.time() * 1000) % 10 ** 9))
    cmd = [
        "java",
        "-XX:+UseSerialGC",
        "-Xmx" + xmx,
        "-Xss64m",
        "-cp",
        JARS,
        "tlc2.TLC",
        "-workers",
        str(workers),
        "-metadir",
        meta,
        "-noGenerateSpecTE",
        "-config",
        cfg,
    ]
    if not deadlock_check:
        cmd.append("-deadlock")
    if coverage:
        cmd += ["-coverage", "1"]
    if simulate is not None:
        # TLC runs `num` random walks PER WORKER; at every step it evaluates the invariants (hence
        # the emitting one) on ALL successors of the current state, so the number of emitted
        # behaviours is about num * workers * branching factor of the last step
        cmd += ["-simulate", "num=%d" % max(1, simulate // workers)]
        if depth is not None:
            cmd += ["-depth", str(depth)]
    if seed is not None:
        cmd += ["-seed", str(seed)]
    if extra:
        cmd += list(extra)
    cmd.append(module + ".tla")
    e = dict(os.environ)
    e.pop("JAVA_TOOL_OPTIONS", None)
    if env:
        e.update({k: str(v) for k, v in env.items()})
    t0 = time.time()
    try:
        p = subprocess.run(cmd, cwd=SPEC_DIR, env=e, capture_output=True, text=True, timeout=timeout)
    except subprocess.TimeoutExpired:
        raise MachineryError("TLC timed out after %ss on %s/%s" % (timeout, module, cfg))
    finally:
        shutil.rmtree(meta, ignore_errors=True)
    r = TLCResult()
    r.wall_s = time.time() - t0
    r.stdout = p.stdout + p.stderr
    m = None
    for m in _RE_STATES.finditer(r.stdout):
        pass
    if m:
        r.generated, r.distinct = int(m.group(1)), int(m.group(2))
    else:
        m = _RE_SIM.search(r.stdout)
        if m:
            r.generated = int(m.group(1))
            r.distinct = r.generated
    m = _RE_DEPTH.search(r.stdout)
    if m:
        r.depth = int(m.group(1))
    m = _RE_INV.search(r.stdout)
    if m:
        r.violation = m.group(1)
    else:
        m = _RE_PROP.search(r.stdout)
        if m:
            r.violation = m.group(1) or "temporal"
    if coverage:
        for m in _RE_COV.finditer(r.stdout):
            name = m.group(1)
            d, t = int(m.group(3)), int(m.group(4))
            od, ot = r.coverage.get(name, (0, 0))
            r.coverage[name] = (od + d, ot + t)
    if r.violation is None and re.search(r"Error: Postcondition \S+ .*is false", r.stdout):
        r.violation = "Postcondition"
    r.printed = [l for l in r.stdout.splitlines() if l.startswith("<<") or l.startswith('"')]
    finished = "Model checking completed. No error has been found." in r.stdout or (
        simulate is not None and r.generated > 0 and "Error:" not in r.stdout
    )
    r.ok = finished
    if r.violation is None and not finished:
        tail = "\n".join(r.stdout.splitlines()[-40:])
        raise MachineryError("TLC failed on %s/%s:\n%s" % (module, cfg, tail))
    if r.violation is not None and not expect_violation:
        tail = "\n".join(r.stdout.splitlines()[-60:])
        raise MachineryError(
            "TLC reports %s violated on the MODEL (%s/%s) - the specification itself is inconsistent:\n%s"
            % (r.violation, module, cfg, tail)
        )
    return r


def read_emitted(path):
    """Lines written by CSVWrite("%1$s", <<ToJson(x)>>, file) are JSON-encoded JSON strings."""
    out = []
    if not os.path.exists(path):
        return out
    with open(path) as f:
        for line in f:
            line = line.strip()
            if not line:
                continue
            v = json.loads(line)
            if isinstance(v, str):
                v = json.loads(v)
            out.append(v)
    return out


def iter_emitted(path):
    if not os.path.exists(path):
        return
    with open(path) as f:
        for line in f:
            line = line.strip()
            if not line:
                continue
            v = json.loads(line)
            if isinstance(v, str):
                v = json.loads(v)
            yield v


def sany(module):
    p = subprocess.run(
        ["java", "-cp", JARS, "tla2sany.SANY", module + ".tla"], cwd=SPEC_DIR, capture_output=True, text=True
    )
    ok = p.returncode == 0 and "Semantic errors" not in p.stdout and "Parse Error" not in p.stdout and "Fatal" not in p.stdout
    return ok, p.stdout + p.stderr
