"""Shared plumbing of every check: verdict bookkeeping, known findings, evidence, exit codes.

Exit codes: 0 property held on everything explored (known findings printed as KNOWN-FINDING),
            1 violation (a line `VIOLATION property=<id> replay=<path>` is printed),
            2 machinery failure (never a verdict about menpo).
"""
import json
import os
import sys
import time
import traceback

ROOT = os.path.dirname(os.path.dirname(os.path.abspath(__file__)))
EVIDENCE_DIR = os.environ.get("VERIF_EVIDENCE_DIR") or os.path.join(ROOT, "evidence")   # (scratch runs against seeded trees set VERIF_EVIDENCE_DIR)
REPLAY_DIR = os.path.join(EVIDENCE_DIR, "replays")
FINDINGS_FILE = os.path.join(ROOT, "known_findings.json")


def load_findings():
    with open(FINDINGS_FILE) as f:
        return json.load(f)["findings"]


def jsonable(x):
    """Best-effort conversion of numpy / tuples / sets to JSON-serialisable data."""
    try:
        import numpy as np
    except Exception:  # pragma: no cover
        np = None
    if isinstance(x, dict):
        return {str(k): jsonable(v) for k, v in x.items()}
    if isinstance(x, (list, tuple)):
        return [jsonable(v) for v in x]
    if isinstance(x, (set, frozenset)):
        return sorted((jsonable(v) for v in x), key=repr)
    if np is not None:
        if isinstance(x, np.ndarray):
            return jsonable(x.tolist())
        if isinstance(x, np.generic):
            return jsonable(x.item())
    if isinstance(x, float):
        if x != x:
            return "nan"
        if x in (float("inf"), float("-inf")):
            return str(x)
        return x
    if isinstance(x, (int, str, bool)) or x is None:
        return x
    try:
        from fractions import Fraction

        if isinstance(x, Fraction):
            return [x.numerator, x.denominator]
    except Exception:  # pragma: no cover
        pass
    return repr(x)


class Check:
    """One run of one property's check."""

    MAX_REPORTED = 5  # distinct violations written out as replay files / VIOLATION lines

    def __init__(self, pid, tier, seed, level="model_checking"):
        self.pid = pid
        self.tier = tier
        self.seed = seed
        self.level = level
        self.t0 = time.time()
        self.states = 0
        self.transitions = 0
        self.replayed = 0
        self.evaluations = 0
        self.nontrivial_keys = set()
        self.samples = []
        self.violations = []
        self.n_violations = 0
        self.known_hits = {}
        self.notes = {}
        self.assumptions = []
        self.tlc_runs = []
        self.exhaustive = True
        self.rule = ""
        self.findings = [f for f in load_findings() if f["property"] == pid and f.get("status") == "open"]
        self.counters = {}

    # ---- bookkeeping -------------------------------------------------------------------
    def add_tlc(self, name, r, exhaustive=True):
        self.states += r.distinct
        self.transitions += r.generated
        d = r.as_dict()
        d["run"] = name
        d["exhaustive"] = exhaustive
        if r.coverage:
            d["coverage"] = {k: list(v) for k, v in sorted(r.coverage.items())}
        self.tlc_runs.append(d)
        if not exhaustive:
            self.exhaustive = False

    def count(self, key, n=1):
        self.counters[key] = self.counters.get(key, 0) + n

    def case(self, key=None, nontrivial=True):
        """Register one evaluated case; `key` identifies it for the distinct count."""
        self.evaluations += 1
        if nontrivial and key is not None:
            if len(self.nontrivial_keys) < 2_000_000:
                self.nontrivial_keys.add(key if isinstance(key, (str, int, tuple)) else repr(key))

    def sample(self, x, limit=4):
        if len(self.samples) < limit:
            self.samples.append(jsonable(x))

    def note(self, key, value):
        self.notes[key] = jsonable(value)

    # ---- verdicts ----------------------------------------------------------------------
    def mismatch(self, case, detail, kind=None, what=None):
        """A disagreement between the specification's prediction and the real code.

        `kind` is a structural signature computed by the check (never just the property id);
        when an OPEN entry of known_findings.json carries that signature the disagreement is a
        known finding, otherwise a violation."""
        if kind is not None:
            for f in self.findings:
                if f["signature"].get("kind") == kind:
                    h = self.known_hits.setdefault(f["id"], {"n": 0, "what": f["what"], "example": None})
                    h["n"] += 1
                    if h["example"] is None:
                        h["example"] = jsonable({"case": case, "detail": detail})
                    return "known"
        self.n_violations += 1
        if len(self.violations) < self.MAX_REPORTED:
            self.violations.append({"case": jsonable(case), "detail": jsonable(detail), "what": what})
        return "violation"

    # ---- output ------------------------------------------------------------------------
    def finish(self):
        os.makedirs(REPLAY_DIR, exist_ok=True)
        wall = time.time() - self.t0
        lines = []
        for fid, h in sorted(self.known_hits.items()):
            lines.append("KNOWN-FINDING: property=%s %s: %s (%d cases this run)" % (self.pid, fid, h["what"], h["n"]))
        replay_paths = []
        for i, v in enumerate(self.violations):
            path = os.path.join(REPLAY_DIR, "%s_%s_%d.json" % (self.pid, self.tier, i))
            with open(path, "w") as f:
                json.dump({"property": self.pid, "tier": self.tier, "seed": self.seed, **v}, f, indent=1)
            replay_paths.append(path)
            lines.append("VIOLATION property=%s replay=%s" % (self.pid, path))
        cov = {
            "states": self.states,
            "transitions": self.transitions,
            "traces_validated_against_impl": self.replayed,
            "samples": self.samples if self.samples else [{"note": "no sample recorded"}],
            "evaluations": self.evaluations,
            "distinct_nontrivial": len(self.nontrivial_keys),
            "rule": self.rule,
            "exhaustive": bool(self.exhaustive),
            "tlc_runs": self.tlc_runs,
            "counters": self.counters,
            "known_findings_hit": {k: {"n": v["n"], "what": v["what"], "example": v["example"]} for k, v in self.known_hits.items()},
            "violations_total": self.n_violations,
        }
        cov.update(self.notes)
        ev = {
            "property_id": self.pid,
            "tier": self.tier,
            "seed": self.seed,
            "level": self.level,
            "coverage": cov,
            "assumptions": self.assumptions,
            "wall_s": round(wall, 2),
            "violations": self.n_violations,
        }
        os.makedirs(EVIDENCE_DIR, exist_ok=True)
        with open(os.path.join(EVIDENCE_DIR, self.pid + ".json"), "w") as f:
            json.dump(ev, f, indent=1)
        for l in lines:
            print(l)
        print(
            "%s %s: states=%d transitions=%d replayed=%d evaluations=%d distinct=%d known=%d violations=%d wall=%.1fs"
            % (
                self.pid,
                self.tier,
                self.states,
                self.transitions,
                self.replayed,
                self.evaluations,
                len(self.nontrivial_keys),
                sum(h["n"] for h in self.known_hits.values()),
                self.n_violations,
                wall,
            )
        )
        return 1 if self.n_violations else 0


def run_main(pid, fn):
    """Common CLI glue: fn(check, tier, seed, replay) performs the exploration."""
    import argparse

    ap = argparse.ArgumentParser()
    ap.add_argument("--tier", default=os.environ.get("VERIF_TIER", "quick"), choices=["quick", "thorough"])
    ap.add_argument("--replay", default=None)
    ap.add_argument("--seed", type=int, default=int(os.environ.get("VERIF_SEED", "0") or 0))
    a = ap.parse_args(sys.argv[2:])
    try:
        chk = Check(pid, a.tier, a.seed)
        fn(chk, a.tier, a.seed, a.replay)
        rc = chk.finish()
    except SystemExit:
        raise
    except Exception as e:  # machinery failure: never a verdict
        from .tlc import MachineryError

        traceback.print_exc()
        print("MACHINERY-ERROR property=%s %s: %s" % (pid, type(e).__name__, str(e)[:2000]))
        sys.exit(2)
    sys.exit(rc)


# ---- helpers shared by the checks -----------------------------------------------------------
def generate(chk, name, module, cfg, scratch, workers=16, simulate=None, depth=None, seed=None, env=None,
             coverage=False, timeout=3600, exhaustive=None):
    """Run TLC on module/cfg; behaviours (or one-shot cases) are emitted to a scratch file whose
    path is returned.  TLC statistics are added to the evidence."""
    from . import tlc

    out = scratch.path("%s.ndjson" % name)
    if os.path.exists(out):
        os.unlink(out)
    e = {"OUT_FILE": out}
    if env:
        e.update(env)
    r = tlc.run(module, cfg, scratch, env=e, workers=workers, simulate=simulate, depth=depth, seed=seed,
                coverage=coverage, timeout=timeout)
    chk.add_tlc(name, r, exhaustive=(simulate is None) if exhaustive is None else exhaustive)
    return out, r


def validate_traces(chk, name, module, cfg, traces, scratch, timeout=3600):
    """Batch trace validation: `traces` (list) is written as one JSON array and checked by the
    trace specification `module`.  Returns {trace index (0-based): events matched} for rejected
    traces (empty dict when all are accepted)."""
    import re

    from . import tlc

    path = scratch.path("%s.traces.json" % name)
    with open(path, "w") as f:
        json.dump(traces, f)
    r = tlc.run(module, cfg, scratch, env={"TRACE_FILE": path}, workers=1, timeout=timeout, expect_violation=True)
    chk.add_tlc(name, r, exhaustive=True)
    rejected = {}
    if '"REJECTED"' in r.stdout:
        body = r.stdout[r.stdout.index('"REJECTED"'):]
        body = body[: body.index("}>>") + 3] if "}>>" in body else body
        for a, b in re.findall(r"<<(\d+), (\d+)>>", body):
            rejected[int(a) - 1] = int(b)
        if not rejected:
            raise tlc.MachineryError("cannot parse REJECTED report:\n" + body[:500])
    elif r.violation is not None and r.violation != "Postcondition":
        # an invariant / action property of the specification failed on a recorded execution
        rejected[-1] = 0
        chk.note("trace_property_violated_" + name, {"property": r.violation, "tail": r.stdout[-3000:]})
    elif "Postcondition" in r.stdout or "postcondition" in r.stdout:
        raise tlc.MachineryError("postcondition failed without a report:\n" + r.stdout[-2000:])
    return rejected, r


def parallel_map(fn, items, procs=16, chunk=500):
    """Apply fn to every item in forked worker processes (order preserved).  fn must be a
    module-level function; results must be picklable."""
    import multiprocessing as mp

    items = list(items)
    if len(items) < 2 * chunk or procs <= 1:
        return [fn(x) for x in items]
    ctx = mp.get_context("fork")
    with ctx.Pool(procs) as pool:
        return pool.map(fn, items, chunksize=chunk)


def from_library(exc):
    """True when the exception was raised inside the library under test (innermost frame under the
    repository): then it is an observation about menpo, not a harness failure."""
    repo = os.path.realpath(os.environ.get("MENPO_REPO", "/repo"))
    tb = exc.__traceback__
    last = None
    while tb is not None:
        last = tb
        tb = tb.tb_next
    if last is None:
        return False
    fn = os.path.realpath(last.tb_frame.f_code.co_filename)
    if fn.startswith(repo + os.sep):
        return True
    # numpy / scipy raising on behalf of library code: look for the deepest non-site-packages frame
    tb = exc.__traceback__
    deepest = None
    while tb is not None:
        f = os.path.realpath(tb.tb_frame.f_code.co_filename)
        if "site-packages" not in f and "/lib/python" not in f:
            deepest = f
        tb = tb.tb_next
    return bool(deepest and deepest.startswith(repo + os.sep))


class _Guarded:
    """Picklable wrapper: an exception escaping from the library during a case is reported as a
    disagreement of that case; an exception of the harness itself stays a machinery error."""

    def __init__(self, fn):
        self.fn = fn

    def __call__(self, o):
        try:
            return self.fn(o)
        except Exception as e:
            if from_library(e):
                tb = traceback.extract_tb(e.__traceback__)[-1]
                return [("unexpected %s raised by menpo at %s:%d" % (type(e).__name__, os.path.basename(tb.filename), tb.lineno),
                         {"message": str(e)[:300]}, None)]
            raise


def run_cases(chk, label, module, cfg, scratch, run_case, env=None, key=None, sample_n=2, workers=8, what=None,
              parallel=False, timeout=3600):
    """One-shot pattern: TLC enumerates cases (one per initial state) with the specification's
    predictions, the adapter's run_case(o) returns a list of (what, detail, kind) disagreements."""
    from . import tlc

    out, r = generate(chk, label, module, cfg, scratch, workers=workers, env=env, timeout=timeout)
    cases = tlc.read_emitted(out)
    if not cases:
        raise tlc.MachineryError("TLC emitted no case (%s/%s)" % (module, cfg))
    g = _Guarded(run_case)
    results = parallel_map(g, cases, chunk=50) if parallel else [g(o) for o in cases]
    for i, (o, bads) in enumerate(zip(cases, results)):
        c = o.get("case", o)
        chk.case((label, json.dumps(c, sort_keys=True)) if key is None else (label, key(o)))
        chk.replayed += 1
        chk.count("cases_%s_%s" % (label, c.get("kind", "")) if isinstance(c, dict) else "cases_" + label)
        if i < sample_n:
            chk.sample({"label": label, "case": c})
        for w, detail, kind in bads:
            chk.mismatch({"label": label, "module": module, "cfg": cfg, "emitted": o}, {"what": w, **(detail or {})},
                         kind=kind, what=what or w)
    return cases
