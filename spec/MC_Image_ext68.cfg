SPECIFICATION Spec
CONSTANTS
  Shape0 <- Sh68
  D = 1
  Scales <- ScalesQ
  RotKeys = {"r90", "p345", "p345n"}
  Modes = {"ceil", "round", "floor"}
  CropBoxes <- BoxesQ
  Zooms <- ZoomsQ
  Warps <- WarpsQ
  Order0Warps <- Order0Q
  Ops <- ExtOps
INVARIANT Registered
INVARIANT ValidInsideOriginal
INVARIANT Emit
