---------------------------- MODULE Trace_LazyListStruct ----------------------------
(* Code -> spec, driven by the REPOSITORY'S OWN TESTS: every LazyList operation executed while
   menpo's test-suite runs is recorded (harness/pytest_lazyrec.py) with the complete operational
   state of the resulting list - its thunk sequence decoded from the real callables.  Each event
   must be a step of LazyList.tla and the thunk sequence the specification computes for the new
   list must EQUAL the recorded one (lengths alone would accept a map that binds the wrong
   element).  Lists that enter a test from outside (built by menpo.io, by a constructor call) are
   roots: their content is an input. *)
EXTENDS LazyList
Traces == JsonDeserialize(IOEnv.TRACE_FILE)
VARIABLES tid, ln
tvars == <<vars, tid, ln>>
Ev == Traces[tid].events[ln]
TInit == /\ tid \in 1..Len(Traces) /\ ln = 1
         /\ lz = <<>> /\ eager = <<>> /\ ctor = "iterable"
         /\ evals = <<>> /\ nf = 0 /\ nb = 0 /\ hist = <<>> /\ TLCSet(tid, 0)
MaxOf(S) == CHOOSE m \in S : \A x \in S : x <= m
Root(th) == /\ LET id == NewId IN
               /\ lz' = Add(id, th) /\ eager' = AddE(id, th)
               /\ nb' = MaxOf({nb} \cup {th[i].base - PlainBase : i \in 1..Len(th)})
               /\ UNCHANGED <<evals, nf, ctor>>
               /\ hist' = Append(hist, Rec("root", <<Len(th)>>, [id |-> id, len |-> Len(th)]))
Act == CASE Ev.op = "root" -> Root(Ev.thunks)
         [] Ev.op = "map" -> Map(Ev.args[1])
         [] Ev.op = "map_ambiguous" -> MapAmbiguous(Ev.args[1])
         [] Ev.op = "map_each" -> MapEach(Ev.args[1], Ev.args[3])
         [] Ev.op = "slice" -> Slice(Ev.args[1], Ev.args[2], Ev.args[3], Ev.args[4])
         [] Ev.op = "fancy" -> Fancy(Ev.args[1], Ev.args[2])
         [] Ev.op = "repeat" -> Repeat(Ev.args[1], Ev.args[2])
         [] Ev.op = "concat" -> Concat(Ev.args[1], Ev.args[2])
         [] Ev.op = "concat_plain" -> ConcatPlain(Ev.args[1], Ev.args[2])
         [] Ev.op = "copy" -> Copy(Ev.args[1])
         [] Ev.op = "len" -> LenOp(Ev.args[1])
         [] Ev.op = "index" -> Index(Ev.args[1], Ev.args[2])
Last == hist'[Len(hist')]
Produces == "id" \in DOMAIN Ev.obs
TStep == /\ ln <= Len(Traces[tid].events)
         /\ Act
         /\ ("err" \in DOMAIN Ev.obs) = ("err" \in DOMAIN Last.obs)
         /\ ("err" \in DOMAIN Ev.obs => Last.obs.err = Ev.obs.err)
         /\ ("len" \in DOMAIN Ev.obs => Last.obs.len = Ev.obs.len)
         /\ (Produces => /\ Last.obs.id = Ev.obs.id
                         /\ lz'[Ev.obs.id] = Ev.thunks)          \* the complete operational state of the new list
         /\ ln' = ln + 1 /\ tid' = tid /\ TLCSet(tid, ln)
TSpec == TInit /\ [][TStep]_tvars
Report == IF \A t \in 1..Len(Traces) : TLCGet(t) = Len(Traces[t].events) THEN TRUE
          ELSE PrintT(<<"REJECTED", {<<t, TLCGet(t)>> : t \in {u \in 1..Len(Traces) : TLCGet(u) # Len(Traces[u].events)}}>>) /\ FALSE
=======================================================================
