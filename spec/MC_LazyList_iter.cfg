SPECIFICATION Spec
CONSTANTS
  InitLens <- QInit
  Ctors <- Both
  MaxLists = 4
  D = 2
  SStarts <- QStarts
  SStops <- QStops
  SSteps <- QSteps
  IdxPool <- QIdx
  RepPool <- QRep
  FancyPool <- QFancy
  PlainPool <- QPlain
  WithIter = TRUE
INVARIANT Faithful
INVARIANT Emit
PROPERTY LazyProp
PROPERTY ExactDeps
PROPERTY Immutable
PROPERTY FailuresPure
