SPECIFICATION Spec
CONSTANTS
  NV = 3
  Data <- Data3
  Kinds = {"blocks"}
  MinBatch = 3
INVARIANT Symmetric
INVARIANT GraphSparse
INVARIANT PSDOnPool
INVARIANT ZeroAtMean
