SPECIFICATION Spec
CONSTANTS
  MaxN = 9
  MaxB = 11
  MaxK = 3
INVARIANT Partition
