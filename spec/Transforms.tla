---------------------------- MODULE Transforms ----------------------------
(* Composition, in-place composition and inversion of menpo's transform objects
   (properties C03, C04; the object model is reused by C02/C05/C20).

   A transform object is a record
      [cls, al, M, src, tgt, members]
   cls     : class of the homogeneous family, or "Opaque" (a Transform that is not composable
             natively), or "Chain" (TransformChain)
   al      : TRUE for the alignment variant of cls (AlignmentAffine, ...)
   M       : exact homogeneous matrix over Q (for a Chain: unused, its map is the product of the
             CURRENT maps of its members - members are shared by documented design)
   src,tgt : point sequences of an alignment (<<>> otherwise)
   members : object ids of a chain, applied first to last
   Objects live in the sequence `tr`; the id of an object is its index.  One action per public
   call; the class-dispatch ladder of Homogeneous._compose_before/_compose_after is transcribed
   branch by branch (not summarised as "first common ancestor" - that is a theorem TLC checks). *)
EXTENDS Mat, TLC, Json, CSV, IOUtils
CONSTANTS Pool,     \* initial objects (sequence of records)
          D,        \* number of operations per behaviour
          MaxObjs,  \* bound on live objects
          EvalPts,  \* points on which the composition / inversion laws are evaluated on the model
          MaxEntry, \* operands whose matrix has a numerator / denominator above this are not composed further
                    \* (TLC integers are 32 bit; an overflow would be a TLC error, never a wrong oracle)
          Ops       \* subset of {"before","after","before_inplace","after_inplace","pinv"}
VARIABLES tr, hist
vars == <<tr, hist>>
Family == {"Homogeneous","Affine","Similarity","Rotation","Translation","UniformScale","NonUniformScale"}
Parent(c) == CASE c = "Homogeneous" -> "Homogeneous" [] c = "Affine" -> "Homogeneous" [] c = "Similarity" -> "Affine"
               [] c = "NonUniformScale" -> "Affine" [] OTHER -> "Similarity"
RECURSIVE Anc(_)
Anc(c) == IF c = "Homogeneous" THEN {c} ELSE {c} \cup Anc(Parent(c))
IsSub(c, d) == d \in Anc(c)                                 \* class c is d or a subclass of d
Depth(c) == Cardinality(Anc(c))
FCA(c, d) == CHOOSE a \in Anc(c) \cap Anc(d) : \A b \in Anc(c) \cap Anc(d) : Depth(b) <= Depth(a)
Honest(c, M) == CASE c = "Rotation" -> IsRotation(M) [] c = "Translation" -> IsTranslation(M) [] c = "UniformScale" -> IsUniformScale(M)
                  [] c = "NonUniformScale" -> IsNonUniformScale(M) [] c = "Similarity" -> IsSimilarity(M) [] c = "Affine" -> IsAffine(M) [] OTHER -> TRUE
Native(o) == o.cls \in Family
\* isinstance(x, type(y)) for family objects: the alignment classes have no subclasses
IsInstanceOfTypeOf(x, y) == IF y.al THEN x.al /\ x.cls = y.cls ELSE IsSub(x.cls, y.cls)
\* composes_inplace_with, per class (alignment variants inherit it)
InplaceOK(a, b) == /\ Native(a) /\ Native(b)
                   /\ CASE a.cls = "Homogeneous" -> TRUE
                        [] a.cls = "Affine" -> IsSub(b.cls, "Affine")
                        [] a.cls = "Similarity" -> IsSub(b.cls, "Similarity")
                        [] a.cls = "Translation" -> IsSub(b.cls, "Translation")
                        [] a.cls = "Rotation" -> IsSub(b.cls, "Rotation")
                        [] a.cls = "UniformScale" -> IsSub(b.cls, "UniformScale")
                        [] a.cls = "NonUniformScale" -> b.cls \in {"NonUniformScale", "UniformScale"}
\* ---- effective map of any object (chains follow their members' current state) -----------
\* (TLC evaluates function constructors lazily: without forcing, every entry of a nested product re-evaluates the inner
\*  products - exponential in the chain length.  Strict only forces evaluation; it is the identity on values.)
Strict(M) == TLCEval([i \in 1..Len(M) |-> TLCEval([j \in 1..Len(M) |-> TLCEval(M[i][j])])])
RECURSIVE EffM(_,_), ChainProd(_,_)
EffM(t, i) == IF t[i].cls = "Chain" THEN ChainProd(t, t[i].members) ELSE t[i].M
ChainProd(t, ms) == IF ms = <<>> THEN IdM(Len(t[1].M)) ELSE Strict(MMul(ChainProd(t, Tail(ms)), EffM(t, Head(ms))))
RECURSIVE Reaches(_,_,_)
Reaches(t, x, target) == x = target \/ (t[x].cls = "Chain" /\ \E k \in 1..Len(t[x].members) : Reaches(t, t[x].members[k], target))
Obj(c, al, M) == [cls |-> c, al |-> al, M |-> M, src |-> <<>>, tgt |-> <<>>, members |-> <<>>]
ChainObj(ms) == [cls |-> "Chain", al |-> FALSE, M |-> <<>>, src |-> <<>>, tgt |-> <<>>, members |-> ms]
\* ---- the dispatch ladder of Homogeneous._compose_before / _compose_after ------------------
\* result class of self.compose_<side>(t) for two family members (side irrelevant for the class)
RECURSIVE LadderCls(_,_)
LadderCls(self, t) ==
   IF IsInstanceOfTypeOf(t, self) THEN self.cls                 \* "he is a subclass of me": copy / as_non_alignment of self
   ELSE IF IsInstanceOfTypeOf(self, t) THEN LadderCls(t, self)  \* "I am a subclass of him": delegate to t
   ELSE IF IsSub(self.cls, "Similarity") /\ IsSub(t.cls, "Similarity") THEN "Similarity"
   ELSE IF IsSub(self.cls, "Affine") /\ IsSub(t.cls, "Affine") THEN "Affine"
   ELSE "Homogeneous"
\* matrix of self.compose_before(t) = t o self ; compose_after = self o t
Prod(self, t, side) == IF side = "before" THEN MMul(t.M, self.M) ELSE MMul(self.M, t.M)
NewId == Len(tr) + 1
Changed(t1, t2) == {<<i, EffM(t2, i)>> : i \in {j \in 1..Len(t2) : j > Len(t1) \/ EffM(t2, j) # EffM(t1, j)}}
Rec(op, a, b, res, err, t2) ==
   [op |-> op, a |-> a, b |-> b, res |-> res, err |-> err,
    cls |-> IF res = 0 THEN "" ELSE t2[res].cls, al |-> IF res = 0 THEN FALSE ELSE t2[res].al,
    members |-> IF res = 0 THEN <<>> ELSE t2[res].members,
    src |-> IF res = 0 THEN <<>> ELSE t2[res].src, tgt |-> IF res = 0 THEN <<>> ELSE t2[res].tgt,
    atgt |-> t2[a].tgt,                \* end points of the receiver after the call
    changed |-> Changed(tr, t2)]
Step(op, a, b, res, err, t2) == tr' = t2 /\ hist' = Append(hist, Rec(op, a, b, res, err, t2))
CanGrow == Len(tr) < MaxObjs /\ Len(hist) < D
SmallM(M) == \A i \in 1..Len(M) : \A j \in 1..Len(M) : Abs(M[i][j][1]) <= MaxEntry /\ M[i][j][2] <= MaxEntry
SmallObj(i) == SmallM(EffM(tr, i))

\* ---- pure composition -----------------------------------------------------------------
Compose(a, b, side) ==
   /\ CanGrow /\ side \in Ops /\ SmallObj(a) /\ SmallObj(b)
   /\ LET A == tr[a] B == tr[b] IN
      IF Native(A) /\ Native(B)
      THEN Step(side, a, b, NewId, "", Append(tr, Obj(LadderCls(A, B), FALSE, Prod(A, B, side))))
      ELSE IF A.cls = "Chain"            \* chain swallows anything: copy (shallow list copy) + append / insert
      THEN Step(side, a, b, NewId, "", Append(tr, ChainObj(IF side = "before" THEN Append(A.members, b) ELSE <<b>> \o A.members)))
      ELSE Step(side, a, b, NewId, "", Append(tr, ChainObj(IF side = "before" THEN <<a, b>> ELSE <<b, a>>)))
\* ---- in-place composition ---------------------------------------------------------------
ComposeInplace(a, b, side) ==
   /\ Len(hist) < D /\ (side \o "_inplace") \in Ops /\ SmallObj(a) /\ SmallObj(b)
   /\ LET A == tr[a] B == tr[b] IN
      /\ A.cls # "Opaque"                 \* a plain Transform has no in-place API
      /\ IF A.cls = "Chain"
         THEN ~Reaches(tr, b, a)          \* (a chain containing itself would never terminate; not explored)
              /\ Step(side \o "_inplace", a, b, 0, "",
                      [tr EXCEPT ![a].members = IF side = "before" THEN Append(A.members, b) ELSE <<b>> \o A.members])
         ELSE IF InplaceOK(A, B)
         THEN LET M2 == Prod(A, B, side) IN
              \* AlignmentAffine (only) re-synchronises its target with its new state
              Step(side \o "_inplace", a, b, 0, "",
                   [tr EXCEPT ![a].M = M2, ![a].tgt = IF A.al /\ A.cls = "Affine" THEN ApplyPts(M2, A.src) ELSE A.tgt])
         ELSE Step(side \o "_inplace", a, b, 0, "ValueError", tr)
\* ---- pseudoinverse (family only: chains and opaque members have none) ---------------------
Pinv(a) ==
   /\ CanGrow /\ "pinv" \in Ops /\ Native(tr[a]) /\ SmallObj(a)
   /\ LET A == tr[a] IN
      Step("pinv", a, 0, NewId, "", Append(tr, [A EXCEPT !.M = Inv(A.M), !.src = A.tgt, !.tgt = A.src]))
Next == \E a \in 1..Len(tr) :
          \/ Pinv(a)
          \/ \E b \in 1..Len(tr), side \in {"before", "after"} : Compose(a, b, side) \/ ComposeInplace(a, b, side)
Init == tr = Pool /\ hist = <<>>
Spec == Init /\ [][Next]_vars
\* ---- properties -------------------------------------------------------------------------
Last == hist[Len(hist)]
IsCompose(r) == r.op \in {"before", "after"}
HonestObj(o) == Native(o) => Honest(o.cls, o.M)
\* C03: the result of composing two honest family members is an honest, invertible, non-alignment family member
HonestInv == (hist # <<>> /\ IsCompose(Last) /\ Native(tr[Last.a]) /\ Native(tr[Last.b])
              /\ HonestObj(tr[Last.a]) /\ HonestObj(tr[Last.b])) =>
                LET R == tr[Last.res] IN Native(R) /\ ~R.al /\ Honest(R.cls, R.M) /\ Det(R.M) # Z0
\* the ladder computes the first common ancestor (design theorem about the transcribed ladder)
LadderIsFCA == (hist # <<>> /\ IsCompose(Last) /\ Native(tr[Last.a]) /\ Native(tr[Last.b])) =>
                tr[Last.res].cls = FCA(tr[Last.a].cls, tr[Last.b].cls)
\* composition law on the evaluation points (projective division included)
Safe(M, p) == HW(M, p) # Z0
ComposeLaw == (hist # <<>> /\ IsCompose(Last)) =>
                LET Ma == EffM(tr, Last.a) Mb == EffM(tr, Last.b) Mr == EffM(tr, Last.res)
                    first == IF Last.op = "before" THEN Ma ELSE Mb
                    second == IF Last.op = "before" THEN Mb ELSE Ma IN
                \A k \in 1..Len(EvalPts) :
                   LET p == EvalPts[k] IN
                   (Safe(first, p) /\ Safe(second, ApplyH(first, p)) /\ Safe(Mr, p)) =>
                      ApplyH(Mr, p) = ApplyH(second, ApplyH(first, p))
\* C04: two-sided inverse on the evaluation points, honest class, swapped end points
InverseLaw == (hist # <<>> /\ Last.op = "pinv") =>
                LET A == tr[Last.a] R == tr[Last.res] IN
                /\ MMul(R.M, A.M) = IdM(Len(A.M)) /\ MMul(A.M, R.M) = IdM(Len(A.M))
                /\ (HonestObj(A) => HonestObj(R))
                /\ R.src = A.tgt /\ R.tgt = A.src /\ R.al = A.al /\ R.cls = A.cls
\* pure calls leave every pre-existing object unchanged; failed calls change nothing
OperandsIntact == [][ (hist' # hist /\ hist'[Len(hist')].op \in {"before", "after", "pinv"}) =>
                        \A i \in 1..Len(tr) : tr'[i] = tr[i] ]_vars
FailuresPure == [][ (hist' # hist /\ hist'[Len(hist')].err # "") => tr' = tr ]_vars
\* in-place: only the receiver changes
InplaceLocal == [][ (hist' # hist /\ hist'[Len(hist')].op \in {"before_inplace", "after_inplace"}) =>
                        /\ Len(tr') = Len(tr)
                        /\ \A i \in 1..Len(tr) : i # hist'[Len(hist')].a => tr'[i] = tr[i] ]_vars
\* the initial state emits the pool (so that the harness builds the real objects from the specification),
\* every complete behaviour emits its history
Emit == /\ (Len(hist) = 0) => CSVWrite("%1$s", <<ToJson([pool |-> tr, pts |-> EvalPts])>>, IOEnv.OUT_FILE)
        /\ (Len(hist) = D /\ D > 0) => CSVWrite("%1$s", <<ToJson(hist)>>, IOEnv.OUT_FILE)
=======================================================================
