---------------------------- MODULE Trace_LazyList ----------------------------
(* Code -> spec: validates executions recorded from the real menpo.base.LazyList.
   Each trace is [init |-> n, ctor |-> c, events |-> Seq([op, args, obs])].  Every event must be a
   step of the LazyList specification with the logged arguments AND the observation the
   specification predicts must equal the logged one.  All traces of a file are validated in one
   TLC run (-workers 1): register t holds the number of events of trace t matched so far. *)
EXTENDS LazyList
Traces == JsonDeserialize(IOEnv.TRACE_FILE)
VARIABLES tid, ln
tvars == <<vars, tid, ln>>
Ev == Traces[tid].events[ln]
TInit == /\ tid \in 1..Len(Traces) /\ ln = 1
         /\ LET n == Traces[tid].init IN lz = (1 :> [i \in 1..n |-> Thunk(i)]) /\ eager = (1 :> [i \in 1..n |-> Thunk(i)])
         /\ ctor = Traces[tid].ctor
         /\ evals = <<>> /\ nf = 0 /\ nb = 0 /\ hist = <<>> /\ TLCSet(tid, 0)
Act == CASE Ev.op = "map" -> Map(Ev.args[1])
         [] Ev.op = "map_ambiguous" -> MapAmbiguous(Ev.args[1])
         [] Ev.op = "map_each" -> MapEach(Ev.args[1], Ev.args[3])
         [] Ev.op = "slice" -> Slice(Ev.args[1], Ev.args[2], Ev.args[3], Ev.args[4])
         [] Ev.op = "fancy" -> Fancy(Ev.args[1], Ev.args[2])
         [] Ev.op = "repeat" -> Repeat(Ev.args[1], Ev.args[2])
         [] Ev.op = "concat" -> Concat(Ev.args[1], Ev.args[2])
         [] Ev.op = "concat_plain" -> ConcatPlain(Ev.args[1], Ev.args[2])
         [] Ev.op = "copy" -> Copy(Ev.args[1])
         [] Ev.op = "len" -> LenOp(Ev.args[1])
         [] Ev.op = "index" -> Index(Ev.args[1], Ev.args[2])
         [] Ev.op = "iter" -> Iter(Ev.args[1])
TStep == /\ ln <= Len(Traces[tid].events)
         /\ Act
         /\ hist'[Len(hist')].args = Ev.args        \* same arguments (incl. the function / element ids handed out)
         /\ hist'[Len(hist')].obs = Ev.obs          \* predicted observation == logged observation
         /\ ln' = ln + 1 /\ tid' = tid
         /\ TLCSet(tid, ln)
TSpec == TInit /\ [][TStep]_tvars
Accepted == \A t \in 1..Len(Traces) : TLCGet(t) = Len(Traces[t].events)
Report == IF Accepted THEN TRUE
          ELSE PrintT(<<"REJECTED", {<<t, TLCGet(t)>> : t \in {u \in 1..Len(Traces) : TLCGet(u) # Len(Traces[u].events)}}>>) /\ FALSE
=======================================================================
