SPECIFICATION Spec
CONSTANTS
  DataSets <- DSQuick
  Kinds = {"batch", "incr"}
  MaxChunks = 4
INVARIANT SumsGiveBatch
INVARIANT Additive
INVARIANT Symmetric
INVARIANT NonNegDiag
