---------------------------- MODULE VideoReader ----------------------------
(* The stateful frame reader behind the lazy list that menpo.io.input.video.ffmpeg_importer returns (property C19:
   "reading one element gives exactly the value the same operations would give on an ordinary list", for a lazy list whose
   index callable carries state).  The reader keeps one decoder pipe that delivers frames in order:
      open : a pipe exists
      pos  : index of the last frame the current pipe delivered (start - 1 right after (re)opening at `start`)
   Read(i) is __getitem__(i) transcribed: re-open the pipe at i when there is none or i is not ahead of pos, else skip the
   frames in between; then deliver one frame.  The delivered frame must be frame i whatever was read before (Faithful).
   The complete state graph is tiny; in complete-graph mode (VIEW NoHist) every transition is emitted and replayed on the
   real reader fed by a fake decoder that numbers its frames and honours the seek option. *)
EXTENDS Integers, Sequences, TLC, Json, CSV, IOUtils
CONSTANTS N,     \* number of frames
          D      \* reads per behaviour
VARIABLES open, pos, hist
vars == <<open, pos, hist>>
Frames == 0..(N - 1)
Init == open = FALSE /\ pos = -1 /\ hist = <<>>
Read(i) == /\ Len(hist) < D
           /\ LET reopen == ~open \/ i <= pos
                  skipped == IF reopen THEN 0 ELSE i - pos - 1
                  got == (IF reopen THEN i ELSE pos + 1) + skipped        \* first frame the pipe holds, after skipping
              IN /\ open' = TRUE /\ pos' = got
                 /\ hist' = Append(hist, [i |-> i, reopen |-> reopen, skipped |-> skipped, got |-> got])
Next == \E i \in Frames : Read(i)
Spec == Init /\ [][Next]_vars
\* every read delivers the frame that was asked for (step form: holds on every transition, histories of any length)
Faithful == [][ hist' # hist => hist'[Len(hist')].got = hist'[Len(hist')].i ]_vars
PosIsLast == open => pos \in Frames
NoHist == <<open, pos>>
Emit == (Len(hist) = D) => CSVWrite("%1$s", <<ToJson(hist)>>, IOEnv.OUT_FILE)
EmitTrans == CSVWrite("%1$s", <<ToJson(hist')>>, IOEnv.OUT_FILE)
=============================================================================
