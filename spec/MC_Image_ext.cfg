SPECIFICATION Spec
CONSTANTS
  Shape0 <- Sh0
  D = 2
  Scales <- ScalesQ
  RotKeys = {"p345"}
  Modes = {"ceil", "round", "floor"}
  CropBoxes <- BoxesQ
  Zooms <- ZoomsQ
  Warps <- WarpsQ
  Order0Warps <- Order0Q
  Ops <- MixOps
INVARIANT Registered
INVARIANT ValidInsideOriginal
INVARIANT Emit
