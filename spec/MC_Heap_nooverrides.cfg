INIT Init
NEXT Next
CONSTANTS
  Schema <- SchemaC
  UseOverrides = FALSE
INVARIANT NoSharing
