---------------------------- MODULE MC_PCABook ----------------------------
EXTENDS PCABook
SpecA == <<9, 5, 3, 2, 1>>
SpecB == <<20, 7, 6, 4, 2, 1>>
\* fractions that never coincide with a cumulative ratio (TieFree is checked by TLC)
FracsA == {<<1, 10>>, <<1, 2>>, <<3, 4>>, <<9, 10>>, <<49, 50>>, <<0, 1>>, <<11, 10>>, <<2, 5>>}
FracsB == {<<1, 10>>, <<3, 5>>, <<7, 10>>, <<9, 10>>, <<24, 25>>, <<0, 1>>, <<6, 5>>}
SpecC == <<50, 21, 13, 8, 5, 3, 2, 1>>
FracsC == {<<1, 10>>, <<1, 2>>, <<3, 4>>, <<9, 10>>, <<49, 50>>, <<99, 100>>, <<0, 1>>, <<11, 10>>, <<2, 5>>, <<3, 5>>, <<4, 5>>, <<19, 20>>}
\* unbounded-depth exploration: the history is an observation variable; every action's enabledness and effect depends on
\* <<eig, active, trimmed>> only (apart from the depth bound, lifted here), so identifying states by this view is sound
ViewNoHist == <<eig, active, trimmed>>
=============================================================================
