---------------------------- MODULE MC_Transforms3 ----------------------------
(* 3-D pool for Transforms.tla: rotations about different axes do not commute, so a wrong
   product order that is invisible in 2-D rotations shows here. *)
EXTENDS Transforms
R(n) == <<n,1>>
Q(a,b) == <<a,b>>
Src == << <<R(0),R(0),R(1)>>, <<R(3),R(1),R(0)>>, <<R(1),R(4),R(2)>>, <<R(-2),R(2),R(-1)>>, <<R(1),R(-1),R(3)>> >>
AlObj(c, M) == [cls |-> c, al |-> TRUE, M |-> M, src |-> Src, tgt |-> ApplyPts(M, Src), members |-> <<>>]
Pts == << <<R(1),R(0),R(0)>>, <<R(0),R(1),R(0)>>, <<R(0),R(0),R(1)>>, <<R(2),R(3),R(-1)>> >>
L3a == <<<<R(1),R(2),R(0)>>,<<R(0),R(1),R(1)>>,<<R(1),R(0),R(2)>>>>
P_H   == Obj("Homogeneous", FALSE, << <<R(1),R(2),R(0),R(1)>>, <<R(0),R(1),R(1),R(0)>>, <<R(1),R(0),R(2),R(-1)>>, <<Q(1,10),R(0),R(0),R(1)>> >>)
P_A   == Obj("Affine", FALSE, M4(L3a, <<R(1),R(-2),R(3)>>))
P_S   == Obj("Similarity", FALSE, M4(MScale(R(2), Lin(RotZ(Q(3,5),Q(4,5)))), <<R(1),R(0),R(-1)>>))
P_RX  == Obj("Rotation", FALSE, RotX(Q(3,5),Q(4,5)))
P_RZ  == Obj("Rotation", FALSE, RotZ(Q(5,13),Q(12,13)))
P_RY  == Obj("Rotation", FALSE, RotY(Q(4,5),Q(-3,5)))
P_T   == Obj("Translation", FALSE, Tr3(<<R(2),R(-3),R(1)>>))
P_U   == Obj("UniformScale", FALSE, Sc3(<<Q(1,2),Q(1,2),Q(1,2)>>))
P_N   == Obj("NonUniformScale", FALSE, Sc3(<<R(2),Q(1,2),R(3)>>))
P_AA  == AlObj("Affine", M4(<<<<R(1),R(0),R(1)>>,<<R(0),R(2),R(0)>>,<<R(0),R(1),R(1)>>>>, <<R(0),R(1),R(-1)>>))
P_AS  == AlObj("Similarity", M4(MScale(R(2), Lin(RotX(R(0),R(1)))), <<R(1),R(0),R(0)>>))
P_AR  == AlObj("Rotation", RotY(Q(3,5),Q(4,5)))
P_AT  == AlObj("Translation", Tr3(<<R(-1),R(4),R(2)>>))
P_AU  == AlObj("UniformScale", Sc3(<<R(2),R(2),R(2)>>))
P_O   == Obj("Opaque", FALSE, M4(<<<<R(1),R(1),R(0)>>,<<R(0),R(2),R(0)>>,<<R(0),R(0),R(1)>>>>, <<R(0),R(1),R(0)>>))
PoolFull == <<P_H, P_A, P_S, P_RX, P_RZ, P_T, P_U, P_N, P_AA, P_AS, P_AR, P_AT, P_AU, P_O>>
PoolSmall == <<P_RX, P_RZ, P_RY, P_AR, P_A, P_T>>
AllOps == {"before","after","before_inplace","after_inplace","pinv"}
=============================================================================
