SPECIFICATION Spec
CONSTANTS
  Src <- SrcC
  Targets <- TargetsC
  Configs <- PinvConfigs
  D = 4
  MaxAls = 1
  EditVals = {}
  PairAll = FALSE
  WithPerturb = FALSE
  WithPinv = TRUE
INVARIANT HistoryIndependent
INVARIANT AfterSetTargetInSync
INVARIANT Optimal
INVARIANT ProperUnlessMirror
INVARIANT Orthogonal
INVARIANT SizeExact
INVARIANT Emit
INVARIANT EmitInit
PROPERTY BadTargetRejected
PROPERTY CopiesIndependent
