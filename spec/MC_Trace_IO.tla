---------------------------- MODULE MC_Trace_IO ----------------------------
EXTENDS Trace_IO
NamesT == {"lm.v1.ljson", "x.pkl.gz", "p.pts", "m.pkl"}
KindT == [n \in NamesT |-> CASE n = "lm.v1.ljson" -> "ljson" [] n = "x.pkl.gz" -> "pklgz" [] n = "p.pts" -> "pts" [] OTHER -> "pkl"]
SpT == {"rel_str", "rel_path", "abs_str", "abs_path"}
=============================================================================
