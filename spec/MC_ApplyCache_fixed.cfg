SPECIFICATION Spec
CONSTANTS
  Design = "fixed"
  D = 4
  Batches = {0, 2}
INVARIANT Pure
INVARIANT Emit
