SPECIFICATION Spec
CONSTANTS
  Inits <- InitsDepth1
  D = 2
  Unknown = "nope"
INVARIANT Coverage
INVARIANT WellFormed
INVARIANT OrderKept
INVARIANT Emit
PROPERTY LabelOrderKept
PROPERTY FailuresPure
