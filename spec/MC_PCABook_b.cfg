SPECIFICATION Spec
CONSTANTS
  Spectrum <- SpecB
  Fracs <- FracsB
  D = 3
INVARIANT OrigConstant
INVARIANT Accounting
INVARIANT Consistent
INVARIANT TrimIsBuild
INVARIANT TieFree
INVARIANT Emit
