---------------------------- MODULE PCABook ----------------------------
(* Bookkeeping of menpo.model.pca.PCAVectorModel: n_active_components setter (int and
   variance-fraction forms), trim_components, variance accounting.  Eigenvalues are positive
   integers in descending order; components are identified with their eigenvalue index. *)
EXTENDS Rat, FiniteSets, TLC, Json, CSV, IOUtils
CONSTANTS Spectrum,   \* e.g. <<9, 5, 3, 2, 1>>
          Fracs,      \* set of <<num, den>> variance fractions (tie-free w.r.t. cumulative ratios)
          D
VARIABLES eig, active, trimmed, hist
vars == <<eig, active, trimmed, hist>>
RECURSIVE SumSeq(_)
SumSeq(s) == IF s = <<>> THEN 0 ELSE Head(s) + SumSeq(Tail(s))
Prefix(s, k) == SubSeq(s, 1, k)
Orig == SumSeq(eig) + SumSeq(trimmed)                \* original_variance()
NComp == Len(eig)                                    \* n_components
Kept == SumSeq(Prefix(eig, active))                  \* variance()
TotalRatio == <<SumSeq(eig), Orig>>                  \* _total_variance_ratio() (unreduced pair)
Cum(k) == SumSeq(Prefix(eig, k))
LtFrac(a, b) == a[1] * b[2] < b[1] * a[2]            \* positive denominators
LeFrac(a, b) == a[1] * b[2] <= b[1] * a[2]
\* noise_variance(): mean of the discarded eigenvalues, as <<sum, count>> (0 when nothing discarded)
Noise == IF active = NComp
         THEN (IF trimmed = <<>> THEN <<0, 1>> ELSE <<SumSeq(trimmed), Len(trimmed)>>)
         ELSE <<SumSeq(SubSeq(eig, active + 1, NComp)) + SumSeq(trimmed), (NComp - active) + Len(trimmed)>>
Obs == [n_components |-> NComp, n_active |-> active, eig |-> Prefix(eig, active), variance |-> Kept,
        original |-> Orig, noise |-> Noise, n_trimmed |-> Len(trimmed)]
Rec(op, arg, res) == [op |-> op, arg |-> arg, res |-> res, obs |-> Obs']

Init == eig = Spectrum /\ active = Len(Spectrum) /\ trimmed = <<>> /\ hist = <<>>

\* the setter, int form, transcribed branch by branch; returns the new active count or "err"
SetIntResult(v) ==
   IF v < 1 THEN -1
   ELSE IF v >= NComp THEN (IF active < NComp THEN NComp ELSE active)   \* second case: silently nothing
   ELSE v
\* float form: 0 < f <= total ratio, value = #{k : cum_ratio(k) < f} + 1
SetFracResult(f) ==
   IF ~(LtFrac(<<0,1>>, f) /\ LeFrac(f, TotalRatio)) THEN -1
   ELSE Cardinality({k \in 1..NComp : LtFrac(<<Cum(k), Orig>>, f)}) + 1
SetActiveInt(v) == /\ Len(hist) < D
                   /\ LET r == SetIntResult(v) IN
                      /\ active' = IF r = -1 THEN active ELSE r
                      /\ UNCHANGED <<eig, trimmed>>
                      /\ hist' = Append(hist, Rec("set_int", v, IF r = -1 THEN "ValueError" ELSE "ok"))
SetActiveFrac(f) == /\ Len(hist) < D
                    /\ LET r == SetFracResult(f) IN
                       /\ active' = IF r = -1 THEN active ELSE r
                       /\ UNCHANGED <<eig, trimmed>>
                       /\ hist' = Append(hist, Rec("set_frac", f, IF r = -1 THEN "ValueError" ELSE "ok"))
\* trim_components(n): n = 0 encodes None (use current active)
Trim(n) == /\ Len(hist) < D
           /\ LET want == IF n = 0 THEN active ELSE n
                  r == SetIntResult(want)
              IN IF r = -1
                 THEN /\ UNCHANGED <<eig, active, trimmed>>
                      /\ hist' = Append(hist, Rec("trim", n, "ValueError"))
                 ELSE /\ active' = r
                      /\ eig' = Prefix(eig, r)
                      /\ trimmed' = trimmed \o SubSeq(eig, r + 1, NComp)
                      /\ hist' = Append(hist, Rec("trim", n, "ok"))
Next == \/ \E v \in 0..(Len(Spectrum) + 1) : SetActiveInt(v)
        \/ \E f \in Fracs : SetActiveFrac(f)
        \/ \E n \in 0..(Len(Spectrum) + 1) : Trim(n)
Spec == Init /\ [][Next]_vars
\* ---- properties (C10 bookkeeping clauses)
OrigConstant == Orig = SumSeq(Spectrum)
Accounting == Kept + Noise[1] = Orig \/ (Noise = <<0,1>> /\ Kept = Orig)
Consistent == active \in 1..NComp /\ Len(eig) + Len(trimmed) = Len(Spectrum)
\* trimming to k == building with max_n_components = k: same kept prefix, same discarded multiset
\* (the discarded pool is only observable through its sum and count, its order is not specified)
TrimIsBuild == /\ eig = SubSeq(Spectrum, 1, Len(eig))
               /\ Len(trimmed) = Len(Spectrum) - Len(eig)
               /\ SumSeq(trimmed) = SumSeq(SubSeq(Spectrum, Len(eig) + 1, Len(Spectrum)))
TieFree == \A f \in Fracs : \A k \in 1..Len(Spectrum) : f[1] * SumSeq(Spectrum) # SumSeq(SubSeq(Spectrum, 1, k)) * f[2]
\* complete-graph mode (VIEW without hist, no depth bound): every TRANSITION of the complete state graph is emitted as the
\* history that reaches its source state (breadth-first, hence short) extended by that transition
EmitTrans == CSVWrite("%1$s", <<ToJson(hist')>>, IOEnv.OUT_FILE)
Emit == (Len(hist) = D) => CSVWrite("%1$s", <<ToJson(hist)>>, IOEnv.OUT_FILE)
=======================================================================
