SPECIFICATION Spec
POSTCONDITION Report
