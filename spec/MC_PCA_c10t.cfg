SPECIFICATION Spec
CONSTANTS
  DataSets <- DS
  Kinds = {"batch"}
  MaxChunks = 6
INVARIANT SumsGiveBatch
INVARIANT Additive
INVARIANT Symmetric
INVARIANT NonNegDiag
