SPECIFICATION Spec
POSTCONDITION Report
