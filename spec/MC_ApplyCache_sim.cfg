SPECIFICATION Spec
CONSTANTS
  Design = "fixed"
  D = 7
  Batches = {0, 2}
INVARIANT Pure
INVARIANT Emit
