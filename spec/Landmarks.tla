---------------------------- MODULE Landmarks ----------------------------
(* Ownership model of menpo.landmark.LandmarkManager / Landmarkable (property C06, second half).
   Shapes are heap objects with identity: obj -> [dim, val]; `val` is a content token; Mutate (an
   in-place write into every array of the object) gives it a fresh token.  A manager is an ordered
   sequence of <<name, obj>>.  An owner (shape / image) has a dimension and a manager.  The caller
   holds handles: shapes it created, whatever Get returned, managers it created or got from an
   owner.  Copy-on-set means whatever becomes stored is allocated in that very step. *)
EXTENDS Integers, Sequences, FiniteSets, TLC, Json, CSV, IOUtils
CONSTANTS Names, Dims, D, MaxObjs, MaxMgrs, OwnerDim
NoneName == "__none__"
Shift == 1000              \* transforming an owner adds Shift to the token of every group (a translation)
VARIABLES heap,     \* obj id -> [dim, val]
          mgr,      \* manager id -> Seq(<<name, obj>>)
          own,      \* owner id -> manager id  (the manager the owner currently holds)
          held,     \* set of obj ids the caller can write through
          clock,    \* fresh content tokens
          hist
vars == <<heap, mgr, own, held, clock, hist>>
Objs == DOMAIN heap
Mgrs == DOMAIN mgr
Owners == DOMAIN own
NewObj == Len(heap) + 1
Has(m, n) == \E i \in 1..Len(mgr[m]) : mgr[m][i][1] = n
Pos(m, n) == CHOOSE i \in 1..Len(mgr[m]) : mgr[m][i][1] = n
NDims(m) == IF mgr[m] = <<>> THEN 0 ELSE heap[mgr[m][1][2]].dim
View(h, g) == [m \in DOMAIN g |-> [i \in 1..Len(g[m]) |-> <<g[m][i][1], h[g[m][i][2]].dim, h[g[m][i][2]].val>>]]
\* res: object / manager / owner id returned (0 = none);  err: "" or the exception class;  keys: for Keys
Rec(op, args, res, err, keys) == [op |-> op, args |-> args, res |-> res, err |-> err, keys |-> keys,
                                  mgrs |-> View(heap', mgr'), own |-> own', objs |-> [o \in held' |-> heap'[o].val]]
StepK(op, args, res, err, keys) == hist' = Append(hist, Rec(op, args, res, err, keys)) /\ Len(hist) < D
Step(op, args, res) == StepK(op, args, res, "", <<>>)
Fail(op, args, e) == StepK(op, args, 0, e, <<>>)
CanAlloc(k) == Len(heap) + k <= MaxObjs
Same == UNCHANGED <<heap, mgr, own, held, clock>>

Init == heap = <<>> /\ mgr = (1 :> <<>>) @@ (2 :> <<>>) /\ own = (1 :> 2) /\ held = {} /\ clock = 1 /\ hist = <<>>
NewShape(d) == /\ CanAlloc(1) /\ Cardinality(held) < 3
               /\ heap' = Append(heap, [dim |-> d, val |-> clock]) /\ clock' = clock + 1
               /\ held' = held \cup {NewObj} /\ UNCHANGED <<mgr, own>>
               /\ Step("new", <<d>>, NewObj)
Mutate(o) == /\ heap' = [heap EXCEPT ![o].val = clock] /\ clock' = clock + 1
             /\ UNCHANGED <<mgr, own, held>>
             /\ Step("mutate", <<o>>, 0)
Set(m, n, o) ==
   IF n = NoneName \/ (NDims(m) # 0 /\ heap[o].dim # NDims(m))
   THEN Same /\ Fail("set", <<m, n, o>>, "ValueError")
   ELSE /\ CanAlloc(1)
        /\ LET c == NewObj IN
           /\ heap' = Append(heap, heap[o])                       \* the stored group is a fresh copy
           /\ mgr' = [mgr EXCEPT ![m] = IF Has(m, n) THEN [mgr[m] EXCEPT ![Pos(m, n)] = <<n, c>>]   \* keeps its position
                                          ELSE Append(mgr[m], <<n, c>>)]
           /\ UNCHANGED <<own, held, clock>>
        /\ Step("set", <<m, n, o>>, 0)
Get(m, n) ==
   LET ok == IF n = NoneName THEN Len(mgr[m]) = 1 ELSE Has(m, n) IN
   IF ~ok THEN Same /\ Fail("get", <<m, n>>, IF n = NoneName THEN "ValueError" ELSE "KeyError")
   ELSE LET o == IF n = NoneName THEN mgr[m][1][2] ELSE mgr[m][Pos(m, n)][2] IN
        /\ held' = held \cup {o}                                   \* by design: a live handle on the stored group
        /\ UNCHANGED <<heap, mgr, own, clock>> /\ Step("get", <<m, n>>, o)
Del(m, n) ==
   IF ~Has(m, n) THEN Same /\ Fail("del", <<m, n>>, "KeyError")
   ELSE /\ mgr' = [mgr EXCEPT ![m] = SelectSeq(mgr[m], LAMBDA e : e[1] # n)]
        /\ UNCHANGED <<heap, own, held, clock>> /\ Step("del", <<m, n>>, 0)
Keys(m) == Same /\ StepK("keys", <<m>>, 0, "", [i \in 1..Len(mgr[m]) |-> mgr[m][i][1]])
\* deep copy of a manager: a fresh manager holding fresh copies of every group
CopyInto(m, new) ==
      LET k == Len(mgr[m]) base == Len(heap) IN
      /\ heap' = heap \o [i \in 1..k |-> heap[mgr[m][i][2]]]
      /\ mgr' = [x \in Mgrs \cup {new} |-> IF x = new THEN [i \in 1..k |-> <<mgr[m][i][1], base + i>>] ELSE mgr[x]]
CopyMgr(m) ==
   /\ CanAlloc(Len(mgr[m])) /\ Cardinality(Mgrs) < MaxMgrs
   /\ LET new == Cardinality(Mgrs) + 1 IN
      CopyInto(m, new) /\ UNCHANGED <<own, held, clock>> /\ Step("copy_mgr", <<m>>, new)
\* owner.landmarks = manager : the owner stores a COPY of the manager (dimension checked against the owner)
Assign(w, m) ==
   IF NDims(m) # 0 /\ NDims(m) # OwnerDim
   THEN Same /\ Fail("assign", <<w, m>>, "ValueError")
   ELSE /\ CanAlloc(Len(mgr[m])) /\ Cardinality(Mgrs) < MaxMgrs
        /\ LET new == Cardinality(Mgrs) + 1 IN
           CopyInto(m, new) /\ own' = [own EXCEPT ![w] = new] /\ UNCHANGED <<held, clock>> /\ Step("assign", <<w, m>>, new)
\* transform.apply(owner): a NEW owner whose groups are moved copies; the receiver is untouched
TransformOwner(w) ==
   /\ Cardinality(Owners) < 2 /\ Cardinality(Mgrs) < MaxMgrs /\ CanAlloc(Len(mgr[own[w]]))
   /\ NDims(own[w]) \in {0, OwnerDim}          \* (a transform of the owner's dimension cannot move groups of another one)
   /\ LET m == own[w] k == Len(mgr[m]) base == Len(heap) new == Cardinality(Mgrs) + 1 nw == Cardinality(Owners) + 1 IN
      /\ heap' = heap \o [i \in 1..k |-> [heap[mgr[m][i][2]] EXCEPT !.val = @ + Shift]]
      /\ mgr' = [x \in Mgrs \cup {new} |-> IF x = new THEN [i \in 1..k |-> <<mgr[m][i][1], base + i>>] ELSE mgr[x]]
      /\ own' = [x \in Owners \cup {nw} |-> IF x = nw THEN new ELSE own[x]]
      /\ UNCHANGED <<held, clock>> /\ Step("transform_owner", <<w>>, nw)
Next == \/ \E d \in Dims : NewShape(d)
        \/ \E o \in held : Mutate(o)
        \/ \E m \in Mgrs, n \in Names \cup {NoneName}, o \in held : Set(m, n, o)
        \/ \E m \in Mgrs, n \in Names \cup {NoneName} : Get(m, n)
        \/ \E m \in Mgrs, n \in Names \cup {NoneName} : Del(m, n)      \* (None is never the name of a group: deleting it is a KeyError)
        \/ \E m \in Mgrs : CopyMgr(m) \/ Keys(m)
        \/ \E w \in Owners, m \in Mgrs : Assign(w, m)
        \/ \E w \in Owners : TransformOwner(w)
Spec == Init /\ [][Next]_vars
\* ---- properties (C06, manager clauses) ----------------------------------------------------
StoredOf(g) == UNION {{g[m][i][2] : i \in 1..Len(g[m])} : m \in DOMAIN g}
Stored == StoredOf(mgr)
\* copy-on-set: whatever becomes stored in a step was allocated in that step
FreshOnStore == [][ (StoredOf(mgr') \ StoredOf(mgr)) \cap Objs = {} ]_vars
\* a stored group changes value only through a handle obtained by Get
OnlyViaGet == [][ \A o \in Stored : (heap'[o].val # heap[o].val) => o \in held ]_vars
NoCrossSharing == \A a, b \in Mgrs : a # b => {mgr[a][i][2] : i \in 1..Len(mgr[a])} \cap {mgr[b][i][2] : i \in 1..Len(mgr[b])} = {}
OneDim == \A m \in Mgrs : \A i \in 1..Len(mgr[m]) : heap[mgr[m][i][2]].dim = NDims(m)
\* NOT an invariant (TLC refutes it): a manager obtained from an owner does not know the owner's dimension, so
\* owner.landmarks["a"] = a_3d_shape is accepted while the manager is empty.  C06 only demands ONE dimensionality per manager.
OwnerDimOK == \A w \in Owners : NDims(own[w]) \in {0, OwnerDim}
UniqueNames == \A m \in Mgrs : \A i, j \in 1..Len(mgr[m]) : i # j => mgr[m][i][1] # mgr[m][j][1]
\* insertion order: a step never reorders the names that survive it
HasG(g, m, n) == \E i \in 1..Len(g[m]) : g[m][i][1] = n
PosG(g, m, n) == CHOOSE i \in 1..Len(g[m]) : g[m][i][1] = n
OrderKept == [][ \A m \in Mgrs : \A i, j \in 1..Len(mgr[m]) :
                   (i < j /\ HasG(mgr', m, mgr[m][i][1]) /\ HasG(mgr', m, mgr[m][j][1]))
                      => PosG(mgr', m, mgr[m][i][1]) < PosG(mgr', m, mgr[m][j][1]) ]_vars
FailuresPure == [][ (hist' # hist /\ hist'[Len(hist')].err # "") => UNCHANGED <<heap, mgr, own>> ]_vars
Emit == (Len(hist) = D) => CSVWrite("%1$s", <<ToJson(hist)>>, IOEnv.OUT_FILE)
=======================================================================
