---------------------------- MODULE ApplyCache ----------------------------
(* C09 - apply() must be a function of the VALUE passed (and of nothing else).

   Arrays are caller-owned objects with identity and a value.  Values:
      1, 2   in-domain point sets, far apart;
      11     in-domain, differs from 1 by less than np.allclose's tolerance;
      90     contains a point outside the transform's domain (application must fail, naming it).
   The memo of the cached piecewise-affine transform is modelled under several designs:
      "fixed"     owned snapshot of the last successfully applied value, exact-equality hit test,
                  snapshot stored only after the lookup succeeded            (the code as repaired)
      "asimpl"    reference to the caller's array + allclose hit test         (the pinned code: refuted)
      "snapfirst" snapshot stored BEFORE the lookup (a failed call poisons the cache: refuted)
   Pure is the property; TLC proves it for "fixed" over all histories and refutes it for the others
   (non-vacuity).  The same histories are replayed on every transform class. *)
EXTENDS Integers, Sequences, FiniteSets, TLC, Json, CSV, IOUtils
CONSTANTS Design, D, Batches
VARIABLES arr,      \* array id -> current value
          cref,     \* cached reference (array id) or 0            ("asimpl")
          csnap,    \* cached snapshot value or 0
          cres,     \* cached lookup result: the value it was computed from, or 0 when none
          last,     \* outcome of the last apply: the value whose image was returned, or -1 for a containment error
          lastIdeal,\* what a pure function returns
          touched,  \* the transform was queried (pseudoinverse / copy / parameters / properties read) since the last apply
          hist
vars == <<arr, cref, csnap, cres, last, lastIdeal, touched, hist>>
Vals == {1, 2, 11, 90}
Outside(v) == v = 90
Close(a, b) == a = b \/ {a, b} = {1, 11}
Arrays == DOMAIN arr
Ideal(v) == IF Outside(v) THEN -1 ELSE v
Init == arr = [a \in {1, 2} |-> 1] /\ cref = 0 /\ csnap = 0 /\ cres = 0 /\ last = 0 /\ lastIdeal = 0 /\ touched = FALSE /\ hist = <<>>
Hit(a) == CASE Design = "asimpl" -> cref # 0 /\ Close(arr[a], arr[cref])     \* compares with whatever the referenced array holds NOW
            [] OTHER -> csnap # 0 /\ arr[a] = csnap
Rec(op, a, v, b) == [op |-> op, a |-> a, v |-> v, batch |-> b, obs |-> lastIdeal']
\* apply the transform to array a (as a bare array or wrapped in a shape; optionally batched - for the model
\* the batch size is irrelevant: that batching cannot matter is exactly the claim)
Apply(a, kind, b) ==
   /\ Len(hist) < D
   /\ lastIdeal' = Ideal(arr[a])
   /\ IF Hit(a)
      THEN last' = (IF cres = 0 THEN -2 ELSE cres) /\ UNCHANGED <<cref, csnap, cres>>      \* -2: a hit on a memo that holds no result
      ELSE IF Outside(arr[a])
           THEN /\ last' = -1
                /\ IF Design = "snapfirst" THEN csnap' = arr[a] /\ UNCHANGED <<cref, cres>>   \* key stored, result not
                   ELSE UNCHANGED <<cref, csnap, cres>>
           ELSE last' = arr[a] /\ cres' = arr[a] /\ cref' = a /\ csnap' = arr[a]
   /\ UNCHANGED arr /\ touched' = FALSE
   /\ hist' = Append(hist, Rec(kind, a, arr[a], b))
\* in-place edit of a caller-owned array
Write(a, v) == /\ Len(hist) < D /\ v # arr[a]
               /\ arr' = [arr EXCEPT ![a] = v]
               /\ UNCHANGED <<cref, csnap, cres, last, lastIdeal, touched>>
               /\ hist' = Append(hist, [op |-> "write", a |-> a, v |-> v, batch |-> 0, obs |-> lastIdeal])
\* every other public, non-mutating use of the transform between two applications: taking its pseudoinverse, copying it,
\* reading its parameter vector and properties.  Under every memo design these leave the transform as it was - the adapter
\* really makes the calls, so a real transform that is changed by being looked at shows up at the next Apply
Query == /\ Len(hist) < D /\ ~touched /\ touched' = TRUE
         /\ UNCHANGED <<arr, cref, csnap, cres, last, lastIdeal>>
         /\ hist' = Append(hist, [op |-> "query", a |-> 0, v |-> 0, batch |-> 0, obs |-> lastIdeal])
Next == \E a \in Arrays : \/ \E k \in {"apply", "apply_shape"}, b \in Batches : Apply(a, k, b)
                          \/ \E v \in Vals : Write(a, v)
        \/ Query
Spec == Init /\ [][Next]_vars
Pure == last = lastIdeal
\* complete-graph mode: the state without the history is finite; with VIEW NoHist and no depth bound TLC visits every
\* reachable state, checks Pure there (histories of ANY length) and EmitTrans emits one history per transition
NoHist == <<arr, cref, csnap, cres, last, lastIdeal, touched>>
EmitTrans == CSVWrite("%1$s", <<ToJson(hist')>>, IOEnv.OUT_FILE)
Emit == (Len(hist) = D) => CSVWrite("%1$s", <<ToJson(hist)>>, IOEnv.OUT_FILE)
=======================================================================
