---------------------------- MODULE MC_LazyList ----------------------------
EXTENDS LazyList
Both == {"iterable", "index"}
\* quick pools
QInit == {2, 3}
QStarts == {-2, NoneV}
QStops == {2, NoneV}
QSteps == {-1, 2}
QIdx == {-1, 1}
QRep == {2}
QFancy == {<<1, 0>>, <<-1, -1, 0>>}
QPlain == {2}
\* thorough pools
TInit == {0, 1, 3}
TStarts == {-3, 1, NoneV}
TStops == {-1, 2, NoneV}
TSteps == {-2, -1, 0, 2, NoneV}
TIdx == {-3, -1, 0, 2}
TRep == {-1, 0, 1, 3}
TFancy == {<<1, 0>>, <<-1, -1, 0>>, <<>>, <<2>>}
TPlain == {0, 2}
=============================================================================
