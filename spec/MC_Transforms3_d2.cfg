SPECIFICATION Spec
CONSTANTS
  Pool <- PoolSmall
  D = 2
  MaxObjs = 20
  MaxEntry = 400
  EvalPts <- Pts
  Ops <- AllOps
INVARIANT HonestInv
INVARIANT LadderIsFCA
INVARIANT ComposeLaw
INVARIANT InverseLaw
INVARIANT Emit
PROPERTY OperandsIntact
PROPERTY FailuresPure
PROPERTY InplaceLocal
