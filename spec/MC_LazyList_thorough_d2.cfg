SPECIFICATION Spec
CONSTANTS
  InitLens <- TInit
  Ctors <- Both
  MaxLists = 4
  D = 2
  SStarts <- TStarts
  SStops <- TStops
  SSteps <- TSteps
  IdxPool <- TIdx
  RepPool <- TRep
  FancyPool <- TFancy
  PlainPool <- TPlain
  WithIter = TRUE
INVARIANT Faithful
INVARIANT Emit
PROPERTY LazyProp
PROPERTY ExactDeps
PROPERTY Immutable
PROPERTY FailuresPure
