SPECIFICATION Spec
CONSTANTS
  Pool <- PoolQ
  Patterns <- PatAll
  Maxes = {0, 1, 2}
INVARIANT Sound
INVARIANT PrefixMonotone
