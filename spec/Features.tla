---------------------------- MODULE Features ----------------------------
(* The wrapper protocol of menpo.feature (ndfeature / imgfeature decorators, rebuild_feature_image)
   and the exact algebra of the normalising features (property C18).  The numeric content of
   gradient / gaussian / IGO / ES / DAISY is an UNINTERPRETED symbol F_f: the specification only
   says what surrounds it - result kind, channel count, output shape, which landmarks and mask
   accompany the result (unchanged copies when the shape is kept, rescaled by the shape ratio when
   it is not), input untouched, and feature(image).pixels = F_f(image.pixels) (checked as equality
   of the two calling conventions of the real code).  One-shot: every case is an initial state. *)
EXTENDS Rat, FiniteSets, TLC, Json, CSV, IOUtils
CONSTANTS Kinds
VARIABLES case, done
R(n) == <<n,1>>
Q(a,b) == Norm(a,b)
\* ---- the wrapper protocol ---------------------------------------------------------------------------
Daisy == [daisy_a |-> [step |-> 1, radius |-> 15, rings |-> 2, histograms |-> 2, orientations |-> 8],
          daisy_b |-> [step |-> 4, radius |-> 10, rings |-> 1, histograms |-> 3, orientations |-> 4],
          daisy_c |-> [step |-> 3, radius |-> 7, rings |-> 3, histograms |-> 2, orientations |-> 2]]
\* ("gaussian_filter_0": the degenerate-but-legal sigma 0 - the identity filter, still a NEW image)
Simple == {"gradient", "gaussian_filter", "gaussian_filter_0", "igo", "double_igo", "es", "no_op", "normalize_std", "normalize_norm", "normalize_var",
           "igo_of_gaussian", "normalize_std_of_gradient", "gradient_of_no_op"}
IsDaisy(f) == f \in DOMAIN Daisy
CeilDiv(a, b) == -((-a) \div b)
OutChannels(f, c) == CASE f \in {"gradient", "igo", "es", "igo_of_gaussian", "normalize_std_of_gradient", "gradient_of_no_op"} -> 2 * c
                       [] f = "double_igo" -> 4 * c
                       [] IsDaisy(f) -> (Daisy[f].rings * Daisy[f].histograms + 1) * Daisy[f].orientations
                       [] OTHER -> c
OutShape(f, sh) == IF IsDaisy(f) THEN <<CeilDiv(sh[1] - 2 * Daisy[f].radius, Daisy[f].step), CeilDiv(sh[2] - 2 * Daisy[f].radius, Daisy[f].step)>> ELSE sh
\* the smallest image a DAISY grid fits in: one descriptor row (2 * radius + 1 pixels), a few columns
MinShape(f) == <<2 * Daisy[f].radius + 1, 2 * Daisy[f].radius + 4>>
Lms0 == << <<R(2), R(3)>>, <<R(5), R(6)>>, <<Q(7,2), R(1)>> >>
Lms1 == << <<R(0), R(0)>>, <<R(11), R(13)>> >>
ScaleLm(p, sh, sh2) == <<RMul(p[1], Q(sh2[1], sh[1])), RMul(p[2], Q(sh2[2], sh[2]))>>
OutLms(f, sh, lms) == IF OutShape(f, sh) = sh THEN lms ELSE [i \in 1..Len(lms) |-> ScaleLm(lms[i], sh, OutShape(f, sh))]
WrapCases == {[kind |-> "wrap", f |-> f, img |-> k, c |-> c, dtype |-> dt, shape |-> sh, nlm |-> n] :
                <<f, k, c, dt, sh, n>> \in {<<f, k, c, dt, sh, n>> \in (Simple \cup DOMAIN Daisy) \X {"image", "masked_full", "masked_sparse"} \X {1, 3, 4}
                                              \X {"float64", "float32"} \X ({<<12, 14>>, <<40, 37>>} \cup {MinShape(g) : g \in DOMAIN Daisy}) \X {0, 2} :
                                            (IsDaisy(f) => (sh \in {<<40, 37>>, MinShape(f)} /\ c \in {1, 3})) /\ (~IsDaisy(f) => sh = <<12, 14>>)}}
WrapOut(c) == [case |-> c, kind |-> IF c.img = "image" THEN "Image" ELSE "MaskedImage",
               channels |-> OutChannels(c.f, c.c), shape |-> OutShape(c.f, c.shape),
               lms |-> IF c.nlm = 0 THEN <<>> ELSE << <<"first", OutLms(c.f, c.shape, Lms0)>>, <<"second", OutLms(c.f, c.shape, Lms1)>> >>,
               lms_in |-> IF c.nlm = 0 THEN <<>> ELSE << <<"first", Lms0>>, <<"second", Lms1>> >>,
               mask_rule |-> IF c.img = "image" THEN "none" ELSE IF OutShape(c.f, c.shape) = c.shape THEN "copy" ELSE "resize",
               daisy |-> IF IsDaisy(c.f) THEN Daisy[c.f] ELSE [step |-> 0, radius |-> 0, rings |-> 0, histograms |-> 0, orientations |-> 0]]
\* ---- normalisers: exact over integer pixel grids (c channels x n pixels) ----------------------------
Grids == [ plain |-> << <<1, 2, 4, 7, 0, 3>>, <<5, 5, 6, 9, 1, 2>> >>,
           constchan |-> << <<3, 3, 3, 3, 3, 3>>, <<5, 0, 6, 9, 1, 2>> >>,          \* one zero-variance channel
           allconst |-> << <<4, 4, 4, 4, 4, 4>>, <<4, 4, 4, 4, 4, 4>> >>,           \* every scale is zero
           single |-> << <<0, 8, 1, 1, 2, 6>> >>,
           three |-> << <<1, 0, 0, 2, 5, 1>>, <<7, 7, 7, 7, 7, 8>>, <<0, 3, 0, 3, 0, 3>> >> ]
NPix(g) == Len(g[1])
SumRow(g, ch) == LET f(i) == g[ch][i] IN ISum(f, 1, NPix(g))
SumAll(g) == LET f(ch) == SumRow(g, ch) IN ISum(f, 1, Len(g))
MeanOf(g, mode, ch) == IF mode = "all" THEN Q(SumAll(g), Len(g) * NPix(g)) ELSE Q(SumRow(g, ch), NPix(g))
Centred(g, mode) == [ch \in 1..Len(g) |-> [i \in 1..NPix(g) |-> RSub(R(g[ch][i]), MeanOf(g, mode, ch))]]
SumSqRow(cp, ch) == LET f(i) == RSq(cp[ch][i]) IN RSum(f, 1, Len(cp[ch]))
SumSqAll(cp) == LET f(ch) == SumSqRow(cp, ch) IN RSum(f, 1, Len(cp))
\* squared scale statistic of the centred pixels: norm^2 = sum c^2 ; std^2 = sum c^2 / N ; var = sum c^2 / N (NOT squared)
Stat2(stat, cp, mode, ch) == LET ss == IF mode = "all" THEN SumSqAll(cp) ELSE SumSqRow(cp, ch)
                                 n == IF mode = "all" THEN Len(cp) * Len(cp[1]) ELSE Len(cp[1]) IN
                             IF stat = "norm" THEN ss ELSE RMul(ss, <<1, n>>)
\* `unit`: the pixel values are the integer grid times 10^-unit (low-contrast but NON-constant images: a scale that is
\* merely small is not a zero scale).  Normalised output: unchanged for std / norm, times 10^unit for var.
HasZeroScale(g, st, m) == LET cp == Centred(Grids[g], m) IN \E ch \in 1..Len(Grids[g]) : Stat2(st, cp, m, ch) = Z0
NormCases == {[kind |-> "norm", grid |-> g, stat |-> st, mode |-> m, raise |-> e, unit |-> u] :
                <<g, st, m, e, u>> \in {<<g, st, m, e, u>> \in (DOMAIN Grids) \X {"std", "norm", "var"} \X {"all", "per_channel"} \X BOOLEAN \X {0, 5, 9} :
                     \* an exactly-zero scale is only exact on integer pixel values (10^-9 * 4 is not representable: its
                     \* float mean leaves a residue), so constant channels are tested at unit 0 only
                     u = 0 \/ ~HasZeroScale(g, st, m)}}
NormOut(c) == LET g == Grids[c.grid] cp == Centred(g, c.mode)
                  s2 == [ch \in 1..Len(g) |-> Stat2(c.stat, cp, c.mode, ch)]
                  anyzero == \E ch \in 1..Len(g) : s2[ch] = Z0 IN
              [case |-> c, grid |-> g, centred |-> cp, scale2 |-> s2,
               \* var: divide by scale2 itself; std / norm: divide by sqrt(scale2)
               outcome |-> IF anyzero /\ c.raise THEN "ValueError" ELSE IF anyzero THEN "skip_zero" ELSE "ok"]
Cases == (IF "wrap" \in Kinds THEN WrapCases ELSE {}) \cup (IF "norm" \in Kinds THEN NormCases ELSE {})
Out(c) == IF c.kind = "wrap" THEN WrapOut(c) ELSE NormOut(c)
Init == case \in Cases /\ done = FALSE
Next == done = FALSE /\ done' = TRUE /\ case' = case /\ CSVWrite("%1$s", <<ToJson(Out(case))>>, IOEnv.OUT_FILE)
Spec == Init /\ [][Next]_<<case, done>>
\* ---- laws on the model ---------------------------------------------------------------------------------
\* centring really centres; after division by the statistic the statistic is one (exactly, in terms of squares)
ZeroMean == case.kind = "norm" => LET g == Grids[case.grid] cp == Centred(g, case.mode) IN
               IF case.mode = "all" THEN (LET f(ch) == (LET h(i) == cp[ch][i] IN RSum(h, 1, NPix(g))) IN RSum(f, 1, Len(g))) = Z0
               ELSE \A ch \in 1..Len(g) : (LET h(i) == cp[ch][i] IN RSum(h, 1, NPix(g))) = Z0
\* after dividing by the statistic, the (squared) statistic of the result is exactly one
UnitStat == (case.kind = "norm" /\ case.stat \in {"std", "norm"}) =>
               LET g == Grids[case.grid] cp == Centred(g, case.mode)
                   one == IF case.stat = "norm" THEN O1 ELSE R(IF case.mode = "all" THEN Len(g) * NPix(g) ELSE NPix(g)) IN
               IF case.mode = "all"
               THEN LET s2 == Stat2(case.stat, cp, "all", 1) IN s2 # Z0 => RMul(SumSqAll(cp), RInv(s2)) = one
               ELSE \A ch \in 1..Len(g) : LET s2 == Stat2(case.stat, cp, "per_channel", ch) IN s2 # Z0 => RMul(SumSqRow(cp, ch), RInv(s2)) = one
ShapeRule == case.kind = "wrap" => LET o == WrapOut(case) IN
               /\ o.shape[1] >= 1 /\ o.shape[2] >= 1 /\ o.channels >= 1
               /\ (case.img # "image" => ((o.shape = case.shape) <=> (o.mask_rule = "copy")))
               /\ (o.shape # case.shape => \A i \in 1..Len(o.lms) : o.lms[i][2] # o.lms_in[i][2])
=======================================================================
