---------------------------- MODULE Image ----------------------------
(* 2-D image geometry conventions of menpo.image (property C01), transcribed as the code computes them
   - this is where an off-by-one would live, so the transcription IS the specification of the
   convention.  An image is
       [shape, A, valid, lms, mask]
   A     : affine map (3x3 over Q) from its index space to the index space of the ORIGINAL image; the
           pixel content of the coordinate-ramp test image is exactly A(x) on valid pixels (order-1
           interpolation reproduces affine functions exactly);
   valid : the indices whose whole sampling history stayed inside the images sampled from;
   lms   : landmark points (Q);
   mask  : index -> 1 (true) | 0 (false) | -1 (not judged: rounding tie, float-fragile border or clamped
           sample), carried by nearest-neighbour sampling with the same transform.
   Every operation builds a template->source transform S and a template shape and funnels into Warp. *)
EXTENDS Mat, TLC, Json, CSV, IOUtils
CONSTANTS Shape0, D, Scales, RotKeys, Modes, CropBoxes, Zooms, Warps, Order0Warps,
          Ops           \* enabled operation families (see Next)
VARIABLES img, hist
vars == <<img, hist>>
R(n) == <<n,1>>
Grid(sh) == {<<i,j>> : i \in 0..(sh[1]-1), j \in 0..(sh[2]-1)}
Pt(x) == <<R(x[1]), R(x[2])>>
InBox(p, sh) == RLe(Z0,p[1]) /\ RLe(p[1],R(sh[1]-1)) /\ RLe(Z0,p[2]) /\ RLe(p[2],R(sh[2]-1))
StrictIn(p, sh) == RLt(Z0,p[1]) /\ RLt(p[1],R(sh[1]-1)) /\ RLt(Z0,p[2]) /\ RLt(p[2],R(sh[2]-1))
\* a matrix whose entries are dyadic rationals is exact in float64, so samples exactly on the border are computed exactly;
\* otherwise border samples are float-fragile (may come out as -1e-16 and be filled) and are left out of `valid`
Dyadic(M) == \A i \in 1..Len(M) : \A j \in 1..Len(M) : Pow2(M[i][j][2])
SafeIn(p, sh, S, fx) == IF fx /\ Dyadic(S) THEN InBox(p, sh) ELSE StrictIn(p, sh)
Stencil(p) == {<<RFloor(p[1]),RFloor(p[2])>>, <<RFloor(p[1]),RCeil(p[2])>>, <<RCeil(p[1]),RFloor(p[2])>>, <<RCeil(p[1]),RCeil(p[2])>>}
IsHalf(q) == q[2] = 2
\* within 1/1000 outside of the box: float-fragile
NearBox(p, sh) == RLe(<<-1,1000>>, p[1]) /\ RLe(p[1], RAdd(R(sh[1]-1), <<1,1000>>)) /\ RLe(<<-1,1000>>, p[2]) /\ RLe(p[2], RAdd(R(sh[2]-1), <<1,1000>>))
\* nearest-neighbour sample of the mask at rational point p: outside the box the constant mode fills with False, the
\* nearest mode clamps (not judged); ties and float-fragile borders are not judged
MaskAt(im, p, S, fx, constantMode) ==
   IF ~InBox(p, im.shape) THEN (IF constantMode /\ ~NearBox(p, im.shape) THEN 0 ELSE -1)
   ELSE IF IsHalf(p[1]) \/ IsHalf(p[2]) THEN -1
   ELSE IF ~SafeIn(p, im.shape, S, fx) THEN -1
   ELSE im.mask[<<RRoundHalfEven(p[1]), RRoundHalfEven(p[2])>>]
\* generic warp: the new image samples the old one at S(x)
Warp(im, sh, S, fx, constantMode) == LET Si == Inv(S) IN
   [shape |-> sh,
    A |-> MMul(im.A, S),
    valid |-> {x \in Grid(sh) : LET p == ApplyH(S, Pt(x)) IN SafeIn(p, im.shape, S, fx) /\ Stencil(p) \subseteq im.valid},
    lms |-> [i \in 1..Len(im.lms) |-> ApplyH(Si, im.lms[i])],
    mask |-> [x \in Grid(sh) |-> MaskAt(im, ApplyH(S, Pt(x)), S, fx, constantMode)]]
\* ---- the conventions --------------------------------------------------------------------------------
RescaleShape(im, s, mode) == <<RoundMode(RMul(s[1], R(im.shape[1])), mode), RoundMode(RMul(s[2], R(im.shape[2])), mode)>>
\* index-space factors (s L - 1) / (L - 1): pixel CENTRES are scaled, not extents
RescaleS(im, s) == LET f(k) == RMul(RSub(RMul(s[k], R(im.shape[k])), O1), RInv(R(im.shape[k]-1))) IN Sc2(RInv(f(1)), RInv(f(2)))
Centre(im) == <<Norm(im.shape[1],2), Norm(im.shape[2],2)>>           \* shape/2 (not (shape-1)/2)
AboutCentreS(im, T, retain, mode) ==
   LET c == Centre(im)
       toO == Tr2(RNeg(c[1]), RNeg(c[2])) IN
   IF retain THEN [shape |-> im.shape, S |-> Inv(MMul(Tr2(c[1],c[2]), MMul(T, toO))), fragile |-> FALSE]
   ELSE LET tr == MMul(T, toO)
            cs == {ApplyH(tr, <<R(i),R(j)>>) : i \in {0, im.shape[1]-1}, j \in {0, im.shape[2]-1}}
            mn(k) == CHOOSE v \in {p[k] : p \in cs} : \A w \in {p[k] : p \in cs} : RLe(v, w)
            mx(k) == CHOOSE v \in {p[k] : p \in cs} : \A w \in {p[k] : p \in cs} : RLe(w, v)
            fwd == MMul(Tr2(RNeg(mn(1)), RNeg(mn(2))), tr)
            ext(k) == RAdd(RSub(mx(k), mn(k)), O1)
        IN [shape |-> <<RoundMode(ext(1), mode), RoundMode(ext(2), mode)>>, S |-> Inv(fwd),
            \* an extent that is EXACTLY integral (half-integral) is decided by float noise under ceil / floor (round): not judged
            fragile |-> \E k \in {1, 2} : IF mode = "round" THEN IsHalf(ext(k)) ELSE IsInt(ext(k))]
MirrorS(im, ax) == LET m == IF ax = 0 THEN M3(R(-1),Z0,R(im.shape[1]-1), Z0,O1,Z0) ELSE M3(O1,Z0,Z0, Z0,R(-1),R(im.shape[2]-1)) IN Inv(m)
ZoomS(im, z) == LET c == Centre(im) IN MMul(Tr2(c[1],c[2]), MMul(Sc2(RInv(z),RInv(z)), Tr2(RNeg(c[1]),RNeg(c[2]))))
Clip(v, hi) == IF v < 0 THEN 0 ELSE IF v > hi THEN hi ELSE v
CropSpec(im, mn, mx, constrain) ==
   LET lo == <<RFloor(mn[1]), RFloor(mn[2])>> hi == <<RCeil(mx[1]), RCeil(mx[2])>>
       lob == <<Clip(lo[1], im.shape[1]), Clip(lo[2], im.shape[2])>>
       hib == <<Clip(hi[1], im.shape[1]), Clip(hi[2], im.shape[2])>>
   IN IF ~(hi[1] > lo[1] /\ hi[2] > lo[2]) THEN [err |-> "ValueError"]
      ELSE IF ~constrain /\ ~(lob = lo /\ hib = hi) THEN [err |-> "ImageBoundaryError"]
      ELSE IF hib[1] <= lob[1] \/ hib[2] <= lob[2] THEN [err |-> "empty"]
      ELSE [err |-> "none", shape |-> <<hib[1]-lob[1], hib[2]-lob[2]>>, S |-> Tr2(R(lob[1]), R(lob[2]))]
Rots == [r90 |-> Lin2(Z0,R(-1),R(1),Z0), r180 |-> Lin2(R(-1),Z0,Z0,R(-1)), r270 |-> Lin2(Z0,R(1),R(-1),Z0),
         p345 |-> Lin2(<<3,5>>,<<-4,5>>,<<4,5>>,<<3,5>>), p345n |-> Lin2(<<3,5>>,<<4,5>>,<<-4,5>>,<<3,5>>), p51213 |-> Lin2(<<5,13>>,<<-12,13>>,<<12,13>>,<<5,13>>)]
\* ---- state machine --------------------------------------------------------------------------------------
\* ("fullmask" in Ops: the initial mask is all true - the default mask of a MaskedImage - instead of the sparse pattern)
Mask0 == [x \in Grid(Shape0) |-> IF "fullmask" \notin Ops /\ (x[1] + 2 * x[2]) % 3 = 0 THEN 0 ELSE 1]
Img0 == [shape |-> Shape0, A |-> IdM(3), valid |-> Grid(Shape0),
         lms |-> << <<R(1),R(1)>>, <<<<3,2>>, <<9,4>>>>, <<R(Shape0[1]-2), <<5,2>>>> >>, mask |-> Mask0]
MaskSeq(im) == [i \in 1..im.shape[1] |-> [j \in 1..im.shape[2] |-> im.mask[<<i-1, j-1>>]]]
ValidSeq(im) == [i \in 1..im.shape[1] |-> [j \in 1..im.shape[2] |-> IF <<i-1, j-1>> \in im.valid THEN 1 ELSE 0]]
Rec(op, args, exp) == [op |-> op, args |-> args, exp |-> exp]
Expect(im, S) == [shape |-> im.shape, S |-> S, lms |-> im.lms, A |-> im.A, valid |-> ValidSeq(im), mask |-> MaskSeq(im), err |-> ""]
Do(op, args, sh, S, fx, cm) == LET n == Warp(img, sh, S, fx, cm) IN img' = n /\ hist' = Append(hist, Rec(op, args, Expect(n, S)))
Small == img.shape[1] * img.shape[2] <= 150 /\ img.shape[1] >= 2 /\ img.shape[2] >= 2
\* after a terminal operation the content is no longer an affine function of the result index (or the result changed class)
Terminal == {"warp_order0", "warp_mask", "gpyramid", "warp_sym"}
Live == Len(hist) < D /\ Small /\ (IF hist = <<>> THEN TRUE ELSE hist[Len(hist)].op \notin Terminal)
\* s L <= 1 makes the index-space factor (s L - 1)/(L - 1) zero or negative (menpo divides by zero there): outside the domain
Rescale(s, m) == Live /\ RLt(O1, RMul(s[1], R(img.shape[1]))) /\ RLt(O1, RMul(s[2], R(img.shape[2])))
                 /\ LET sh == RescaleShape(img, s, m) IN sh[1] >= 1 /\ sh[2] >= 1 /\ Do("rescale", <<s, m>>, sh, RescaleS(img, s), TRUE, FALSE)
Resize(sh) == Live /\ sh # img.shape
              /\ LET s == <<Norm(sh[1], img.shape[1]), Norm(sh[2], img.shape[2])>> IN
                 RescaleShape(img, s, "round") = sh /\ Do("resize", <<sh>>, sh, RescaleS(img, s), TRUE, FALSE)
Rotate(r, retain, m) == Live /\ LET q == AboutCentreS(img, Rots[r], retain, m) IN
                          /\ ~q.fragile
                          /\ q.shape[1] >= 1 /\ q.shape[2] >= 1
                          /\ Do("rotate", <<r, retain, m>>, q.shape, q.S, FALSE, TRUE)
Mirror(ax) == Live /\ Do("mirror", <<ax>>, img.shape, MirrorS(img, ax), TRUE, FALSE)
Zoom(z) == Live /\ Do("zoom", <<z>>, img.shape, ZoomS(img, z), TRUE, FALSE)
Crop(mn, mx, c) == Live /\ LET q == CropSpec(img, mn, mx, c) IN
                     /\ q.err # "empty"
                     /\ IF q.err # "none" THEN img' = img /\ hist' = Append(hist, Rec("crop", <<mn, mx, c>>, [err |-> q.err]))
                        ELSE Do("crop", <<mn, mx, c>>, q.shape, q.S, TRUE, TRUE)
\* warp_to_shape with an explicit template shape and an affine template->source transform (order 1)
WarpTo(w) == Live /\ Do("warp", <<w.name>>, w.shape, w.S, TRUE, TRUE)
\* ... and with order 0 (nearest neighbour): the content is no longer an affine function - the exact source index of
\* every pixel is emitted; terminal operation
SrcIdx(S, sh, x) == LET p == ApplyH(S, Pt(x)) IN
                    IF ~InBox(p, sh) THEN (IF NearBox(p, sh) THEN <<-2, -2>> ELSE <<-1, -1>>)
                    ELSE IF IsHalf(p[1]) \/ IsHalf(p[2]) THEN <<-2, -2>> ELSE <<RRoundHalfEven(p[1]), RRoundHalfEven(p[2])>>
WarpOrder0(w) == /\ Live
                 /\ LET n == Warp(img, w.shape, w.S, TRUE, TRUE) IN
                    /\ img' = n
                    /\ hist' = Append(hist, Rec("warp_order0", <<w.name>>,
                          [Expect(n, w.S) EXCEPT !.valid = [i \in 1..w.shape[1] |-> [j \in 1..w.shape[2] |-> 0]]]
                             @@ [src |-> [i \in 1..w.shape[1] |-> [j \in 1..w.shape[2] |-> SrcIdx(w.S, img.shape, <<i-1, j-1>>)]],
                                 srcvalid |-> ValidSeq(img), srcA |-> img.A]))
\* ---- the derived members of the crop / rescale families, about-centre with any linear map, warp_to_mask, pyramids -------
MinOf(S) == CHOOSE v \in S : \A w \in S : RLe(v, w)
MaxOf(S) == CHOOSE v \in S : \A w \in S : RLe(w, v)
LmsMin(im, k) == MinOf({im.lms[i][k] : i \in 1..Len(im.lms)})
LmsMax(im, k) == MaxOf({im.lms[i][k] : i \in 1..Len(im.lms)})
LmsRange(im, k) == RSub(LmsMax(im, k), LmsMin(im, k))
\* exact square roots only (the scale handed to rescale must be rational for the specification to name the result)
IsSqRat(q) == RIsSq(q)
SqrtRat(q) == RSqrt(q)
\* crop_to_landmarks / crop_to_pointcloud (boundary b) and the *_proportion forms (boundary = p * min or max of the landmark range):
\* PointCloud.bounds(boundary) = (min - boundary, max + boundary), then the plain crop convention
CropAround(op, args, bd, c) ==
   LET mn == <<RSub(LmsMin(img, 1), bd), RSub(LmsMin(img, 2), bd)>>
       mx == <<RAdd(LmsMax(img, 1), bd), RAdd(LmsMax(img, 2), bd)>>
       q == CropSpec(img, mn, mx, c) IN
   /\ Live /\ q.err # "empty"
   /\ IF q.err # "none" THEN img' = img /\ hist' = Append(hist, Rec(op, args, [err |-> q.err]))
      ELSE Do(op, args, q.shape, q.S, TRUE, TRUE)
CropToLms(b, c) == CropAround("crop_lms", <<b, c>>, R(b), c)
CropToLmsProp(p, useMin, c) ==
   LET r1 == LmsRange(img, 1) r2 == LmsRange(img, 2)
       ref == IF useMin THEN RMin(r1, r2) ELSE RMax(r1, r2) IN
   CropAround("crop_lms_prop", <<p, useMin, c>>, RMul(p, ref), c)
\* crop_to_true_mask (MaskedImage): bounds of the true pixels +- b, not constrained, then the plain crop convention.
\* Only when every mask value is judged (no rounding tie / fragile border in the mask's history)
TrueIdx(im) == {x \in Grid(im.shape) : im.mask[x] = 1}
CropToTrueMask(b, c) ==
   /\ Live /\ (\A x \in Grid(img.shape) : img.mask[x] # -1) /\ TrueIdx(img) # {}
   /\ LET T == TrueIdx(img)
          lo(k) == CHOOSE v \in {x[k] : x \in T} : \A w \in {x[k] : x \in T} : v <= w
          hi(k) == CHOOSE v \in {x[k] : x \in T} : \A w \in {x[k] : x \in T} : w <= v
          mn == <<R(lo(1) - b), R(lo(2) - b)>>  mx == <<R(hi(1) + b), R(hi(2) + b)>>
          q == CropSpec(img, mn, mx, c) IN
      /\ q.err # "empty"
      /\ IF q.err # "none" THEN img' = img /\ hist' = Append(hist, Rec("crop_true_mask", <<b, c, mn, mx>>, [err |-> q.err]))
         ELSE Do("crop_true_mask", <<b, c, mn, mx>>, q.shape, q.S, TRUE, TRUE)
\* the scalar members of the rescale family: the scale is derived, then rescale's convention applies
RescaleBy(op, args, sc, m) ==
   /\ Live /\ RLt(O1, RMul(sc, R(img.shape[1]))) /\ RLt(O1, RMul(sc, R(img.shape[2])))
   /\ LET s == <<sc, sc>> sh == RescaleShape(img, s, m) IN sh[1] >= 1 /\ sh[2] >= 1 /\ sh[1] * sh[2] <= 300 /\ Do(op, args, sh, RescaleS(img, s), TRUE, FALSE)
\* a derived scale is computed in floats (norm ratios, square roots): products that are exactly integral (half-integral) before
\* rounding are decided by float noise and are not judged
FragileScale(sc, m) == \E k \in {1, 2} : LET v == RMul(sc, R(img.shape[k])) IN IF m = "round" THEN IsHalf(v) ELSE IsInt(v)
RescaleToDiag(d, m) == LET q == R(img.shape[1] * img.shape[1] + img.shape[2] * img.shape[2]) IN
                       IsSqRat(q) /\ ~FragileScale(RMul(R(d), RInv(SqrtRat(q))), m) /\ RescaleBy("rescale_diag", <<d, m>>, RMul(R(d), RInv(SqrtRat(q))), m)
RescaleToPc(k, m) == ~FragileScale(k, m) /\ RescaleBy("rescale_pc", <<k, m>>, k, m)          \* the target point cloud is k * landmarks + offset: the fitted uniform scale is k
RescaleLmsRange(dr, m) == LET q == RAdd(RSq(LmsRange(img, 1)), RSq(LmsRange(img, 2))) IN
                          /\ IsSqRat(q) /\ q # Z0 /\ ~FragileScale(RMul(R(dr), RInv(SqrtRat(q))), m)
                          /\ RescaleBy("rescale_lms_range", <<dr, m>>, RMul(R(dr), RInv(SqrtRat(q))), m)
\* pyramid: level k+1 = level k rescaled by 1/downscale (round = ceil); the Gaussian pyramid smooths first (content not judged)
Pyramid(ds) == (Pow2(ds) \/ ~FragileScale(Norm(1, ds), "ceil")) /\ RescaleBy("pyramid", <<ds>>, Norm(1, ds), "ceil")
GPyramid(ds) == /\ Live /\ (Pow2(ds) \/ ~FragileScale(Norm(1, ds), "ceil")) /\ RLt(O1, RMul(Norm(1, ds), R(img.shape[1]))) /\ RLt(O1, RMul(Norm(1, ds), R(img.shape[2])))
                /\ LET s == <<Norm(1, ds), Norm(1, ds)>> sh == RescaleShape(img, s, "ceil") n == Warp(img, sh, RescaleS(img, s), TRUE, FALSE) IN
                   /\ img' = [n EXCEPT !.valid = {}]
                   /\ hist' = Append(hist, Rec("gpyramid", <<ds>>, Expect([n EXCEPT !.valid = {}], RescaleS(img, s))))
\* transform_about_centre with any linear map (rotate_ccw_about_centre is the special case): same convention as Rotate
Abouts == [shear |-> Lin2(O1, <<1,2>>, Z0, O1), shear2 |-> Lin2(O1, Z0, <<-1,4>>, O1), nus |-> Lin2(<<3,2>>, Z0, Z0, <<3,4>>), squash |-> Lin2(<<1,2>>, <<1,4>>, Z0, O1)]
About(key, retain, m) == Live /\ LET q == AboutCentreS(img, Abouts[key], retain, m) IN
                          /\ ~q.fragile /\ q.shape[1] >= 1 /\ q.shape[2] >= 1 /\ q.shape[1] * q.shape[2] <= 300
                          /\ Do("about", <<key, retain, m>>, q.shape, q.S, FALSE, TRUE)
\* warp_to_mask: only the template's true pixels are sampled; the result is a masked image whose mask IS the template mask
\* (BooleanImage: the template with the sampled values at its true pixels); terminal
TemplateMask(name, sh) == [x \in Grid(sh) |-> CASE name = "all" -> 1 [] name = "checker" -> (IF (x[1] + x[2]) % 2 = 0 THEN 1 ELSE 0)
                                                 [] OTHER -> (IF x[1] <= x[2] THEN 1 ELSE 0)]
WarpToMask(w, tm) ==
   /\ Live
   /\ LET t == TemplateMask(tm, w.shape)
          n == Warp(img, w.shape, w.S, TRUE, TRUE)
          n2 == [n EXCEPT !.valid = {x \in n.valid : t[x] = 1}] IN
      /\ img' = n2
      /\ hist' = Append(hist, Rec("warp_mask", <<w.name, tm>>,
                  Expect(n2, w.S) @@ [tmask |-> [i \in 1..w.shape[1] |-> [j \in 1..w.shape[2] |-> t[<<i-1, j-1>>]]],
                                      bmask |-> [i \in 1..w.shape[1] |-> [j \in 1..w.shape[2] |-> IF t[<<i-1, j-1>>] = 0 THEN 0 ELSE n.mask[<<i-1, j-1>>]]]]))
\* smooth non-affine warps (piecewise affine, thin-plate spline): the map is an uninterpreted symbol, interpreted by the real
\* transform; the adapter checks content, landmarks and mask against that same map (relational clauses); terminal
WarpSym(kind) == /\ Live /\ img.shape[1] >= 4 /\ img.shape[2] >= 4
                 /\ img' = img /\ hist' = Append(hist, Rec("warp_sym", <<kind>>, [err |-> "", sym |-> kind, shape |-> img.shape, lms |-> img.lms]))
Init == img = Img0 /\ hist = <<>>
Next == \/ "rescale" \in Ops /\ \E s \in Scales, m \in Modes : Rescale(s, m)
        \/ "resize" \in Ops /\ \E sh \in {<<Shape0[1] + 1, Shape0[2] - 1>>, <<2 * Shape0[1] - 1, 2 * Shape0[2] - 1>>} : Resize(sh)
        \/ "rotate" \in Ops /\ \E r \in RotKeys, b \in BOOLEAN, m \in Modes : Rotate(r, b, m)
        \/ "mirror" \in Ops /\ \E ax \in {0,1} : Mirror(ax)
        \/ "zoom" \in Ops /\ \E z \in Zooms : Zoom(z)
        \/ "crop" \in Ops /\ \E bx \in CropBoxes, c \in BOOLEAN : Crop(bx[1], bx[2], c)
        \/ "warp" \in Ops /\ \E w \in Warps : (w.shape[1] <= img.shape[1] + 2) /\ WarpTo(w)
        \/ "warp_order0" \in Ops /\ \E w \in Order0Warps : WarpOrder0(w)
        \/ "crop_lms" \in Ops /\ \E b \in {0, 1, 3}, c \in BOOLEAN : CropToLms(b, c)
        \/ "crop_lms" \in Ops /\ \E p \in {<<1,2>>, <<1,5>>}, um \in BOOLEAN, c \in BOOLEAN : CropToLmsProp(p, um, c)
        \/ "crop_true_mask" \in Ops /\ \E b \in {0, 1}, c \in BOOLEAN : CropToTrueMask(b, c)
        \/ "rescale_derived" \in Ops /\ \E m \in Modes : \/ \E d \in {5, 15, 20} : RescaleToDiag(d, m)
                                                           \/ \E k \in {<<3,2>>, <<1,2>>, <<5,4>>} : RescaleToPc(k, m)
                                                           \/ \E dr \in {5, 4, 10} : RescaleLmsRange(dr, m)
        \/ "pyramid" \in Ops /\ \E ds \in {2, 3} : Pyramid(ds) \/ GPyramid(ds)
        \/ "about" \in Ops /\ \E k \in DOMAIN Abouts, b \in BOOLEAN, m \in Modes : About(k, b, m)
        \/ "warp_mask" \in Ops /\ \E w \in Warps \cup Order0Warps, tm \in {"all", "checker", "tri"} : (w.shape[1] <= img.shape[1] + 2) /\ WarpToMask(w, tm)
        \/ "warp_sym" \in Ops /\ \E k \in {"pwa", "tps"} : WarpSym(k)
Spec == Init /\ [][Next]_vars
\* ---- properties ------------------------------------------------------------------------------------------
\* registration: landmarks stay registered to the content they annotate:  A(lms) is constant (= original landmarks)
Registered == \A i \in 1..Len(img.lms) : ApplyH(img.A, img.lms[i]) = Img0.lms[i]
\* the content of every valid pixel is an original coordinate inside the original image
ValidInsideOriginal == \A x \in img.valid : InBox(ApplyH(img.A, Pt(x)), Shape0)
\* the mask is carried by the same mapping: a judged mask value equals the original mask at the (rounded) original index
Emit == (Len(hist) = D) => CSVWrite("%1$s", <<ToJson([shape0 |-> Shape0, lms0 |-> Img0.lms, mask0 |-> MaskSeq(Img0), hist |-> hist])>>, IOEnv.OUT_FILE)
=======================================================================
