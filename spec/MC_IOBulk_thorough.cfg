SPECIFICATION Spec
CONSTANTS
  Pool <- PoolC
  Patterns <- PatAll
  Maxes = {0, 1, 2, 5}
INVARIANT Sound
INVARIANT PrefixMonotone
