---------------------------- MODULE Blocks ----------------------------
(* Blocked (chunked) evaluation: menpo.math.linalg.dot_inplace_left / dot_inplace_right (used by pca() when d >= n; property
   C10 "both code paths") walk a big axis of length n in blocks of size b.  The blocks
       [k b, min((k + 1) b, n))   for k = 0 .. ceil(n / b) - 1
   must partition 0 .. n-1 (Partition, checked by TLC for every n and b of the scope, including b > n, b = n and n = m b + 1),
   so the blocked product IS the product.  One case per (n, b, small dimension); the adapter compares the real functions with
   a plain product on integer matrices (exact) and checks the in-place contract (result written into, and returned as a view
   of, the big operand). *)
EXTENDS Integers, Sequences, FiniteSets, TLC, Json, CSV, IOUtils
CONSTANTS MaxN, MaxB, MaxK
VARIABLES case, done
CeilDiv(a, b) == -((-a) \div b)
Min(a, b) == IF a < b THEN a ELSE b
Cover(n, b) == [k \in 1..CeilDiv(n, b) |-> <<(k - 1) * b, Min(k * b, n)>>]
Cases == {[n |-> n, b |-> b, k |-> k, small |-> s] : n \in 1..MaxN, b \in 1..MaxB, k \in 1..MaxK, s \in 1..MaxK} 
Init == case \in {c \in Cases : c.small <= c.k} /\ done = FALSE
Next == done = FALSE /\ done' = TRUE /\ case' = case
        /\ CSVWrite("%1$s", <<ToJson([case |-> case, blocks |-> Cover(case.n, case.b)])>>, IOEnv.OUT_FILE)
Spec == Init /\ [][Next]_<<case, done>>
Partition == LET C == Cover(case.n, case.b) IN
             /\ \A i \in 0..(case.n - 1) : Cardinality({k \in 1..Len(C) : C[k][1] <= i /\ i < C[k][2]}) = 1
             /\ \A k \in 1..Len(C) : C[k][1] < C[k][2] /\ C[k][2] <= case.n
=======================================================================
