---------------------------- MODULE GMRF ----------------------------
(* Exact (over Q) precision matrix of menpo.model.gmrf for one feature per vertex (C12; the batch
   side of C11).  Data: sequence of samples, each a sequence of NV small integers.  Graph: set of
   edges <<a, b>>, a < b, vertices 1..NV.  TLC enumerates EVERY graph on NV vertices x edge mode x
   bias convention; for the incremental clause also every composition of the sample sequence whose
   prefixes are all non-singular. *)
EXTENDS Rat, FiniteSets, TLC, Json, CSV, IOUtils
CONSTANTS NV, Data, Kinds, MinBatch
VARIABLES cfg, done
NS == Len(Data)
R(n) == <<n,1>>
Sx(a, n) == LET f(i) == Data[i][a] IN ISum(f, 1, n)
Sxy(a, b, n) == LET f(i) == Data[i][a] * Data[i][b] IN ISum(f, 1, n)
\* sample covariance of columns a, b over the first n samples: (n Sxy - Sx Sy) / (n (n - 1 + bias))
Cov(a, b, bias, n) == Norm(n * Sxy(a, b, n) - Sx(a, n) * Sx(b, n), n * (n - 1 + bias))
VarDiff(a, b, bias, n) == RSub(RAdd(Cov(a, a, bias, n), Cov(b, b, bias, n)), RMul(R(2), Cov(a, b, bias, n)))
Pairs == {<<a, b>> \in (1..NV) \X (1..NV) : a < b}
ZeroM == [i \in 1..NV |-> [j \in 1..NV |-> Z0]]
\* contribution of one edge: the inverse of the 2x2 covariance of (x_a, x_b) scattered on rows/columns a, b
\* (concatenation), or the inverse variance of x_a - x_b placed as [[v, -v], [-v, v]] (subtraction)
EdgeBlock(e, mode, bias, n) ==
   LET a == e[1] b == e[2] IN
   IF mode = "concatenation"
   THEN LET p == Cov(a,a,bias,n) q == Cov(a,b,bias,n) r == Cov(b,b,bias,n) det == RSub(RMul(p,r), RMul(q,q)) di == RInv(det) IN
        [i \in 1..NV |-> [j \in 1..NV |->
            IF i = a /\ j = a THEN RMul(r, di) ELSE IF i = b /\ j = b THEN RMul(p, di)
            ELSE IF (i = a /\ j = b) \/ (i = b /\ j = a) THEN RNeg(RMul(q, di)) ELSE Z0]]
   ELSE LET v == RInv(VarDiff(a, b, bias, n)) IN
        [i \in 1..NV |-> [j \in 1..NV |->
            IF (i = a /\ j = a) \/ (i = b /\ j = b) THEN v ELSE IF (i = a /\ j = b) \/ (i = b /\ j = a) THEN RNeg(v) ELSE Z0]]
MAdd(A, B) == [i \in 1..NV |-> [j \in 1..NV |-> RAdd(A[i][j], B[i][j])]]
RECURSIVE SumBlocks(_, _, _, _)
SumBlocks(E, mode, bias, n) == IF E = {} THEN ZeroM ELSE LET e == CHOOSE x \in E : TRUE IN MAdd(EdgeBlock(e, mode, bias, n), SumBlocks(E \ {e}, mode, bias, n))
Diagonal(bias, n) == [i \in 1..NV |-> [j \in 1..NV |-> IF i = j THEN RInv(Cov(i, i, bias, n)) ELSE Z0]]
Precision(E, mode, bias, n) == IF E = {} THEN Diagonal(bias, n) ELSE SumBlocks(E, mode, bias, n)
NonSingular(E, mode, bias, n) ==
   IF E = {} THEN \A v \in 1..NV : Cov(v, v, bias, n) # Z0
   ELSE \A e \in E : IF mode = "concatenation"
                      THEN RSub(RMul(Cov(e[1],e[1],bias,n), Cov(e[2],e[2],bias,n)), RMul(Cov(e[1],e[2],bias,n), Cov(e[1],e[2],bias,n))) # Z0
                      ELSE VarDiff(e[1], e[2], bias, n) # Z0
MeanV(n) == [a \in 1..NV |-> Norm(Sx(a, n), n)]
\* quadratic form (x - mean)^T Q (x - mean) for an integer query vector
Maha(Q, x, n) == LET d == [a \in 1..NV |-> RSub(R(x[a]), MeanV(n)[a])]
                     f(i) == LET g(j) == RMul(d[i], RMul(Q[i][j], d[j])) IN RSum(g, 1, NV) IN RSum(f, 1, NV)
Queries == <<[a \in 1..NV |-> a], [a \in 1..NV |-> IF a = 1 THEN 3 ELSE -1], [a \in 1..NV |-> 0]>>
RECURSIVE Comps(_)
Comps(n) == {<<n>>} \cup UNION {{<<k>> \o c : c \in Comps(n - k)} : k \in 1..(n - 1)}
RECURSIVE PrefixSum(_, _)
PrefixSum(c, k) == IF k = 0 THEN 0 ELSE c[k] + PrefixSum(c, k - 1)
GoodComp(c, E, mode, bias) == c[1] >= MinBatch /\ Len(c) >= 2 /\ \A k \in 1..Len(c) : NonSingular(E, mode, bias, PrefixSum(c, k))
BatchCfgs == [kind : {"batch"}, E : SUBSET Pairs, mode : {"concatenation", "subtraction"}, bias : {0, 1}, comp : {<<>>}]
IncrCfgs == {[kind |-> "incr", E |-> E, mode |-> m, bias |-> b, comp |-> c] : <<E, m, b, c>> \in
               {<<E, m, b, c>> \in (SUBSET Pairs) \X {"concatenation", "subtraction"} \X {0, 1} \X Comps(NS) : GoodComp(c, E, m, b)}}
Stats(E, mode, bias, n) == LET Q == Precision(E, mode, bias, n) IN
   [n |-> n, Q |-> Q, mean |-> MeanV(n), maha |-> [k \in 1..Len(Queries) |-> Maha(Q, Queries[k], n)]]
\* ---- several features per vertex: the block inverse is an uninterpreted symbol Inv (numpy interprets it on the exact
\* block covariance); the specification fixes WHICH block of WHICH edge is added WHERE
BlockRange(v, k) == [from |-> (v - 1) * k, to |-> v * k]                      \* 0-based half-open feature range of vertex v
Placement(E, k) == IF E = {} THEN [edges |-> <<>>, diagonal |-> [v \in 1..NV |-> BlockRange(v, k)]]
                   ELSE [edges |-> LET S == E IN [i \in 1..Cardinality(S) |->
                                     LET e == CHOOSE x \in S : Cardinality({y \in S : y[1] < x[1] \/ (y[1] = x[1] /\ y[2] < x[2])}) = i - 1
                                     IN [a |-> BlockRange(e[1], k), b |-> BlockRange(e[2], k)]],
                         diagonal |-> <<>>]
\* ncomp = 0: plain inverse; otherwise Inv is the pseudo-inverse restricted to the ncomp LARGEST principal directions of the block
BlockCfgs == [kind : {"blocks"}, E : SUBSET Pairs, mode : {"concatenation", "subtraction"}, bias : {0, 1}, comp : {<<>>}, ncomp : {0, 1, 2, 3, 5}]
Init == /\ cfg \in (IF "blocks" \in Kinds THEN BlockCfgs ELSE {}) \cup (IF "batch" \in Kinds THEN {c \in BatchCfgs : NonSingular(c.E, c.mode, c.bias, NS)} ELSE {}) \cup (IF "incr" \in Kinds THEN IncrCfgs ELSE {})
        /\ done = FALSE
Out(c) == IF c.kind = "blocks" THEN [case |-> c, nv |-> NV, k |-> 2, placement |-> Placement(c.E, 2)] ELSE
          IF c.kind = "batch" THEN [case |-> c, nv |-> NV, data |-> Data, queries |-> Queries, stats |-> Stats(c.E, c.mode, c.bias, NS)]
          ELSE [case |-> c, nv |-> NV, data |-> Data, queries |-> Queries,
                steps |-> [k \in 1..Len(c.comp) |-> Stats(c.E, c.mode, c.bias, PrefixSum(c.comp, k))]]
Next == /\ done = FALSE /\ done' = TRUE /\ cfg' = cfg /\ CSVWrite("%1$s", <<ToJson(Out(cfg))>>, IOEnv.OUT_FILE)
Spec == Init /\ [][Next]_<<cfg, done>>
\* ---- design-level properties of the assembled matrix -------------------------------------------------
Q0 == Precision(cfg.E, cfg.mode, cfg.bias, NS)
Symmetric == cfg.kind = "blocks" \/ \A i, j \in 1..NV : Q0[i][j] = Q0[j][i]
GraphSparse == cfg.kind = "blocks" \/ \A i, j \in 1..NV : (i < j /\ <<i, j>> \notin cfg.E) => Q0[i][j] = Z0
PSDOnPool == cfg.kind = "blocks" \/ \A k \in 1..Len(Queries) : ~RLt(Maha(Q0, Queries[k], NS), Z0)
ZeroAtMean == cfg.kind = "blocks" \/ LET d == [a \in 1..NV |-> Z0]
                  f(i) == LET g(j) == RMul(d[i], RMul(Q0[i][j], d[j])) IN RSum(g, 1, NV) IN RSum(f, 1, NV) = Z0
=====================================================================
