SPECIFICATION Spec
CONSTANTS
  Src <- SrcC
  Targets <- TargetsC
  Configs <- AllConfigs
  D = 1
  MaxAls = 2
  EditVals = {2, 3, 6}
  PairAll = FALSE
  WithPerturb = FALSE
  WithPinv = FALSE
INVARIANT HistoryIndependent
INVARIANT AfterSetTargetInSync
INVARIANT Optimal
INVARIANT ProperUnlessMirror
INVARIANT Orthogonal
INVARIANT SizeExact
INVARIANT Emit
INVARIANT EmitInit
PROPERTY BadTargetRejected
PROPERTY CopiesIndependent
