SPECIFICATION Spec
CONSTANTS
  Design = "fixed"
  D = 1000000
  Batches = {0, 2}
VIEW NoHist
INVARIANT Pure
ACTION_CONSTRAINT EmitTrans
