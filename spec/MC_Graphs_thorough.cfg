SPECIFICATION Spec
CONSTANTS
  NU = 5
  ND = 4
  NT = 5
  Kinds = {"ug", "dg", "tree", "grid"}
INVARIANT ReachConsistent
INVARIANT TreeIffUnique
INVARIANT TreeDepthIsDistance
INVARIANT PrimIsMST
INVARIANT GridIsLattice
INVARIANT PredefShapes
