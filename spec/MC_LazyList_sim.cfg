SPECIFICATION Spec
CONSTANTS
  InitLens <- TInit
  Ctors <- Both
  MaxLists = 9
  D = 8
  SStarts <- TStarts
  SStops <- TStops
  SSteps <- TSteps
  IdxPool <- TIdx
  RepPool <- TRep
  FancyPool <- TFancy
  PlainPool <- TPlain
  WithIter = TRUE
INVARIANT Faithful
INVARIANT Emit
PROPERTY LazyProp
PROPERTY ExactDeps
PROPERTY Immutable
PROPERTY FailuresPure
