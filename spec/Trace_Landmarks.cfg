SPECIFICATION TSpec
CONSTANTS
  Names = {"n1", "n2", "n3", "n4", "n5"}
  Dims = {2, 3}
  D = 100000
  MaxObjs = 100000
  MaxMgrs = 100000
  OwnerDim = 2
INVARIANT NoCrossSharing
INVARIANT OneDim
INVARIANT UniqueNames
PROPERTY FreshOnStore
PROPERTY OnlyViaGet
PROPERTY OrderKept
POSTCONDITION Report
