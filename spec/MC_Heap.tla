---------------------------- MODULE MC_Heap ----------------------------
EXTENDS Heap
B == [k |-> "buf"]  OL == [k |-> "objleaf"]  IMM == [k |-> "imm"]
DictOf(s) == [k |-> "dict", d |-> s]
ListOf(s) == [k |-> "list", d |-> s]
SchemaC == [ PointCloud |-> [fields |-> <<B, OL>>, deepen |-> {}, share |-> {}],                     \* points, _landmarks (manager as leaf here)
             LandmarkManager |-> [fields |-> <<DictOf(<<OL, OL>>)>>, deepen |-> {1}, share |-> {}],   \* _landmark_groups
             LabelledGraph |-> [fields |-> <<B, B, DictOf(<<B, B>>)>>, deepen |-> {3}, share |-> {}], \* points, adjacency, _labels_to_masks
             AlignmentSimilarity |-> [fields |-> <<B, OL, OL, IMM>>, deepen |-> {}, share |-> {2, 3}], \* _h_matrix, _source, _target, allow_mirror
             TransformChain |-> [fields |-> <<ListOf(<<OL, OL>>)>>, deepen |-> {}, share |-> {1}],      \* transforms (members shared by design)
             LazyList |-> [fields |-> <<ListOf(<<IMM, IMM>>)>>, deepen |-> {}, share |-> {}],
             MaskedImage |-> [fields |-> <<B, OL, OL>>, deepen |-> {}, share |-> {}] ]                 \* pixels, mask, _landmarks
=======================================================================
