SPECIFICATION Spec
CONSTANTS
  Spectrum <- SpecA
  Fracs <- FracsA
  D = 4
INVARIANT OrigConstant
INVARIANT Accounting
INVARIANT Consistent
INVARIANT TrimIsBuild
INVARIANT TieFree
INVARIANT Emit
