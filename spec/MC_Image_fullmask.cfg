SPECIFICATION Spec
CONSTANTS
  Shape0 <- Sh0
  D = 1
  Scales <- ScalesQ
  RotKeys = {"r90", "p345", "p345n"}
  Modes = {"round"}
  CropBoxes <- BoxesQ
  Zooms <- ZoomsQ
  Warps <- WarpsQ
  Order0Warps <- Order0Q
  Ops <- FullMaskOps
INVARIANT Registered
INVARIANT ValidInsideOriginal
INVARIANT Emit
