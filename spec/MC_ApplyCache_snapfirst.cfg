SPECIFICATION Spec
CONSTANTS
  Design = "snapfirst"
  D = 4
  Batches = {0, 2}
INVARIANT Pure
