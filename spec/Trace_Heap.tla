---------------------------- MODULE Trace_Heap ----------------------------
(* Code -> spec for the copy clause of C06.  Each recorded event describes one `copy()` of a real
   menpo object:  [cls, family, equal, shared, leaks]
     family : which schema of Heap.tla the class instantiates ("plain" = no field may be shared)
     equal  : the copy's complete observable state equals the original's
     shared : top-level attributes through which original and copy reach a common buffer
     leaks  : top-level attributes through which a write into one side became visible in the other
   An event is a CopyTop step of the Heap model iff the copy is equal and everything shared / leaking
   lies in the fields the schema declares shared by design. *)
EXTENDS Integers, Sequences, FiniteSets, TLC, Json, IOUtils
Events == JsonDeserialize(IOEnv.TRACE_FILE)
VARIABLES i, rej
\* shared-by-design attributes per family (alignment end points, chain members, lazy-list callables,
\* model templates are NOT shared: nothing listed for them)
ByDesign(f) == CASE f = "homog_alignment" -> {"_source", "_target"}
                 [] f = "chain" -> {"transforms"}
                 [] f = "lazylist" -> {"_callables"}
                 [] OTHER -> {}
ToSet(s) == {s[k] : k \in 1..Len(s)}
EventOK(e) == e.equal /\ ToSet(e.shared) \subseteq ByDesign(e.family) /\ ToSet(e.leaks) \subseteq ByDesign(e.family)
\* events are independent: every one is examined, the rejected ones are collected
Init == i = 1 /\ rej = {} /\ TLCSet(1, {})
Next == /\ i <= Len(Events) /\ i' = i + 1
        /\ rej' = IF EventOK(Events[i]) THEN rej ELSE rej \cup {i}
        /\ TLCSet(1, rej')
Spec == Init /\ [][Next]_<<i, rej>>
Report == IF TLCGet(1) = {} THEN TRUE
          ELSE PrintT(<<"REJECTED", {<<k, 0>> : k \in TLCGet(1)}>>) /\ FALSE
=============================================================================
