---------------------------- MODULE PySlice ----------------------------
(* CPython slice normalisation (PySlice_AdjustIndices / slice.indices(n)).  NoneV is the integer
   sentinel for Python's None (TLC sets cannot mix integers and strings). *)
EXTENDS Integers, Sequences
NoneV == 1000
Step(st) == IF st = NoneV THEN 1 ELSE st
StartIdx(s, st, n) ==
  LET k == Step(st) IN
  IF s = NoneV THEN (IF k > 0 THEN 0 ELSE n - 1)
  ELSE IF s < 0 THEN (IF s + n < 0 THEN (IF k > 0 THEN 0 ELSE -1) ELSE s + n)
  ELSE IF s >= n THEN (IF k > 0 THEN n ELSE n - 1) ELSE s
StopIdx(e, st, n) ==
  LET k == Step(st) IN
  IF e = NoneV THEN (IF k > 0 THEN n ELSE -1)
  ELSE IF e < 0 THEN (IF e + n < 0 THEN (IF k > 0 THEN 0 ELSE -1) ELSE e + n)
  ELSE IF e >= n THEN (IF k > 0 THEN n ELSE n - 1) ELSE e
SliceLen(s, e, st, n) ==
  LET k == Step(st) a == StartIdx(s, st, n) b == StopIdx(e, st, n) IN
  IF k > 0 THEN (IF a < b THEN (b - a - 1) \div k + 1 ELSE 0)
  ELSE (IF b < a THEN (a - b - 1) \div (-k) + 1 ELSE 0)
\* 0-based source indices selected by the slice, in order
SliceIdx(s, e, st, n) == [i \in 1..SliceLen(s, e, st, n) |-> StartIdx(s, st, n) + (i - 1) * Step(st)]
=======================================================================
