SPECIFICATION Spec
CONSTANTS
  DataSets <- DS
  Kinds = {"batch", "incr"}
  MaxChunks = 6
INVARIANT SumsGiveBatch
INVARIANT Additive
INVARIANT Symmetric
INVARIANT NonNegDiag
