---------------------------- MODULE Trace_Compose ----------------------------
(* Code -> spec for C03 / C04: every composition, in-place composition and pseudoinverse performed by
   the REPOSITORY'S OWN TEST-SUITE (recorded from outside by harness/pytest_comprec.py) must be a step
   of Transforms.tla.  The recorded operands carry arbitrary float parameters, so the trace binds the
   value-independent part of the specification exactly - the class-dispatch ladder, the in-place
   acceptance table, chain membership by object identity, the class of inverses - by taking the
   specification's own actions on objects whose matrix is a placeholder, and binds the value part
   through clause flags the recorder evaluates on the real operands (law: the map is the composition
   / a two-sided inverse on sample points; honest: the matrix lies in the subgroup the reported class
   names; intact: operands of a pure call / the argument of an in-place call are unchanged).
   "intro" introduces an object the tests built directly; "sync" is the unloggable step (test code
   editing a chain's member list directly), bounded by one per operand per logged event. *)
EXTENDS Transforms
CONSTANT Judge                       \* subset of {"compose", "pinv"}: which events' clauses are judged
Traces == JsonDeserialize(IOEnv.TRACE_FILE)
VARIABLES tid, ln
tvars == <<vars, tid, ln>>
Ev == Traces[tid].events[ln]
I3 == IdM(3)
NewObjOf(e) == IF e.cls = "Chain" THEN ChainObj(e.members) ELSE Obj(e.cls, e.al, I3)
TInit == /\ tid \in 1..Len(Traces) /\ ln = 1 /\ tr = <<>> /\ hist = <<>> /\ TLCSet(tid, 0)
Act == CASE Ev.op = "intro" -> tr' = Append(tr, NewObjOf(Ev)) /\ hist' = hist
         [] Ev.op = "sync" -> tr' = [tr EXCEPT ![Ev.a].members = Ev.members] /\ hist' = hist
         [] Ev.op \in {"before", "after"} -> Compose(Ev.a, Ev.b, Ev.op)
         [] Ev.op = "before_inplace" -> ComposeInplace(Ev.a, Ev.b, "before")
         [] Ev.op = "after_inplace" -> ComposeInplace(Ev.a, Ev.b, "after")
         [] Ev.op = "pinv" -> Pinv(Ev.a)
Kind(e) == IF e.op = "pinv" THEN "pinv" ELSE "compose"
Judged(e) == e.op \notin {"intro", "sync"} /\ Kind(e) \in Judge
\* the clauses that fail for event e given the specification's successor state t2 and record r
Failed(e, t2, r) ==
   IF ~Judged(e) THEN {}
   ELSE {c \in {"outcome", "class", "alignment_kept", "members", "law", "honest", "intact"} :
          CASE c = "outcome" -> r.err # e.err
            [] c = "class" -> e.err = "" /\ r.err = "" /\ (IF r.res = 0 THEN t2[e.a].cls # e.cls ELSE r.cls # e.cls)
            [] c = "alignment_kept" -> e.err = "" /\ r.err = "" /\ (IF r.res = 0 THEN t2[e.a].al # e.al ELSE r.al # e.al)
            [] c = "members" -> e.err = "" /\ r.err = "" /\ (IF r.res = 0 THEN t2[e.a].members # e.members ELSE r.members # e.members)
            [] c = "law" -> ~e.law [] c = "honest" -> ~e.honest [] OTHER -> ~e.intact}
TStep == /\ ln <= Len(Traces[tid].events)
         /\ Act
         /\ LET f == IF Ev.op \in {"intro", "sync"} THEN {} ELSE Failed(Ev, tr', hist'[Len(hist')])
            IN IF f = {} THEN TRUE ELSE PrintT(<<"CLAUSES", tid, ln, f>>) /\ FALSE
         /\ ln' = ln + 1 /\ tid' = tid
         /\ TLCSet(tid, ln)
TSpec == TInit /\ [][TStep]_tvars
\* the design theorem of the ladder, evaluated on every recorded composition as well
LadderIsFCAT == (hist # <<>> /\ IsCompose(Last) /\ Native(tr[Last.a]) /\ Native(tr[Last.b])) => tr[Last.res].cls = FCA(tr[Last.a].cls, tr[Last.b].cls)
Report == IF \A t \in 1..Len(Traces) : TLCGet(t) = Len(Traces[t].events) THEN TRUE
          ELSE PrintT(<<"REJECTED", {<<t, TLCGet(t)>> : t \in {u \in 1..Len(Traces) : TLCGet(u) # Len(Traces[u].events)}}>>) /\ FALSE
=============================================================================
