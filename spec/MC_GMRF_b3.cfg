SPECIFICATION Spec
CONSTANTS
  NV = 3
  Data <- Data3
  Kinds = {"batch"}
  MinBatch = 3
INVARIANT Symmetric
INVARIANT GraphSparse
INVARIANT PSDOnPool
INVARIANT ZeroAtMean
