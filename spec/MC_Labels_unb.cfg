SPECIFICATION Spec
CONSTANTS
  Inits <- InitsTiny
  D = 1000000
  Unknown = "nope"
VIEW NoHist
INVARIANT Coverage
INVARIANT WellFormed
INVARIANT OrderKept
PROPERTY LabelOrderKept
PROPERTY FailuresPure
ACTION_CONSTRAINT EmitTrans
