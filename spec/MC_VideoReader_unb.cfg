SPECIFICATION Spec
CONSTANTS
  N = 7
  D = 1000000
VIEW NoHist
INVARIANT PosIsLast
PROPERTY Faithful
ACTION_CONSTRAINT EmitTrans
