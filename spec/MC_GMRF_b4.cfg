SPECIFICATION Spec
CONSTANTS
  NV = 4
  Data <- Data4
  Kinds = {"batch"}
  MinBatch = 3
INVARIANT Symmetric
INVARIANT GraphSparse
INVARIANT PSDOnPool
INVARIANT ZeroAtMean
