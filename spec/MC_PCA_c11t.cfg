SPECIFICATION Spec
CONSTANTS
  DataSets <- DS
  Kinds = {"incr"}
  MaxChunks = 7
INVARIANT SumsGiveBatch
INVARIANT Additive
INVARIANT Symmetric
INVARIANT NonNegDiag
