---------------------------- MODULE MC_Trace_Compose ----------------------------
EXTENDS Trace_Compose
NoPool == <<>>
NoPts == <<>>
AllOpsT == {"before","after","before_inplace","after_inplace","pinv"}
JCompose == {"compose"}
JPinv == {"pinv"}
=============================================================================
