---------------------------- MODULE IOBulk ----------------------------
(* The lazy lists built by menpo.io's bulk importers (import_images / import_landmark_files / import_pickles; anchor
   menpo/io/input/base.py of property C19): for a directory holding any subset of a pool of files, a glob pattern and an
   optional maximum, the importer returns a lazy list whose LENGTH and whose i-th ELEMENT are those of the ordinary list
       [import(p) : p in sorted(matching paths with a known extension)][:max]
   - nothing is read when the list is built, reading element i imports exactly file i - and an imported image carries the
   landmark files that share its directory and stem (one group per landmark file, named after its extension).
   Files are records [dir, stem, ext, rank]; rank is the position of the path in Python's sorted() order of the whole pool
   (strings are not ordered in TLA+; the adapter checks the ranks against the real sort before anything else).
   One-shot case specification: every case is an initial state. *)
EXTENDS Integers, Sequences, FiniteSets, TLC, Json, CSV, IOUtils
CONSTANTS Pool,       \* set of file records
          Patterns,   \* subset of {"*", "*.png", "a.*", "sub/*", "**/*", "dir"}
          Maxes       \* 0 = None
VARIABLES case, done
ImageExts == {"png", "bmp"}
LmExts == {"pts", "ljson"}
PickleExts == {"pkl", "pkl.gz"}
ExtsOf(kind) == CASE kind = "images" -> ImageExts [] kind = "landmarks" -> LmExts [] OTHER -> PickleExts
Matches(pat, f) == CASE pat = "*" -> f.dir = "" [] pat = "dir" -> f.dir = ""
                     [] pat = "*.png" -> f.dir = "" /\ f.ext = "png"
                     [] pat = "a.*" -> f.dir = "" /\ f.stem = "a"
                     [] pat = "sub/*" -> f.dir = "sub"
                     [] OTHER -> TRUE                                  \* "**/*": this directory and everything below
\* the files of S in path order
RECURSIVE Sorted(_)
Sorted(S) == IF S = {} THEN <<>> ELSE LET m == CHOOSE f \in S : \A g \in S : f.rank <= g.rank IN <<m>> \o Sorted(S \ {m})
Prefix(s, k) == IF k = 0 \/ k >= Len(s) THEN s ELSE SubSeq(s, 1, k)
Name(f) == IF f.dir = "" THEN f.stem \o "." \o f.ext ELSE f.dir \o "/" \o f.stem \o "." \o f.ext
\* landmark files attached to an imported image: same directory, same stem, in path order; group name = upper-case extension
GroupOf(f) == IF f.ext = "pts" THEN "PTS" ELSE "LJSON"
LmsOf(F, f) == LET L == Sorted({g \in F : g.ext \in LmExts /\ g.dir = f.dir /\ g.stem = f.stem}) IN [i \in 1..Len(L) |-> GroupOf(L[i])]
Result(c) == LET hits == Sorted({f \in c.files : Matches(c.pattern, f) /\ f.ext \in ExtsOf(c.kind)})
                 kept == Prefix(hits, c.max) IN
             IF kept = <<>> THEN [err |-> "ValueError", names |-> <<>>, lms |-> <<>>]
             ELSE [err |-> "", names |-> [i \in 1..Len(kept) |-> Name(kept[i])],
                   lms |-> [i \in 1..Len(kept) |-> IF c.kind = "images" THEN LmsOf(c.files, kept[i]) ELSE <<>>]]
Cases == {[files |-> F, kind |-> k, pattern |-> p, max |-> m] : F \in (SUBSET Pool) \ {{}}, k \in {"images", "landmarks", "pickles"}, p \in Patterns, m \in Maxes}
Out(c) == [case |-> [files |-> {Name(f) : f \in c.files}, kind |-> c.kind, pattern |-> c.pattern, max |-> c.max], res |-> Result(c)]
Init == case \in Cases /\ done = FALSE
Next == done = FALSE /\ done' = TRUE /\ case' = case /\ CSVWrite("%1$s", <<ToJson(Out(case))>>, IOEnv.OUT_FILE)
Spec == Init /\ [][Next]_<<case, done>>
\* ---- laws on the model --------------------------------------------------------------------------------------
\* the list never exceeds the maximum, lists files of the right kind only, each once, in path order
Sound == LET r == Result(case) IN
         /\ (case.max > 0 => Len(r.names) <= case.max)
         /\ \A i, j \in 1..Len(r.names) : i # j => r.names[i] # r.names[j]
         /\ Len(r.lms) = Len(r.names)
\* raising the maximum only appends: the list for a smaller maximum is a prefix of the list for a larger one
PrefixMonotone == \A m \in Maxes : (m > 0 /\ (case.max = 0 \/ m <= case.max)) =>
                     LET small == Result([case EXCEPT !.max = m]) big == Result(case) IN
                     big.err = "" => (small.err = "" /\ \A i \in 1..Len(small.names) : small.names[i] = big.names[i])
=======================================================================
