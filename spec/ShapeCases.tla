---------------------------- MODULE ShapeCases ----------------------------
(* Shapes of menpo as abstract values, and the one-shot cases of
     C02  apply(transform, shape): points and every landmark group moved by the same map,
          structure untouched, inputs untouched
     C05  as_vector / from_vector of shapes: complete state round trip, wrong lengths
     C17  mesh masking (vertex / triangle masks) and mesh geometry (areas, edge lengths, normals)
   A shape is  [cls, pts, tris, edges, labels, root, colours, tcoords, lms]  where the structure
   fields that a class does not have are empty.  Indices are 0-based as in the library. *)
EXTENDS Mat, TLC, Json, CSV, IOUtils
CONSTANTS Kinds, Dims, LmCfgs, Wide
VARIABLES case, done
R(n) == <<n,1>>
Q(a,b) == Norm(a,b)
Classes == <<"PointCloud", "TriMesh", "ColouredTriMesh", "TexturedTriMesh", "PointUndirectedGraph",
             "PointDirectedGraph", "PointTree", "LabelledPointUndirectedGraph">>
\* ---- point pools (inside the domain of the pooled piecewise-affine warp; general position) ----
Pts2 == << <<R(1),R(1)>>, <<R(3),R(1)>>, <<R(2),R(2)>>, <<R(1),R(3)>>, <<R(3),Q(5,2)>> >>
Pts3 == << <<R(1),R(1),R(0)>>, <<R(3),R(1),R(1)>>, <<R(2),R(2),R(3)>>, <<R(1),R(3),R(-1)>>, <<R(3),Q(5,2),R(2)>> >>
LmPtsA2 == << <<R(1),R(2)>>, <<R(2),R(1)>>, <<R(3),R(3)>>, <<Q(3,2),Q(3,2)>> >>
LmPtsB2 == << <<R(2),R(3)>>, <<Q(5,2),R(1)>>, <<R(1),Q(3,2)>>, <<R(3),R(2)>> >>
LmPtsA3 == << <<R(1),R(2),R(1)>>, <<R(2),R(1),R(-2)>>, <<R(3),R(3),R(0)>>, <<Q(3,2),Q(3,2),R(1)>> >>
LmPtsB3 == << <<R(2),R(3),R(2)>>, <<Q(5,2),R(1),R(0)>>, <<R(1),Q(3,2),R(1)>>, <<R(3),R(2),R(-1)>> >>
\* ---- structure templates (by number of points n = 4 or 5) --------------------------------------
TrisOf(n) == IF n = 5 THEN <<<<0,1,2>>, <<0,2,3>>, <<1,4,2>>>> ELSE <<<<0,1,2>>, <<0,2,3>>>>
UEdgesOf(n) == IF n = 5 THEN <<<<0,1>>, <<1,2>>, <<2,3>>, <<0,3>>, <<2,4>>>> ELSE <<<<0,1>>, <<1,2>>, <<0,3>>>>
DEdgesOf(n) == IF n = 5 THEN <<<<0,1>>, <<1,2>>, <<3,2>>, <<2,4>>, <<4,0>>>> ELSE <<<<0,1>>, <<2,1>>, <<3,0>>>>
TreeEdgesOf(n) == IF n = 5 THEN <<<<2,0>>, <<2,1>>, <<1,3>>, <<1,4>>>> ELSE <<<<2,0>>, <<2,1>>, <<1,3>>>>   \* root 2
LabelsOf(n) == IF n = 5 THEN << <<"left", <<TRUE,FALSE,TRUE,TRUE,FALSE>>>>, <<"zz_right", <<FALSE,TRUE,TRUE,FALSE,TRUE>>>>, <<"all", <<TRUE,TRUE,TRUE,TRUE,TRUE>>>> >>
               ELSE << <<"b", <<TRUE,TRUE,FALSE,FALSE>>>>, <<"a", <<FALSE,TRUE,TRUE,TRUE>>>> >>
ColoursOf(n) == [i \in 1..n |-> <<Q(i,8), Q(n-i,8), Q(1,2)>>]
TcoordsOf(n) == [i \in 1..n |-> <<Q(i,8), Q(2*i-1,16)>>]
Bare(cls, pts) ==
   LET n == Len(pts) IN
   [cls |-> cls, pts |-> pts, empty |-> (n = 0),
    tris |-> IF cls \in {"TriMesh", "ColouredTriMesh", "TexturedTriMesh"} THEN TrisOf(n) ELSE <<>>,
    edges |-> CASE cls \in {"PointUndirectedGraph", "LabelledPointUndirectedGraph"} -> UEdgesOf(n)
                [] cls = "PointDirectedGraph" -> DEdgesOf(n) [] cls = "PointTree" -> TreeEdgesOf(n) [] OTHER -> <<>>,
    labels |-> IF cls = "LabelledPointUndirectedGraph" THEN LabelsOf(n) ELSE <<>>,
    root |-> IF cls = "PointTree" THEN 2 ELSE -1,
    colours |-> IF cls = "ColouredTriMesh" THEN ColoursOf(n) ELSE <<>>,
    tcoords |-> IF cls = "TexturedTriMesh" THEN TcoordsOf(n) ELSE <<>>,
    lms |-> <<>>]
PtsOf(d) == IF d = 2 THEN Pts2 ELSE Pts3
LmA(d) == IF d = 2 THEN LmPtsA2 ELSE LmPtsA3
LmB(d) == IF d = 2 THEN LmPtsB2 ELSE LmPtsB3
\* landmark configurations: 0 = none, 1..8 = one group of class k, 9 = two groups, 10 = a group that itself carries landmarks, 11 = below
LmsOf(cfg, d) ==
   IF cfg = 0 THEN <<>>
   ELSE IF cfg \in 1..8 THEN << <<"grp", Bare(Classes[cfg], LmA(d))>> >>
   ELSE IF cfg = 9 THEN << <<"zeta", Bare("PointCloud", LmA(d))>>, <<"alpha", Bare("PointUndirectedGraph", LmB(d))>> >>
   \* 11 = a group WITHOUT points listed first (legal: annotations not made yet), then an ordinary one
   ELSE IF cfg = 11 THEN << <<"unannotated", Bare("PointCloud", <<>>)>>, <<"zeta", Bare("PointCloud", LmA(d))>> >>
   \* 12 = nothing but a group without points (still a group: it has a name and a dimensionality that follows the owner's)
   ELSE IF cfg = 12 THEN << <<"none_visible", Bare("PointCloud", <<>>)>> >>
   ELSE << <<"nested", [Bare("TriMesh", LmA(d)) EXCEPT !.lms = << <<"inner", Bare("PointCloud", LmB(d))>> >>]>> >>
ShapeOf(cls, d, cfg) == [Bare(cls, PtsOf(d)) EXCEPT !.lms = LmsOf(cfg, d)]
\* ---- transforms used by `apply` ------------------------------------------------------------------
T2 == [ homog |-> H3(R(1),R(2),R(0), R(0),R(1),R(1), Q(1,10),R(0),R(1)),
        affine |-> M3(R(2),R(1),R(3), R(-1),R(3),R(0)),
        similarity |-> M3(Q(6,5),Q(-8,5),R(1), Q(8,5),Q(6,5),R(-2)),
        rotation |-> Rot2(Q(3,5),Q(4,5)),
        translation |-> Tr2(R(2),R(-3)),
        uscale |-> Sc2(Q(1,2),Q(1,2)),
        nuscale |-> Sc2(R(2),Q(1,2)) ]
T3 == [ homog |-> << <<R(1),R(2),R(0),R(1)>>, <<R(0),R(1),R(1),R(0)>>, <<R(1),R(0),R(2),R(-1)>>, <<Q(1,10),R(0),R(0),R(1)>> >>,
        affine |-> M4(<<<<R(1),R(2),R(0)>>,<<R(0),R(1),R(1)>>,<<R(1),R(0),R(2)>>>>, <<R(1),R(-2),R(3)>>),
        similarity |-> M4(MScale(R(2), Lin(RotZ(Q(3,5),Q(4,5)))), <<R(1),R(0),R(-1)>>),
        rotation |-> RotX(Q(3,5),Q(4,5)),
        translation |-> Tr3(<<R(2),R(-3),R(1)>>),
        uscale |-> Sc3(<<Q(1,2),Q(1,2),Q(1,2)>>),
        nuscale |-> Sc3(<<R(2),Q(1,2),R(3)>>) ]
ClsOfKey(k) == CASE k = "homog" -> "Homogeneous" [] k = "affine" -> "Affine" [] k = "similarity" -> "Similarity" [] k = "rotation" -> "Rotation"
                 [] k = "translation" -> "Translation" [] k = "uscale" -> "UniformScale" [] OTHER -> "NonUniformScale"
AlignKeys == {"affine", "similarity", "rotation", "translation", "uscale"}
\* a transform descriptor: [kind, cls, al, M, M2, dims]
TD(kind, cls, al, M, M2, dims) == [kind |-> kind, cls |-> cls, al |-> al, M |-> M, M2 |-> M2, dims |-> dims]
TransformsFor(d) ==
   LET T == IF d = 2 THEN T2 ELSE T3 IN
   {TD("homog", ClsOfKey(k), FALSE, T[k], <<>>, <<>>) : k \in DOMAIN T}
   \cup {TD("homog", ClsOfKey(k), TRUE, T[k], <<>>, <<>>) : k \in AlignKeys}
   \cup {TD("chain", "Chain", FALSE, T["rotation"], T["affine"], <<>>), TD("chain", "Chain", FALSE, T["homog"], T["translation"], <<>>)}
   \* a plain Homogeneous may change the dimension: (d_out + 1) x (d_in + 1) matrices (a projection 3-D -> 2-D, an embedding 2-D -> 3-D)
   \cup (IF d = 3 THEN {TD("rect", "Homogeneous", FALSE, << <<R(1),R(0),Q(1,2),R(1)>>, <<R(0),R(2),R(-1),R(0)>>, <<R(0),R(0),R(0),R(1)>> >>, <<>>, <<>>),
                        TD("rect", "Homogeneous", FALSE, << <<R(1),R(1),R(0),R(0)>>, <<R(0),R(1),R(2),R(-1)>>, <<Q(1,10),R(0),R(0),R(1)>> >>, <<>>, <<>>)}
         ELSE {TD("rect", "Homogeneous", FALSE, << <<R(1),R(0),R(0)>>, <<R(0),R(1),R(1)>>, <<R(1),R(1),R(2)>>, <<R(0),R(0),R(1)>> >>, <<>>, <<>>)})
   \* dimension slicing: the kept dimensions as an index list, as a boolean mask (increasing lists only), as a slice (contiguous lists only)
   \cup (IF d = 3 THEN {TD("withdims", "WithDims", FALSE, <<>>, <<>>, <<0, 2>>), TD("withdims", "WithDims", FALSE, <<>>, <<>>, <<2, 1>>),
                        TD("withdims_mask", "WithDims", FALSE, <<>>, <<>>, <<0, 2>>), TD("withdims_mask", "WithDims", FALSE, <<>>, <<>>, <<1, 2>>),
                        TD("withdims_slice", "WithDims", FALSE, <<>>, <<>>, <<0, 1>>), TD("withdims_slice", "WithDims", FALSE, <<>>, <<>>, <<1, 2>>)}
         ELSE {TD("pwa", "PiecewiseAffine", FALSE, <<>>, <<>>, <<>>), TD("tps", "ThinPlateSplines", FALSE, <<>>, <<>>, <<>>)})
\* exact image of a point sequence; "none" (empty) when the map is an uninterpreted symbol (tps) or specified in Warps.tla (pwa)
ApplyRect(M, pp) == LET nr == Len(M) nc == Len(M[1])
                        hp == [k \in 1..nc |-> IF k < nc THEN pp[k] ELSE O1]
                        row(i) == LET t(k) == RMul(M[i][k], hp[k]) IN RSum(t, 1, nc) IN
                    [i \in 1..(nr - 1) |-> RMul(row(i), RInv(row(nr)))]
MapPts(t, P) == CASE t.kind = "homog" -> ApplyPts(t.M, P)
                  [] t.kind = "rect" -> [i \in 1..Len(P) |-> ApplyRect(t.M, P[i])]
                  [] t.kind \in {"withdims_mask", "withdims_slice"} -> [i \in 1..Len(P) |-> [k \in 1..Len(t.dims) |-> P[i][t.dims[k] + 1]]]
                  [] t.kind = "chain" -> ApplyPts(t.M2, ApplyPts(t.M, P))
                  [] t.kind = "withdims" -> [i \in 1..Len(P) |-> [k \in 1..Len(t.dims) |-> P[i][t.dims[k] + 1]]]
                  [] OTHER -> <<>>
RECURSIVE MapShape(_, _)
MapShape(t, s) == [s EXCEPT !.pts = MapPts(t, s.pts),
                            !.lms = [i \in 1..Len(s.lms) |-> <<s.lms[i][1], MapShape(t, s.lms[i][2])>>]]
\* ---- vectors for from_vector -----------------------------------------------------------------------
RECURSIVE Flat(_)
Flat(P) == IF P = <<>> THEN <<>> ELSE Head(P) \o Flat(Tail(P))
Unflat(v, d) == [i \in 1..(Len(v) \div d) |-> [k \in 1..d |-> v[(i-1)*d + k]]]
OtherVec(d) == Flat(IF d = 2 THEN << <<R(0),R(1)>>, <<R(2),Q(1,2)>>, <<R(-1),R(3)>>, <<R(4),R(4)>>, <<Q(7,2),R(0)>> >>
                    ELSE << <<R(0),R(1),R(2)>>, <<R(2),Q(1,2),R(0)>>, <<R(-1),R(3),R(1)>>, <<R(4),R(4),R(4)>>, <<Q(7,2),R(0),R(-1)>> >>)
\* ---- meshes for C17 -------------------------------------------------------------------------------
Grid22 == [pts |-> << <<R(0),R(0)>>, <<R(0),R(2)>>, <<R(3),R(0)>>, <<R(3),R(2)>> >>, tris |-> <<<<0,2,3>>, <<0,3,1>>>>]
Grid23 == [pts |-> << <<R(0),R(0)>>, <<R(0),R(1)>>, <<R(0),R(3)>>, <<R(2),R(0)>>, <<R(2),R(1)>>, <<R(2),R(3)>> >>,
           tris |-> <<<<0,3,4>>, <<0,4,1>>, <<1,4,5>>, <<1,5,2>>>>]
Fan == [pts |-> << <<R(0),R(0)>>, <<R(4),R(0)>>, <<R(4),R(3)>>, <<R(0),R(4)>>, <<R(2),R(2)>> >>, tris |-> <<<<0,1,4>>, <<1,2,4>>, <<2,3,4>>, <<3,0,4>>>>]
Islands == [pts |-> << <<R(0),R(0)>>, <<R(1),R(0)>>, <<R(0),R(1)>>, <<R(3),R(3)>>, <<R(5),R(3)>>, <<R(3),R(4)>> >>, tris |-> <<<<0,1,2>>, <<3,4,5>>>>]
Fin == [pts |-> << <<R(0),R(0),R(0)>>, <<R(2),R(0),R(0)>>, <<R(1),R(2),R(0)>>, <<R(1),R(-2),R(0)>>, <<R(1),R(0),R(2)>> >>, tris |-> <<<<0,1,2>>, <<1,0,3>>, <<0,1,4>>>>]   \* edge 0-1 shared by three triangles
Tetra == [pts |-> << <<R(0),R(0),R(0)>>, <<R(2),R(0),R(0)>>, <<R(0),R(3),R(0)>>, <<R(0),R(0),R(1)>> >>, tris |-> <<<<0,2,1>>, <<0,1,3>>, <<1,2,3>>, <<0,3,2>>>>]   \* closed
TetraFin == [pts |-> Tetra.pts \o << <<R(1),R(-1),R(-2)>> >>, tris |-> Tetra.tris \o << <<0,1,4>> >>]   \* closed tetrahedron + a fin on edge 0-1 (three owners)
TwinFan == [pts |-> Fan.pts, tris |-> Fan.tris \o << <<0,1,4>> >>]                                     \* a triangle listed twice
Grid3D == [pts |-> << <<R(0),R(0),R(1)>>, <<R(0),R(2),R(0)>>, <<R(3),R(0),R(2)>>, <<R(3),R(2),R(-1)>> >>, tris |-> <<<<0,2,3>>, <<0,3,1>>>>]
Grid33 == [pts |-> << <<R(0),R(0)>>, <<R(0),R(1)>>, <<R(0),R(3)>>, <<R(2),R(0)>>, <<R(2),R(1)>>, <<R(2),R(3)>>, <<R(5),R(0)>>, <<R(5),R(1)>>, <<R(5),R(3)>> >>,
           tris |-> <<<<0,3,4>>, <<0,4,1>>, <<1,4,5>>, <<1,5,2>>, <<3,6,7>>, <<3,7,4>>, <<4,7,8>>, <<4,8,5>>>>]
Octa == [pts |-> << <<R(1),R(0),R(0)>>, <<R(-1),R(0),R(0)>>, <<R(0),R(2),R(0)>>, <<R(0),R(-2),R(0)>>, <<R(0),R(0),R(3)>>, <<R(0),R(0),R(-3)>> >>,
         tris |-> <<<<0,2,4>>, <<2,1,4>>, <<1,3,4>>, <<3,0,4>>, <<2,0,5>>, <<1,2,5>>, <<3,1,5>>, <<0,3,5>>>>]     \* closed octahedron
\* a seam: vertex 3 duplicates vertex 2 (same coordinates, another index) and one triangle uses both - a zero-length edge and a
\* zero-area triangle are legal members of "all triangle lists"
Seam == [pts |-> << <<R(0),R(0)>>, <<R(4),R(0)>>, <<R(4),R(3)>>, <<R(4),R(3)>>, <<R(0),R(3)>> >>, tris |-> <<<<0,1,2>>, <<1,3,2>>, <<0,3,4>>>>]
\* a triangle list may name the same vertex twice in one triangle (a collapsed triangle, listed FIRST here): it has no area, its
\* edges are a self loop and one edge traversed both ways
Collapsed == [pts |-> Grid23.pts, tris |-> <<<<2,2,5>>>> \o Grid23.tris]
\* a sliver: a 3-D triangle 20000 long and 1 high (aspect 2e4) next to an ordinary one - "all triangle lists" includes needles, whose
\* area a formula through the side lengths alone (Heron) loses to cancellation while the cross product does not
Sliver == [pts |-> << <<R(0),R(0),R(0)>>, <<R(20000),R(0),R(0)>>, <<R(10000),R(0),R(1)>>, <<R(0),R(1),R(0)>>, <<R(2),R(1),R(0)>>, <<R(0),R(1),R(3)>> >>,
           tris |-> <<<<0,1,2>>, <<3,4,5>>>>]
MeshPoolBase == [sliver |-> Sliver, collapsed |-> Collapsed, seam |-> Seam, tetrafin |-> TetraFin, twinfan |-> TwinFan, grid22 |-> Grid22, grid23 |-> Grid23, fan |-> Fan, islands |-> Islands, fin |-> Fin, tetra |-> Tetra, grid3d |-> Grid3D]
MeshPool == IF Wide THEN MeshPoolBase @@ [grid33 |-> Grid33, octa |-> Octa] ELSE MeshPoolBase
MeshClasses == {"TriMesh", "ColouredTriMesh", "TexturedTriMesh"}
\* masking: kept triangles = all three vertices kept; vertices without a kept triangle are dropped; order-preserving renumbering
KeptTris(m, vm) == SelectSeq(m.tris, LAMBDA t : vm[t[1]+1] /\ vm[t[2]+1] /\ vm[t[3]+1])
UsedBy(ts) == UNION {{ts[i][1], ts[i][2], ts[i][3]} : i \in 1..Len(ts)}
Renum(keep, v) == Cardinality({u \in keep : u < v})
MaskResult(m, vm) ==
   LET kt == KeptTris(m, vm)  keep == UsedBy(kt)
       idx == SelectSeq([i \in 1..Len(m.pts) |-> i - 1], LAMBDA v : v \in keep)
   IN [keep |-> idx, pts |-> [i \in 1..Len(idx) |-> m.pts[idx[i] + 1]],
       tris |-> [i \in 1..Len(kt) |-> <<Renum(keep, kt[i][1]), Renum(keep, kt[i][2]), Renum(keep, kt[i][3])>>]]
\* a triangle mask keeps the vertices of the flagged triangles and is then a vertex mask (so a triangle
\* that was not flagged but whose three vertices all survive is kept as well - "all of whose vertices survive")
TriMaskAsVertexMask(m, tm) == LET used == UNION {{m.tris[i][1], m.tris[i][2], m.tris[i][3]} : i \in {j \in 1..Len(m.tris) : tm[j]}} IN
                              [v \in 1..Len(m.pts) |-> (v - 1) \in used]
TriMaskResult(m, tm) == MaskResult(m, TriMaskAsVertexMask(m, tm))
\* geometry over Q
VSub(a,b) == [k \in 1..Len(a) |-> RSub(a[k], b[k])]
Dot(a,b) == LET f(k) == RMul(a[k], b[k]) IN RSum(f, 1, Len(a))
Cross3(a,b) == <<RSub(RMul(a[2],b[3]), RMul(a[3],b[2])), RSub(RMul(a[3],b[1]), RMul(a[1],b[3])), RSub(RMul(a[1],b[2]), RMul(a[2],b[1]))>>
TriNormal(m, t) == LET a == m.pts[t[1]+1] b == m.pts[t[2]+1] c == m.pts[t[3]+1] IN
                   IF Len(a) = 3 THEN Cross3(VSub(b,a), VSub(c,a))
                   ELSE <<Z0, Z0, RSub(RMul(RSub(b[1],a[1]), RSub(c[2],a[2])), RMul(RSub(b[2],a[2]), RSub(c[1],a[1])))>>
\* (2 * area)^2
DblAreaSq(m, t) == LET n == TriNormal(m, t) IN Dot(n, n)
EdgeSeq(m) == Flat([i \in 1..Len(m.tris) |-> << <<m.tris[i][1], m.tris[i][2]>>, <<m.tris[i][2], m.tris[i][3]>>, <<m.tris[i][3], m.tris[i][1]>> >>])
UEdge(e) == IF e[1] < e[2] THEN e ELSE <<e[2], e[1]>>
EdgeMult(m, e) == Cardinality({i \in 1..Len(EdgeSeq(m)) : UEdge(EdgeSeq(m)[i]) = UEdge(e)})
BoundaryTris(m) == [i \in 1..Len(m.tris) |-> \E e \in {<<m.tris[i][1], m.tris[i][2]>>, <<m.tris[i][2], m.tris[i][3]>>, <<m.tris[i][3], m.tris[i][1]>>} : EdgeMult(m, e) = 1]
UniqueEdges(m) == {UEdge(EdgeSeq(m)[i]) : i \in 1..Len(EdgeSeq(m))}
EdgeLenSq(m, e) == LET v == VSub(m.pts[e[2]+1], m.pts[e[1]+1]) IN Dot(v, v)
MeshGeom(m) == [areas2 |-> [i \in 1..Len(m.tris) |-> DblAreaSq(m, m.tris[i])],
                normals |-> [i \in 1..Len(m.tris) |-> TriNormal(m, m.tris[i])],
                edges |-> EdgeSeq(m),
                edgelen2 |-> [i \in 1..Len(EdgeSeq(m)) |-> EdgeLenSq(m, EdgeSeq(m)[i])],
                boundary |-> BoundaryTris(m),
                uedges |-> UniqueEdges(m)]
\* ---- cases ---------------------------------------------------------------------------------------------
ApplyCases == {[kind |-> "apply", cls |-> Classes[c], d |-> d, lmcfg |-> l, t |-> t] : <<c, d, l, t>> \in
                 {<<c, d, l, t>> \in (1..8) \X Dims \X LmCfgs \X (UNION {TransformsFor(dd) : dd \in Dims}) : t \in TransformsFor(d)}}
VecCases == {[kind |-> "vec", cls |-> Classes[c], d |-> d, lmcfg |-> l] : c \in 1..8, d \in Dims, l \in {0, 9}}
VMaskCases == {[kind |-> "vmask", mesh |-> m, cls |-> c, mask |-> vm] : <<m, c, vm>> \in
                 {<<m, c, vm>> \in (DOMAIN MeshPool) \X MeshClasses \X (UNION {[1..n -> BOOLEAN] : n \in 4..9}) :
                    Len(vm) = Len(MeshPool[m].pts) /\ KeptTris(MeshPool[m], vm) # <<>>}}
TMaskCases == {[kind |-> "tmask", mesh |-> m, cls |-> c, mask |-> tm] : <<m, c, tm>> \in
                 {<<m, c, tm>> \in (DOMAIN MeshPool) \X MeshClasses \X (UNION {[1..n -> BOOLEAN] : n \in 2..8}) :
                    Len(tm) = Len(MeshPool[m].tris) /\ \E i \in 1..Len(tm) : tm[i]}}
\* masks that keep NO whole triangle (at most two vertices, or none): whether such a request is refused or answered with an empty
\* mesh is not specified - only that the receiver is what it was afterwards
VMaskNoneCases == {[kind |-> "vmask_none", mesh |-> m, cls |-> c, mask |-> vm] : <<m, c, vm>> \in
                 {<<m, c, vm>> \in (DOMAIN MeshPool) \X MeshClasses \X (UNION {[1..n -> BOOLEAN] : n \in 4..9}) :
                    Len(vm) = Len(MeshPool[m].pts) /\ Cardinality({i \in 1..Len(vm) : vm[i]}) <= 2 /\ KeptTris(MeshPool[m], vm) = <<>>}}
GeomCases == {[kind |-> "geom", mesh |-> m] : m \in DOMAIN MeshPool}
Cases == (IF "apply" \in Kinds THEN ApplyCases ELSE {}) \cup (IF "vec" \in Kinds THEN VecCases ELSE {})
         \cup (IF "vmask" \in Kinds THEN VMaskCases \cup VMaskNoneCases ELSE {}) \cup (IF "tmask" \in Kinds THEN TMaskCases ELSE {})
         \cup (IF "geom" \in Kinds THEN GeomCases ELSE {})
Out(c) ==
  CASE c.kind = "apply" -> LET s == ShapeOf(c.cls, c.d, c.lmcfg) IN [case |-> c, shape |-> s, result |-> MapShape(c.t, s)]
    [] c.kind = "vec" -> LET s == ShapeOf(c.cls, c.d, c.lmcfg) IN
                         [case |-> c, shape |-> s, vec |-> Flat(s.pts), other |-> OtherVec(c.d),
                          result |-> [s EXCEPT !.pts = Unflat(OtherVec(c.d), c.d)]]
    \* rgeom: the geometry queries of the masked mesh are those of its own points and triangles (asked after the parent's)
    [] c.kind = "vmask_none" -> [case |-> c, m |-> MeshPool[c.mesh]]
    [] c.kind = "vmask" -> [case |-> c, m |-> MeshPool[c.mesh], res |-> MaskResult(MeshPool[c.mesh], c.mask), rgeom |-> MeshGeom(MaskResult(MeshPool[c.mesh], c.mask))]
    [] c.kind = "tmask" -> [case |-> c, m |-> MeshPool[c.mesh], res |-> TriMaskResult(MeshPool[c.mesh], c.mask), rgeom |-> MeshGeom(TriMaskResult(MeshPool[c.mesh], c.mask))]
    [] c.kind = "geom" -> [case |-> c, m |-> MeshPool[c.mesh], geom |-> MeshGeom(MeshPool[c.mesh])]
Init == case \in Cases /\ done = FALSE
Next == done = FALSE /\ done' = TRUE /\ case' = case /\ CSVWrite("%1$s", <<ToJson(Out(case))>>, IOEnv.OUT_FILE)
Spec == Init /\ [][Next]_<<case, done>>
\* ---- laws on the model --------------------------------------------------------------------------------
\* C02: structure is carried over unchanged, landmark names and order are kept
StructureKept == case.kind = "apply" =>
   LET s == ShapeOf(case.cls, case.d, case.lmcfg) r == MapShape(case.t, s) IN
   /\ r.cls = s.cls /\ r.tris = s.tris /\ r.edges = s.edges /\ r.labels = s.labels /\ r.root = s.root
   /\ r.colours = s.colours /\ r.tcoords = s.tcoords
   /\ Len(r.lms) = Len(s.lms) /\ \A i \in 1..Len(s.lms) : r.lms[i][1] = s.lms[i][1] /\ r.lms[i][2].cls = s.lms[i][2].cls
\* C05: vector round trip
VecRoundTrip == case.kind = "vec" => LET s == ShapeOf(case.cls, case.d, case.lmcfg) IN
   /\ Unflat(Flat(s.pts), case.d) = s.pts /\ Flat(Unflat(OtherVec(case.d), case.d)) = OtherVec(case.d)
   /\ Len(Flat(s.pts)) = Len(s.pts) * case.d
\* C17: every kept triangle still joins the same three coordinates; every surviving vertex is used; indices in range
MaskSound(m, r) == /\ \A i \in 1..Len(r.tris) : \A k \in 1..3 : r.tris[i][k] \in 0..(Len(r.pts)-1)
                   /\ \A v \in 0..(Len(r.pts)-1) : \E i \in 1..Len(r.tris) : v \in {r.tris[i][1], r.tris[i][2], r.tris[i][3]}
                   /\ \A i \in 1..Len(r.keep) : r.pts[i] = m.pts[r.keep[i]+1]
                   /\ \A i, j \in 1..Len(r.keep) : i < j => r.keep[i] < r.keep[j]
VMaskSound == case.kind = "vmask" => LET m == MeshPool[case.mesh] r == MaskResult(m, case.mask) kt == KeptTris(m, case.mask) IN
   /\ MaskSound(m, r) /\ Len(r.tris) = Len(kt)
   /\ \A i \in 1..Len(kt) : \A k \in 1..3 : r.pts[r.tris[i][k]+1] = m.pts[kt[i][k]+1]
   /\ \A i \in 1..Len(r.keep) : case.mask[r.keep[i]+1]
TMaskSound == case.kind = "tmask" => LET m == MeshPool[case.mesh] r == TriMaskResult(m, case.mask) IN
   /\ MaskSound(m, r) /\ Len(r.tris) >= Cardinality({i \in 1..Len(case.mask) : case.mask[i]})
   /\ \A i \in 1..Len(case.mask) : case.mask[i] => \E j \in 1..Len(r.tris) :
          \A k \in 1..3 : r.pts[r.tris[j][k]+1] = m.pts[m.tris[i][k]+1]          \* every flagged triangle survives
\* boundary: a closed mesh has no boundary triangle; an isolated triangle is boundary
GeomSound == case.kind = "geom" => LET m == MeshPool[case.mesh] g == MeshGeom(m) IN
   /\ \A i \in 1..Len(m.tris) : RLe(Z0, g.areas2[i])
   /\ (case.mesh \notin {"seam", "collapsed"} => \A i \in 1..Len(m.tris) : RLt(Z0, g.areas2[i]))                \* degenerate only where meant
   /\ (case.mesh = "seam" => g.areas2[2] = Z0)
   /\ \A i \in 1..Len(m.tris) : Len(m.pts[1]) = 3 => Dot(g.normals[i], VSub(m.pts[m.tris[i][2]+1], m.pts[m.tris[i][1]+1])) = Z0
   /\ (case.mesh \in {"tetra", "octa"} => \A i \in 1..Len(m.tris) : ~g.boundary[i])
   /\ (case.mesh = "tetrafin" => g.boundary = <<FALSE, FALSE, FALSE, FALSE, TRUE>>)      \* an edge with three owners is not unshared
   /\ (case.mesh = "islands" => \A i \in 1..Len(m.tris) : g.boundary[i])
   /\ Cardinality(g.uedges) * 2 >= Len(g.edges) \div 2
=======================================================================
