SPECIFICATION SpecOne
CONSTANTS
  Src <- SrcC
  Targets <- TargetsC
  Configs <- QuickConfigs
  D = 1000000
  MaxAls = 2
  EditVals = {2, 3}
  PairAll = FALSE
  WithPerturb = TRUE
  WithPinv = FALSE
VIEW NoHist
INVARIANT HistoryIndependent
INVARIANT Optimal
INVARIANT ProperUnlessMirror
INVARIANT Orthogonal
INVARIANT SizeExact
INVARIANT EmitInit
PROPERTY BadTargetRejected
PROPERTY CopiesIndependent
PROPERTY AfterSetTargetInSyncStep
ACTION_CONSTRAINT EmitTrans
