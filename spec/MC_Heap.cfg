INIT Init
NEXT Next
CONSTANTS
  Schema <- SchemaC
  UseOverrides = TRUE
INVARIANT NoSharing
