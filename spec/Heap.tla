---------------------------- MODULE Heap ----------------------------
(* How menpo copies objects (C06, first clause).  An object is a record of fields; a field value is
     [k |-> "buf",  b |-> buffer id]                      numpy array / sparse-matrix part
     [k |-> "obj",  o |-> object id]                      nested Copyable (has .copy())
     [k |-> "dict", d |-> Seq(value)]                     dict / OrderedDict of values   (dict.copy() is SHALLOW)
     [k |-> "list", d |-> Seq(value)]                     list of values                 (list.copy() is SHALLOW)
     [k |-> "imm"]                                        immutable / no .copy(): shared
   Copyable.copy is attribute-wise `v.copy()`; classes may override (deepen dicts, or share by design). *)
EXTENDS Integers, Sequences, FiniteSets, TLC
CONSTANTS Schema,        \* class name -> [fields : Seq(value template), deepen : SUBSET field indices, share : SUBSET field indices]
          UseOverrides   \* TRUE: class overrides applied (as in menpo); FALSE: bare Copyable.copy
VARIABLES objs,          \* object id -> [cls, fields : Seq(value)]
          nbuf, done, pair
vars == <<objs, nbuf, done, pair>>
Buf(b) == [k |-> "buf", b |-> b]
Obj(o) == [k |-> "obj", o |-> o]
\* ---- reachability of buffers (bounded nesting: object -> dict/list -> object/buffer)
BufsOfVal1(v) == IF v.k = "buf" THEN {v.b} ELSE {}
ObjsOfVal1(v) == IF v.k = "obj" THEN {v.o} ELSE {}
Elems(v) == IF v.k \in {"dict", "list"} THEN {v.d[i] : i \in 1..Len(v.d)} ELSE {v}
DirectBufs(o) == UNION {UNION {BufsOfVal1(e) : e \in Elems(objs[o].fields[i])} : i \in 1..Len(objs[o].fields)}
DirectObjs(o) == UNION {UNION {ObjsOfVal1(e) : e \in Elems(objs[o].fields[i])} : i \in 1..Len(objs[o].fields)}
RECURSIVE ReachObjs(_)
ReachObjs(S) == LET S2 == S \cup UNION {DirectObjs(o) : o \in S} IN IF S2 = S THEN S ELSE ReachObjs(S2)
Reach(o) == UNION {DirectBufs(x) : x \in ReachObjs({o})}
\* ---- the copy mechanism, as a pure function on (heap, counter); returns [objs, nbuf, id]
\* depth-bounded: Copy2 copies leaf objects (no nested objects inside), Copy1 copies objects that may contain leaf objects
CopyValShallow(v, st) ==       \* what `v.copy()` does for a non-object value
   CASE v.k = "buf" -> [st EXCEPT !.nbuf = st.nbuf + 1, !.val = Buf(st.nbuf + 1)]
     [] v.k \in {"dict", "list"} -> [st EXCEPT !.val = v]                  \* new container, SAME elements
     [] OTHER -> [st EXCEPT !.val = v]
CopyLeafObj(o, st) ==          \* object without nested objects: attribute-wise
   LET n == Len(st.objs[o].fields)
       F[i \in 0..n] == IF i = 0 THEN [st |-> st, acc |-> <<>>]
                        ELSE LET r == CopyValShallow(st.objs[o].fields[i], F[i-1].st) IN [st |-> r, acc |-> Append(F[i-1].acc, r.val)]
       new == Len(F[n].st.objs) + 1
   IN [F[n].st EXCEPT !.objs = Append(F[n].st.objs, [cls |-> st.objs[o].cls, fields |-> F[n].acc]), !.val = Obj(new)]
CopyVal(v, st, deepen) ==
   CASE v.k = "obj" -> CopyLeafObj(v.o, st)
     [] v.k \in {"dict", "list"} /\ deepen ->                                 \* override: copy every element
          LET n == Len(v.d)
              G[i \in 0..n] == IF i = 0 THEN [st |-> st, acc |-> <<>>]
                               ELSE LET r == IF v.d[i].k = "obj" THEN CopyLeafObj(v.d[i].o, G[i-1].st) ELSE CopyValShallow(v.d[i], G[i-1].st)
                                    IN [st |-> r, acc |-> Append(G[i-1].acc, r.val)]
          IN [G[n].st EXCEPT !.val = [k |-> v.k, d |-> G[n].acc]]
     [] OTHER -> CopyValShallow(v, st)
CopyTop(o, st0) ==
   LET c == st0.objs[o].cls  sch == Schema[c]  n == Len(st0.objs[o].fields)
       H[i \in 0..n] == IF i = 0 THEN [st |-> st0, acc |-> <<>>]
                        ELSE IF UseOverrides /\ i \in sch.share THEN [st |-> H[i-1].st, acc |-> Append(H[i-1].acc, st0.objs[o].fields[i])]
                        ELSE LET r == CopyVal(st0.objs[o].fields[i], H[i-1].st, UseOverrides /\ i \in sch.deepen) IN [st |-> r, acc |-> Append(H[i-1].acc, r.val)]
       new == Len(H[n].st.objs) + 1
   IN [objs |-> Append(H[n].st.objs, [cls |-> c, fields |-> H[n].acc]), nbuf |-> H[n].st.nbuf, id |-> new]
\* ---- instances: build one instance per class from its schema templates, then copy it
\* template values: "buf" -> fresh buffer; "objleaf" -> fresh leaf object with one buffer; dict/list of those
RECURSIVE Inst(_, _)
Inst(t, st) ==     \* t: template  -> [st with val]
   CASE t.k = "buf" -> [st EXCEPT !.nbuf = st.nbuf + 1, !.val = Buf(st.nbuf + 1)]
     [] t.k = "objleaf" -> LET b == st.nbuf + 1 new == Len(st.objs) + 1 IN
                           [st EXCEPT !.nbuf = b, !.objs = Append(st.objs, [cls |-> "Leaf", fields |-> <<Buf(b)>>]), !.val = Obj(new)]
     [] t.k \in {"dict", "list"} ->
          LET n == Len(t.d)
              G[i \in 0..n] == IF i = 0 THEN [st |-> st, acc |-> <<>>] ELSE LET r == Inst(t.d[i], G[i-1].st) IN [st |-> r, acc |-> Append(G[i-1].acc, r.val)]
          IN [G[n].st EXCEPT !.val = [k |-> t.k, d |-> G[n].acc]]
     [] OTHER -> [st EXCEPT !.val = [k |-> "imm"]]
MakeInstance(c) ==
   LET tpl == Schema[c].fields  n == Len(tpl)
       st0 == [objs |-> <<>>, nbuf |-> 0, val |-> [k |-> "imm"]]
       G[i \in 0..n] == IF i = 0 THEN [st |-> st0, acc |-> <<>>] ELSE LET r == Inst(tpl[i], G[i-1].st) IN [st |-> r, acc |-> Append(G[i-1].acc, r.val)]
       new == Len(G[n].st.objs) + 1
   IN [objs |-> Append(G[n].st.objs, [cls |-> c, fields |-> G[n].acc]), nbuf |-> G[n].st.nbuf, id |-> new]
Init == \E c \in DOMAIN Schema :
          LET a == MakeInstance(c)
              b == CopyTop(a.id, [objs |-> a.objs, nbuf |-> a.nbuf, val |-> [k |-> "imm"]])
          IN objs = b.objs /\ nbuf = b.nbuf /\ pair = <<a.id, b.id>> /\ done = TRUE
Next == UNCHANGED vars
\* buffers reachable from shared-by-design fields of the original
DesignShared == LET o == pair[1] sch == Schema[objs[o].cls] IN
   UNION {UNION {IF e.k = "buf" THEN {e.b} ELSE IF e.k = "obj" THEN Reach(e.o) ELSE {} : e \in Elems(objs[o].fields[i])} : i \in sch.share}
NoSharing == Reach(pair[1]) \cap Reach(pair[2]) \subseteq DesignShared
=====================================================================
