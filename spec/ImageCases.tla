---------------------------- MODULE ImageCases ----------------------------
(* Pixel-exact image operations over integer index grids (property C13) and image vectorisation
   (image part of C05).  A test image of shape sh with C channels holds at index (ch, x) the value
   Pix(ch, x) = a unique integer, so "bit for bit" is identity of ids; the harness builds the same
   image.  One-shot: every case is an initial state. *)
EXTENDS Rat, FiniteSets, TLC, Json, CSV, IOUtils
CONSTANTS Kinds, Shapes2, Shapes3, CropShapes2, Wide
VARIABLES case, done
R(n) == <<n,1>>
Q(a,b) == Norm(a,b)
\* ---- crop: floor / ceil, clip to [0, shape], refuse unless constraining is allowed -----------------------
Clip(v, hi) == IF v < 0 THEN 0 ELSE IF v > hi THEN hi ELSE v
CropSpec(sh, mn, mx, constrain) ==
   LET d == Len(sh)
       lo == [k \in 1..d |-> RFloor(mn[k])]  hi == [k \in 1..d |-> RCeil(mx[k])]
       lob == [k \in 1..d |-> Clip(lo[k], sh[k])]  hib == [k \in 1..d |-> Clip(hi[k], sh[k])]
   IN IF \E k \in 1..d : ~(hi[k] > lo[k]) THEN [err |-> "ValueError", lo |-> lob, hi |-> hib]
      ELSE IF ~constrain /\ ~(lob = lo /\ hib = hi) THEN [err |-> "ImageBoundaryError", lo |-> lob, hi |-> hib]
      ELSE IF \E k \in 1..d : hib[k] <= lob[k] THEN [err |-> "empty", lo |-> lob, hi |-> hib]        \* empty intersection: not judged
      ELSE [err |-> "", lo |-> lob, hi |-> hib]
\* bound values per axis: integers -2..L+2 and a few half-integers
AxisVals(L) == IF Wide THEN {R(v) : v \in (-2)..(L + 2)} \cup {Q(-1,2), Q(1,2), Q(2*L - 1, 2), Q(2*L + 1, 2), Q(3,2)}
               ELSE {R(v) : v \in (-1)..(L + 1)} \cup {Q(-1,2), Q(1,2), Q(2*L - 1, 2), Q(2*L + 1, 2)}
AxisPairs(L) == {<<a, b>> \in AxisVals(L) \X AxisVals(L) : RLt(a, b) \/ a = b}
\* a thinner pool for the axes beyond the second
ThinPairs(L) == {<<R(0), R(L)>>, <<R(1), R(L - 1)>>, <<R(-1), R(2)>>, <<R(1), R(L + 1)>>, <<Q(1,2), Q(3,2)>>, <<R(L), R(L + 2)>>}
CropCases2 == UNION {{[kind |-> "crop", shape |-> sh, mn |-> <<p1[1], p2[1]>>, mx |-> <<p1[2], p2[2]>>, constrain |-> c] :
                         p1 \in AxisPairs(sh[1]), p2 \in AxisPairs(sh[2]), c \in BOOLEAN} : sh \in CropShapes2}
CropCases3 == UNION {{[kind |-> "crop", shape |-> sh, mn |-> <<p1[1], p2[1], p3[1]>>, mx |-> <<p1[2], p2[2], p3[2]>>, constrain |-> c] :
                         p1 \in ThinPairs(sh[1]), p2 \in ThinPairs(sh[2]), p3 \in ThinPairs(sh[3]), c \in BOOLEAN} : sh \in Shapes3}
\* ---- patches -------------------------------------------------------------------------------------------
\* first index covered by a patch of size p around centre coordinate c (+ offset): round-half-even(c + (p mod 2)/2 + off - p/2)
PatchLo(c, off, p) == RRoundHalfEven(RAdd(RAdd(c, Q(p % 2, 2)), RSub(off, Q(p, 2))))
\* sampling path: patch element r is sampled at  c + off - p/2 + r + (p mod 2)/2
SampleAt(c, off, p, r) == RAdd(RAdd(c, off), RAdd(RSub(R(r), Q(p, 2)), Q(p % 2, 2)))
IsTie(q) == q[2] = 2
\* what a constant-mode order-0 sample at coordinate q returns along an axis of length L: the index, or -1 for the fill value
SampleIdx(q, L) == IF RLt(q, Z0) \/ RLt(R(L - 1), q) THEN -1 ELSE RRoundHalfEven(q)
IntCentres(sh) == << <<R(0), R(0)>>, <<R(2), R(3)>>, <<R(sh[1] - 1), R(sh[2] - 1)>>, <<R(1), R(sh[2])>>, <<R(-1), R(2)>>, <<R(sh[1] + 1), R(1)>> >>
Centres(sh) == IntCentres(sh) \o << <<Q(9,4), Q(5,4)>>, <<Q(1,3), Q(8,3)>>, <<Q(7,4), Q(-1,4)>> >>
OffsetSets == { << <<0, 0>> >>, << <<0, 0>>, <<1, -2>>, <<-1, 1>> >> }
PShapes == {<<1, 1>>, <<2, 2>>, <<3, 3>>, <<4, 5>>, <<5, 4>>, <<2, 3>>, <<3, 1>>}
PatchCases == {[kind |-> "patch", shape |-> sh, channels |-> ch, pshape |-> ps, centres |-> cs, offsets |-> os, cval |-> cv] :
                 sh \in Shapes2, ch \in {1, 2, 3, 5}, ps \in PShapes, cs \in {"int", "all"}, os \in OffsetSets, cv \in {0, 7}}
CentreSeq(sh, cs) == IF cs = "int" THEN IntCentres(sh) ELSE Centres(sh)
\* expected index (per axis) of element r of the patch around centre c with offset o: slice path and sampling path
SliceIdx(c, o, p, r, L) == LET i == PatchLo(c, R(o), p) + r IN IF i < 0 \/ i >= L THEN -1 ELSE i
PatchOut(c) ==
   LET sh == c.shape cs == CentreSeq(sh, c.centres) IN
   [case |-> c, centres |-> cs,
    \* per centre, per offset, per axis: the sequence of source indices (-1 = fill value) for both extraction paths
    slice |-> [i \in 1..Len(cs) |-> [j \in 1..Len(c.offsets) |-> [k \in 1..2 |->
                 [r \in 1..c.pshape[k] |-> SliceIdx(cs[i][k], c.offsets[j][k], c.pshape[k], r - 1, sh[k])]]]],
    sample |-> [i \in 1..Len(cs) |-> [j \in 1..Len(c.offsets) |-> [k \in 1..2 |->
                 [r \in 1..c.pshape[k] |-> LET q == SampleAt(cs[i][k], R(c.offsets[j][k]), c.pshape[k], r - 1) IN
                                            IF IsTie(q) THEN -2 ELSE SampleIdx(q, sh[k])]]]]]
\* ---- image vectors (C05) ----------------------------------------------------------------------------------
VecCases == {[kind |-> "imgvec", cls |-> cl, shape |-> sh, channels |-> ch, dtype |-> dt, mask |-> mk, nlm |-> n] :
               <<cl, sh, ch, dt, mk, n>> \in {<<cl, sh, ch, dt, mk, n>> \in {"Image", "MaskedImage", "BooleanImage"} \X (Shapes2 \cup Shapes3) \X {1, 3} \X {"float64", "float32", "uint8"}
                                              \X {"none", "full", "sparse"} \X {0, 2} :
                                            /\ (cl = "Image" => mk = "none") /\ (cl = "MaskedImage" => mk # "none")
                                            /\ (cl = "BooleanImage" => (mk = "none" /\ ch = 1 /\ dt = "float64"))}}
\* ---- n-D geometry (C01 in 3-D): rescale / resize / mirror / zoom act per axis: source index = a[k] * x[k] + b[k] -------------
Geom3Shapes == {<<3, 4, 5>>, <<4, 4, 3>>}
Geom3Ops == {[op |-> "rescale", s |-> s, mode |-> m, axis |-> 0] : s \in {<<R(2), Q(3,2), R(1)>>, <<Q(3,2), Q(3,2), Q(3,2)>>, <<Q(1,2), R(1), R(2)>>}, m \in {"ceil", "round", "floor"}}
            \cup {[op |-> "mirror", s |-> <<>>, mode |-> "", axis |-> k] : k \in {0, 1, 2}}
            \cup {[op |-> "zoom", s |-> <<z>>, mode |-> "", axis |-> 0] : z \in {Q(3,2), Q(1,2)}}
Geom3Cases == {[kind |-> "geom3d", shape |-> sh, g |-> g] : sh \in Geom3Shapes, g \in Geom3Ops}
\* rescale: template shape = round(s L), index-space factor (s L - 1)/(L - 1) (pixel centres are scaled); mirror: L - 1 - x;
\* zoom z about shape/2: source = c + (x - c)/z
Geom3Out(c) == LET sh == c.shape g == c.g d == Len(sh) IN
   CASE g.op = "rescale" -> [case |-> c, ok |-> \A k \in 1..d : RLt(R(1), RMul(g.s[k], R(sh[k]))),
                             shape |-> [k \in 1..d |-> RoundMode(RMul(g.s[k], R(sh[k])), g.mode)],
                             a |-> [k \in 1..d |-> LET den == RSub(RMul(g.s[k], R(sh[k])), R(1)) IN IF den = R(0) THEN R(1) ELSE RMul(R(sh[k] - 1), RInv(den))],
                             b |-> [k \in 1..d |-> R(0)]]
     [] g.op = "mirror" -> [case |-> c, ok |-> TRUE, shape |-> sh, a |-> [k \in 1..d |-> IF k = g.axis + 1 THEN R(-1) ELSE R(1)],
                            b |-> [k \in 1..d |-> IF k = g.axis + 1 THEN R(sh[k] - 1) ELSE R(0)]]
     [] OTHER -> [case |-> c, ok |-> TRUE, shape |-> sh, a |-> [k \in 1..d |-> RInv(g.s[1])],
                  b |-> [k \in 1..d |-> RMul(Norm(sh[k], 2), RSub(R(1), RInv(g.s[1])))]]
\* mask "sparse": index x is masked-in iff the sum of its coordinates is not divisible by 3
Cases == (IF "geom3d" \in Kinds THEN Geom3Cases ELSE {}) \cup (IF "crop" \in Kinds THEN CropCases2 \cup CropCases3 ELSE {}) \cup (IF "patch" \in Kinds THEN PatchCases ELSE {}) \cup (IF "imgvec" \in Kinds THEN VecCases ELSE {})
Out(c) == CASE c.kind = "crop" -> [case |-> c, res |-> CropSpec(c.shape, c.mn, c.mx, c.constrain)]
            [] c.kind = "patch" -> PatchOut(c)
            [] c.kind = "geom3d" -> Geom3Out(c)
            [] OTHER -> [case |-> c]
Init == case \in Cases /\ done = FALSE
Next == done = FALSE /\ done' = TRUE /\ case' = case /\ CSVWrite("%1$s", <<ToJson(Out(case))>>, IOEnv.OUT_FILE)
Spec == Init /\ [][Next]_<<case, done>>
\* ---- laws on the model ---------------------------------------------------------------------------------------
\* an accepted crop is the requested box intersected with the image; an unconstrained accepted crop is the box itself
CropSound == case.kind = "crop" =>
   LET r == CropSpec(case.shape, case.mn, case.mx, case.constrain) d == Len(case.shape) IN
   r.err = "" => /\ \A k \in 1..d : 0 <= r.lo[k] /\ r.lo[k] < r.hi[k] /\ r.hi[k] <= case.shape[k]
                 /\ (~case.constrain => \A k \in 1..d : r.lo[k] = RFloor(case.mn[k]) /\ r.hi[k] = RCeil(case.mx[k]))
\* at integer centres the slicing path and the sampling path read the same source index for every patch element
PathsAgree == case.kind = "patch" =>
   LET o == PatchOut(case) IN
   \A i \in 1..Len(o.centres) : (IsInt(o.centres[i][1]) /\ IsInt(o.centres[i][2])) =>
      \A j \in 1..Len(case.offsets) : \A k \in 1..2 : o.slice[i][j][k] = o.sample[i][j][k]
\* a patch is a contiguous run of indices
Contiguous == case.kind = "patch" =>
   LET o == PatchOut(case) IN
   \A i \in 1..Len(o.centres) : \A j \in 1..Len(case.offsets) : \A k \in 1..2 :
      \A r \in 1..(case.pshape[k] - 1) : (o.slice[i][j][k][r] >= 0 /\ o.slice[i][j][k][r+1] >= 0) => o.slice[i][j][k][r+1] = o.slice[i][j][k][r] + 1
\* the per-axis map sends the template's corner indices onto the source's corner indices (rescale), is an involution (mirror)
Geom3Sound == case.kind = "geom3d" =>
   LET o == Geom3Out(case) d == Len(case.shape) IN
   o.ok => \A k \in 1..d :
      CASE case.g.op = "rescale" -> RAdd(RMul(o.a[k], RSub(RMul(case.g.s[k], R(case.shape[k])), R(1))), o.b[k]) = R(case.shape[k] - 1)
        [] case.g.op = "mirror" -> RAdd(RMul(o.a[k], RAdd(RMul(o.a[k], R(1)), o.b[k])), o.b[k]) = R(1)
        [] OTHER -> RAdd(RMul(o.a[k], Norm(case.shape[k], 2)), o.b[k]) = Norm(case.shape[k], 2)              \* the centre is fixed
=======================================================================
