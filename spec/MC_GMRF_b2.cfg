SPECIFICATION Spec
CONSTANTS
  NV = 2
  Data <- Data2
  Kinds = {"batch"}
  MinBatch = 3
INVARIANT Symmetric
INVARIANT GraphSparse
INVARIANT PSDOnPool
INVARIANT ZeroAtMean
