SPECIFICATION TSpec
CONSTANTS
  InitLens = {}
  Ctors = {}
  MaxLists = 100000
  D = 100000
  SStarts = {}
  SStops = {}
  SSteps = {}
  IdxPool = {}
  RepPool = {}
  FancyPool = {}
  PlainPool = {}
  WithIter = TRUE
INVARIANT Faithful
PROPERTY LazyProp
PROPERTY ExactDeps
PROPERTY Immutable
POSTCONDITION Report
