---------------------------- MODULE Labels ----------------------------
(* Labelled landmark groups (menpo.shape.LabelledPointUndirectedGraph), property C15.
   A labelled graph is [pts, edges, labels]: pts = sequence of point TAGS (identity of the original
   points), edges = set of 0-based index pairs <<a, b>> with a < b, labels = ORDERED sequence of
   <<name, mask>> (mask = sequence of BOOLEAN, one per point).  All operations are pure: they return
   a new graph; histories chain operations on the result of the previous one. *)
EXTENDS Integers, Sequences, FiniteSets, TLC, Json, CSV, IOUtils
CONSTANTS Inits,        \* set of initial labelled graphs
          D,
          Unknown       \* a label name that never exists
VARIABLES cur, hist
vars == <<cur, hist>>
N(g) == Len(g.pts)
Names(g) == [i \in 1..Len(g.labels) |-> g.labels[i][1]]
NameSet(g) == {g.labels[i][1] : i \in 1..Len(g.labels)}
MaskOf(g, n) == g.labels[CHOOSE i \in 1..Len(g.labels) : g.labels[i][1] = n][2]
Covered(g) == \A p \in 1..N(g) : \E i \in 1..Len(g.labels) : g.labels[i][2][p]
\* keep the points flagged by `keep` (a BOOLEAN sequence): original order, induced edges, order-preserving renumbering
KeptIdx(keep) == SelectSeq([i \in 1..Len(keep) |-> i], LAMBDA i : keep[i])
Renum(keep, v) == Cardinality({u \in 1..Len(keep) : keep[u] /\ u - 1 < v})          \* v is 0-based
InducedEdges(e, keep) == {<<Renum(keep, p[1]), Renum(keep, p[2])>> : p \in {q \in e : keep[q[1] + 1] /\ keep[q[2] + 1]}}
Restrict(mask, keep) == LET idx == KeptIdx(keep) IN [i \in 1..Len(idx) |-> mask[idx[i]]]
Union(g, names) == [p \in 1..N(g) |-> \E k \in 1..Len(names) : MaskOf(g, names[k])[p]]
Select(g, names) == LET keep == Union(g, names) idx == KeptIdx(keep) IN
                    [pts |-> [i \in 1..Len(idx) |-> g.pts[idx[i]]],
                     edges |-> InducedEdges(g.edges, keep),
                     labels |-> [k \in 1..Len(names) |-> <<names[k], Restrict(MaskOf(g, names[k]), keep)>>]]
\* sequences without repetition over a set
Perms(S, k) == {s \in [1..k -> S] : \A i, j \in 1..k : i # j => s[i] # s[j]}
Rec(op, arg, err, res) == [op |-> op, arg |-> arg, err |-> err, res |-> res]
Stay(op, arg, e) == /\ cur' = cur /\ hist' = Append(hist, Rec(op, arg, e, cur))
Go(op, arg, g) == /\ cur' = g /\ hist' = Append(hist, Rec(op, arg, "", g))
\* with_labels(names): names in the REQUESTED order (the result lists them in that order)
WithLabels(names) == /\ Len(hist) < D
                     /\ IF \E k \in 1..Len(names) : names[k] \notin NameSet(cur) THEN Stay("with_labels", names, "ValueError")
                        ELSE Go("with_labels", names, Select(cur, names))
\* without_labels(S): the remaining labels in their ORIGINAL order; names that do not exist are ignored
WithoutLabels(S) == /\ Len(hist) < D
                    /\ LET keepNames == SelectSeq(Names(cur), LAMBDA n : n \notin S) IN
                       /\ keepNames # <<>>
                       /\ Go("without_labels", S, Select(cur, keepNames))
AddLabel(n, idxs) == /\ Len(hist) < D
                     /\ LET mask == [p \in 1..N(cur) |-> (p - 1) \in idxs]
                            labs == IF n \in NameSet(cur)
                                    THEN [i \in 1..Len(cur.labels) |-> IF cur.labels[i][1] = n THEN <<n, mask>> ELSE cur.labels[i]]
                                    ELSE Append(cur.labels, <<n, mask>>) IN
                        \* (an index beyond the last point is refused; replacing the mask of an existing label may not uncover a point)
                        IF \E i \in idxs : i >= N(cur) THEN Stay("add_label", <<n, idxs>>, "IndexError") ELSE
                        IF Covered([cur EXCEPT !.labels = labs]) THEN Go("add_label", <<n, idxs>>, [cur EXCEPT !.labels = labs])
                        ELSE Stay("add_label", <<n, idxs>>, "ValueError")
RemoveLabel(n) == /\ Len(hist) < D
                  /\ IF n \notin NameSet(cur) THEN Stay("remove_label", n, "KeyError")
                     ELSE LET g == [cur EXCEPT !.labels = SelectSeq(cur.labels, LAMBDA l : l[1] # n)] IN
                          IF g.labels = <<>> \/ ~Covered(g) THEN Stay("remove_label", n, "ValueError") ELSE Go("remove_label", n, g)
\* get_label: a plain point graph (no labels); the labelled graph stays current
GetLabel(n) == /\ Len(hist) < D
               /\ IF n \notin NameSet(cur) THEN Stay("get_label", n, "KeyError")
                  ELSE LET s == Select(cur, <<n>>) IN
                       /\ cur' = cur /\ hist' = Append(hist, Rec("get_label", n, "", [s EXCEPT !.labels = <<>>]))
Init == cur \in Inits /\ hist = <<Rec("init", "", "", cur)>>
Next == \/ \E k \in 1..3 : \E names \in Perms(NameSet(cur) \cup {Unknown}, k) :
              (Cardinality({i \in 1..k : names[i] = Unknown}) <= 1 /\ (k = 1 \/ Unknown \notin {names[i] : i \in 1..k})) /\ WithLabels(names)
        \/ \E S \in SUBSET (NameSet(cur) \cup {Unknown}) : S # {} /\ WithoutLabels(S)
        \/ \E n \in {"zz_new"} \cup NameSet(cur), idxs \in {{0}, {1, N(cur) - 1}, 0..(N(cur) - 1), {0, N(cur)}} : N(cur) >= 2 /\ AddLabel(n, idxs)
        \/ \E n \in NameSet(cur) \cup {Unknown} : RemoveLabel(n) \/ GetLabel(n)
Spec == Init /\ [][Next]_vars
\* ---- properties ----------------------------------------------------------------------------------
Coverage == Covered(cur)
WellFormed == /\ \A i \in 1..Len(cur.labels) : Len(cur.labels[i][2]) = N(cur)
              /\ \A e \in cur.edges : e[1] < e[2] /\ e[2] < N(cur)
              /\ \A i, j \in 1..Len(cur.labels) : i # j => cur.labels[i][1] # cur.labels[j][1]
Last == hist[Len(hist)]
\* selection keeps points in their original relative order (tags are increasing in the initial graphs)
OrderKept == \A i, j \in 1..N(cur) : i < j => cur.pts[i] < cur.pts[j]
\* without_labels keeps the remaining labels in their original relative order
LabelOrderKept == [][ (hist' # hist /\ hist'[Len(hist')].op = "without_labels") =>
                        Names(cur') = SelectSeq(Names(cur), LAMBDA n : n \notin hist'[Len(hist')].arg) ]_vars
FailuresPure == [][ (hist' # hist /\ hist'[Len(hist')].err # "") => cur' = cur ]_vars
\* complete-graph mode (VIEW NoHist, no depth bound): the current labelled graph ranges over a finite set; every reachable
\* graph is visited, the properties hold for histories of any length, one history per transition is emitted
NoHist == cur
EmitTrans == CSVWrite("%1$s", <<ToJson(hist')>>, IOEnv.OUT_FILE)
Emit == (Len(hist) = D) => CSVWrite("%1$s", <<ToJson(hist)>>, IOEnv.OUT_FILE)
=======================================================================
