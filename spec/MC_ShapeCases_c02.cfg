SPECIFICATION Spec
CONSTANTS
  Kinds = {"apply"}
  Dims = {2, 3}
  Wide = FALSE
  LmCfgs = {0, 1, 2, 3, 4, 5, 6, 7, 8, 9, 10, 11, 12}
INVARIANT StructureKept
INVARIANT VecRoundTrip
INVARIANT VMaskSound
INVARIANT TMaskSound
INVARIANT GeomSound
