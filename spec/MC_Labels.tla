---------------------------- MODULE MC_Labels ----------------------------
EXTENDS Labels
B(s) == [i \in 1..Len(s) |-> s[i] = 1]
\* every family of two overlapping masks covering 4 points x a pool of edge sets
EdgePool4 == {{}, {<<0,1>>, <<1,2>>, <<2,3>>}, {<<0,1>>, <<1,2>>, <<2,3>>, <<0,3>>}, {<<0,2>>, <<1,2>>, <<2,3>>}, {<<0,1>>, <<2,3>>},
              {<<0,1>>, <<0,2>>, <<0,3>>, <<1,2>>, <<1,3>>, <<2,3>>}}
TwoMasks4 == {m \in [1..4 -> {1, 2, 3}] : (\E p \in 1..4 : m[p] \in {1, 3}) /\ (\E p \in 1..4 : m[p] \in {2, 3})}     \* 1: first only, 2: second only, 3: both
G2(e, m) == [pts |-> <<10, 11, 12, 13>>, edges |-> e,
             labels |-> << <<"left_eyebrow", [p \in 1..4 |-> m[p] \in {1, 3}]>>, <<"left_eye", [p \in 1..4 |-> m[p] \in {2, 3}]>> >>]
InitsAll2 == {G2(e, m) : e \in EdgePool4, m \in TwoMasks4}
\* three labels on five points (label names chosen so that hash order differs from insertion order)
G3(e, a, b, c) == [pts |-> <<20, 21, 22, 23, 24>>, edges |-> e, labels |-> << <<"eye", B(a)>>, <<"all", B(b)>>, <<"b_eye", B(c)>> >>]
E5a == {<<0,1>>, <<1,2>>, <<2,3>>, <<3,4>>}
E5b == {<<0,4>>, <<1,3>>, <<2,4>>, <<0,2>>, <<1,2>>}
Inits3 == {G3(E5a, <<1,1,0,0,0>>, <<1,1,1,1,1>>, <<0,0,1,1,1>>), G3(E5b, <<1,1,1,0,0>>, <<0,1,1,1,0>>, <<0,0,0,1,1>>),
           G3(E5b, <<1,0,1,0,1>>, <<0,1,0,1,0>>, <<1,1,0,0,0>>), G3({}, <<1,1,1,1,0>>, <<0,0,0,0,1>>, <<1,0,0,0,1>>)}
InitsSmall == Inits3 \cup {G2({<<0,1>>, <<1,2>>, <<2,3>>}, <<1, 3, 2, 2>>), G2({<<0,1>>, <<2,3>>}, <<3, 1, 2, 3>>)}
InitsDepth1 == InitsAll2 \cup Inits3
\* complete-graph mode: two small overlapping two-label graphs (the reachable set multiplies quickly with the number of points)
InitsTiny == {G2({<<0,1>>, <<1,2>>, <<2,3>>}, <<1, 3, 2, 2>>), G2({<<0,1>>, <<2,3>>}, <<3, 1, 2, 3>>)}
InitsOne == {G2({<<0,1>>, <<2,3>>}, <<3, 1, 2, 3>>)}
=============================================================================
