SPECIFICATION Spec
CONSTANTS
  Kinds = {"geom3d"}
  Shapes2 <- S2
  Shapes3 <- S3
  CropShapes2 <- C2
  Wide = FALSE
INVARIANT Geom3Sound
