SPECIFICATION Spec
CONSTANTS
  Pool <- PoolFull
  D = 5
  MaxObjs = 20
  MaxEntry = 60
  EvalPts <- Pts
  Ops <- AllOps
INVARIANT HonestInv
INVARIANT LadderIsFCA
INVARIANT ComposeLaw
INVARIANT InverseLaw
INVARIANT Emit
PROPERTY OperandsIntact
PROPERTY FailuresPure
PROPERTY InplaceLocal
