---------------------------- MODULE Alignment ----------------------------
(* Closed forms (over Q) of menpo's 2-D alignments and the set_target protocol (C07, C08).
   Point sets are sequences of integer points.  A fit is a record
        [A (2x2 over Q), k2 (squared scale, rational), cS, cT]
   denoting the map  x |-> k A (x - cS) + cT  with k = sqrt(k2)  (k itself may be irrational: the
   harness takes the square root; everything else is exact).  A target value is admitted for a
   class only if the optimum of that class is rational (perfect-square filter OK).
   Target point sets are heap objects the caller owns: an alignment keeps a reference to the object it
   was given (shared by documented design), so an in-place edit of that object is visible through
   `target` while the fitted state stays as it was until set_target is called again. *)
EXTENDS Mat, TLC, Json, CSV, IOUtils
CONSTANTS Src, Targets, Configs, D, MaxAls, EditVals, PairAll, WithPinv, WithPerturb
VARIABLES vals,   \* target object id (1, 2) -> index into Targets : current content of the caller's arrays
          als,    \* sequence of alignment records [cfg, tobj, fit, fitval]
          hist
vars == <<vals, als, hist>>
N == Len(Src)
R(n) == <<n,1>>
SumK(P, k) == LET f(i) == P[i][k] IN ISum(f, 1, N)
Cen(P) == [i \in 1..N |-> <<N * P[i][1] - SumK(P,1), N * P[i][2] - SumK(P,2)>>]      \* centred, scaled by N
Dot(P, Q) == LET f(i) == P[i][1]*Q[i][1] + P[i][2]*Q[i][2] IN ISum(f, 1, N)
Crs(P, Q) == LET f(i) == P[i][1]*Q[i][2] - P[i][2]*Q[i][1] IN ISum(f, 1, N)
Nrm2(P) == Dot(P, P)
Centroid(P) == <<Norm(SumK(P,1), N), Norm(SumK(P,2), N)>>
Zero2 == <<Z0, Z0>>
I2 == <<<<O1, Z0>>, <<Z0, O1>>>>
\* correlation sum_i q_i p_i^T = [[a, b], [c, d]]
Ca(P,Q) == LET f(i) == Q[i][1]*P[i][1] IN ISum(f, 1, N)
Cb(P,Q) == LET f(i) == Q[i][1]*P[i][2] IN ISum(f, 1, N)
Cc(P,Q) == LET f(i) == Q[i][2]*P[i][1] IN ISum(f, 1, N)
Cd(P,Q) == LET f(i) == Q[i][2]*P[i][2] IN ISum(f, 1, N)
DetCorr(P,Q) == Ca(P,Q)*Cd(P,Q) - Cb(P,Q)*Cc(P,Q)
Red(x, y) == LET g == Gcd(Abs(x), Abs(y)) IN IF g = 0 THEN <<0, 0>> ELSE <<x \div g, y \div g>>
UnitOK(x, y) == LET r == Red(x, y) n == r[1]*r[1] + r[2]*r[2] IN n > 0 /\ IsSq(n)
Unit(x, y) == LET r == Red(x, y) h == ISqrt(r[1]*r[1] + r[2]*r[2]) IN <<Norm(r[1], h), Norm(r[2], h)>>
\* least-squares rotation of P onto Q: (cos, sin) = (Dot, Crs)/norm ; optimum over reflections: (a - d, b + c)/norm
UseMirror(P, Q, mirror) == mirror /\ DetCorr(P, Q) < 0
RotOK(P, Q, mirror) == /\ DetCorr(P, Q) # 0
                       /\ IF UseMirror(P, Q, mirror) THEN UnitOK(Ca(P,Q) - Cd(P,Q), Cb(P,Q) + Cc(P,Q)) ELSE UnitOK(Dot(P,Q), Crs(P,Q))
RotOf(P, Q, mirror) == IF UseMirror(P, Q, mirror)
                       THEN LET u == Unit(Ca(P,Q) - Cd(P,Q), Cb(P,Q) + Cc(P,Q)) IN <<<<u[1], u[2]>>, <<u[2], RNeg(u[1])>>>>
                       ELSE LET u == Unit(Dot(P,Q), Crs(P,Q)) IN <<<<u[1], RNeg(u[2])>>, <<u[2], u[1]>>>>
\* affine: normal equations  M = (B A^T)(A A^T)^-1 with A, B the homogeneous 3 x N point matrices
HRow(P, r) == [i \in 1..N |-> IF r = 3 THEN 1 ELSE P[i][r]]
Gram(P, Q) == [r \in 1..3 |-> [c \in 1..3 |-> LET f(i) == HRow(P, r)[i] * HRow(Q, c)[i] IN R(ISum(f, 1, N))]]
AffM(T) == MMul(Gram(T, Src), Inv(Gram(Src, Src)))
Fit(A, k2, cS, cT) == [A |-> A, k2 |-> k2, cS |-> cS, cT |-> cT]
Sym(v) == [sym |-> v]                 \* piecewise affine / thin-plate spline: uninterpreted, identified by the target value
IsSymCfg(c) == c \in {"pwa", "tps", "tps_r2logr", "tps_msv"}
Mirror(c) == c \in {"rotation_m", "similarity_m"}
OK(c, T) == CASE c \in {"rotation", "rotation_m"} -> RotOK(Src, T, Mirror(c))
              [] c \in {"similarity", "similarity_m"} -> Nrm2(Cen(T)) > 0 /\ RotOK(Cen(Src), Cen(T), Mirror(c))
              [] c \in {"similarity_norot", "similarity_norot_m", "uniformscale"} -> Nrm2(Cen(T)) > 0
              [] OTHER -> TRUE
Build(c, T) ==
   CASE c = "translation" -> Fit(I2, O1, Centroid(Src), Centroid(T))
     [] c = "uniformscale" -> Fit(I2, Norm(Nrm2(Cen(T)), Nrm2(Cen(Src))), Zero2, Zero2)
     [] c \in {"rotation", "rotation_m"} -> Fit(RotOf(Src, T, Mirror(c)), O1, Zero2, Zero2)
     [] c \in {"similarity", "similarity_m"} -> Fit(RotOf(Cen(Src), Cen(T), Mirror(c)), Norm(Nrm2(Cen(T)), Nrm2(Cen(Src))), Centroid(Src), Centroid(T))
     \* (without the rotation step there is nothing to mirror: allow_mirror changes nothing when rotation is off)
     [] c \in {"similarity_norot", "similarity_norot_m"} -> Fit(I2, Norm(Nrm2(Cen(T)), Nrm2(Cen(Src))), Centroid(Src), Centroid(T))
     [] c = "affine" -> LET M == AffM(T) IN Fit(<<<<M[1][1], M[1][2]>>, <<M[2][1], M[2][2]>>>>, O1, Zero2, <<M[1][3], M[2][3]>>)
\* residual of a fit against a target value:  Err^2 = e0 + e1 * sqrt(k2)
U(f, i) == LET x == RSub(R(Src[i][1]), f.cS[1]) y == RSub(R(Src[i][2]), f.cS[2]) IN
           <<RAdd(RMul(f.A[1][1], x), RMul(f.A[1][2], y)), RAdd(RMul(f.A[2][1], x), RMul(f.A[2][2], y))>>
W(f, T, i) == <<RSub(f.cT[1], R(T[i][1])), RSub(f.cT[2], R(T[i][2]))>>
Err(f, T) == LET uu(i) == RAdd(RSq(U(f,i)[1]), RSq(U(f,i)[2]))
                 ww(i) == RAdd(RSq(W(f,T,i)[1]), RSq(W(f,T,i)[2]))
                 uw(i) == RAdd(RMul(U(f,i)[1], W(f,T,i)[1]), RMul(U(f,i)[2], W(f,T,i)[2]))
             IN [e0 |-> RAdd(RMul(f.k2, RSum(uu, 1, N)), RSum(ww, 1, N)), e1 |-> RMul(R(2), RSum(uw, 1, N))]
\* ---- state machine ------------------------------------------------------------------------------
GoodObjs == {1, 2}
BadObjs == {3, 4, 5}         \* 3: a point cloud with one point fewer; 4: a 3-D point cloud; 5: other point count AND other
                             \*    dimension with the same number of coordinates in total (N/2 points in 4-D)
FitFor(c, v) == IF IsSymCfg(c) THEN Sym(v) ELSE Build(c, Targets[v])
ErrFor(c, f, v) == IF IsSymCfg(c) THEN [e0 |-> Z0, e1 |-> Z0] ELSE Err(f, Targets[v])
\* current content of the target an alignment holds: the caller's object (shared by design), or - for a copy of a
\* warp, whose generic copy() duplicates the end points - a private point set
TVal(x, vl) == IF x.tobj = 0 THEN x.pval ELSE vl[x.tobj]
View(a, vl) == [i \in 1..Len(a) |-> [cfg |-> a[i].cfg, tobj |-> a[i].tobj, tval |-> TVal(a[i], vl), fit |-> a[i].fit, fitval |-> a[i].fitval, pert |-> a[i].pert,
                                      err |-> IF a[i].pert THEN [e0 |-> Z0, e1 |-> Z0] ELSE ErrFor(a[i].cfg, a[i].fit, TVal(a[i], vl))]]
Rec(op, a, o, v, err) == [op |-> op, a |-> a, o |-> o, v |-> v, err |-> err, als |-> View(als', vals'), vals |-> vals']
Init == \E c \in Configs, v1 \in DOMAIN Targets, v2 \in DOMAIN Targets :
          /\ v1 # v2 /\ OK(c, Targets[v1])
          /\ (PairAll \/ v2 = (v1 % Len(Targets)) + 1)
          /\ vals = <<v1, v2>>
          /\ als = <<[cfg |-> c, tobj |-> 1, pval |-> 0, fit |-> FitFor(c, v1), fitval |-> v1, pert |-> FALSE]>>
          /\ hist = <<[op |-> "build", a |-> 1, o |-> 1, v |-> v1, err |-> "", als |-> View(als, vals), vals |-> vals]>>
SetTarget(a, o) ==
   /\ Len(hist) < D
   /\ IF o \in BadObjs
      THEN UNCHANGED <<vals, als>> /\ hist' = Append(hist, Rec("set_target", a, o, 0, "ValueError"))
      ELSE /\ OK(als[a].cfg, Targets[vals[o]])
           /\ als' = [als EXCEPT ![a].tobj = o, ![a].fit = FitFor(als[a].cfg, vals[o]), ![a].fitval = vals[o], ![a].pert = FALSE]
           /\ UNCHANGED vals
           /\ hist' = Append(hist, Rec("set_target", a, o, vals[o], ""))
\* the caller overwrites the coordinates of one of its own target arrays in place
Edit(o, v) == /\ Len(hist) < D /\ v # vals[o]
              /\ vals' = [vals EXCEPT ![o] = v] /\ UNCHANGED als
              /\ hist' = Append(hist, Rec("edit", 0, o, v, ""))
CopyAl(a) == /\ Len(hist) < D /\ Len(als) < MaxAls
             /\ als' = Append(als, IF IsSymCfg(als[a].cfg) THEN [als[a] EXCEPT !.tobj = 0, !.pval = TVal(als[a], vals)] ELSE als[a])
             /\ UNCHANGED vals
             /\ hist' = Append(hist, Rec("copy", a, 0, 0, ""))
\* the parameters of a (homogeneous-family) alignment are overwritten through from_vector_inplace: it is no longer the fit of
\* anything and owns a new target (its aligned source) - until the next set_target, which must make it a fresh fit again
\* "whatever happened before" (the model keeps no trace of the perturbed parameters: they must not matter)
Perturb(a) == /\ Len(hist) < D /\ WithPerturb /\ ~IsSymCfg(als[a].cfg) /\ ~als[a].pert
              \* (2-D rotations have no parameter vector in menpo: their parameters are overwritten through set_rotation_matrix -
              \*  with an improper matrix, the worst case for the "rotations are proper unless mirroring was allowed" clause)
              /\ als' = [als EXCEPT ![a].pert = TRUE, ![a].tobj = 0, ![a].pval = 0]
              /\ UNCHANGED vals
              /\ hist' = Append(hist, Rec("perturb", a, 0, 0, ""))
\* pseudoinverse (C04): an observation - nothing changes; the inverse must undo the CURRENT fit from both sides and have
\* the current end points exchanged, however often the alignment was retargeted before
Pinv(a) == /\ Len(hist) < D /\ UNCHANGED <<vals, als>>
           /\ hist' = Append(hist, Rec("pinv", a, 0, 0, ""))
Next == \/ \E a \in 1..Len(als) : (WithPinv /\ Pinv(a)) \/ Perturb(a)
        \/ \E a \in 1..Len(als), o \in GoodObjs \cup BadObjs : SetTarget(a, o)
        \/ \E o \in GoodObjs, v \in EditVals : Edit(o, v)
        \/ \E a \in 1..Len(als) : CopyAl(a)
Spec == Init /\ [][Next]_vars
\* ---- properties --------------------------------------------------------------------------------------
\* C08: whatever happened before, the state is the fresh fit to the value the alignment was last (re)targeted to
HistoryIndependent == \A a \in 1..Len(als) : ~als[a].pert => als[a].fit = FitFor(als[a].cfg, als[a].fitval)
AfterSetTargetInSync == (hist # <<>> /\ hist[Len(hist)].op = "set_target" /\ hist[Len(hist)].err = "") =>
                           LET a == hist[Len(hist)].a IN als[a].tobj # 0 /\ als[a].fitval = vals[als[a].tobj]
BadTargetRejected == [][ (hist' # hist /\ hist'[Len(hist')].err # "") => UNCHANGED <<vals, als>> ]_vars
CopiesIndependent == [][ (hist' # hist /\ hist'[Len(hist')].op = "set_target") =>
                           \A b \in 1..Len(als) : b # hist'[Len(hist')].a => als'[b] = als[b] ]_vars
\* C07 (design-level sanity of the closed forms)
LSConfigs == {"translation", "rotation", "affine"}
RLeq(x, y) == ~RLt(y, x)
Optimal == \A a \in 1..Len(als) : (als[a].cfg \in LSConfigs) =>
              LET T == Targets[als[a].fitval] IN
              \A t \in DOMAIN Targets : OK(als[a].cfg, Targets[t]) =>
                 LET mine == Err(als[a].fit, T) other == Err(Build(als[a].cfg, Targets[t]), T) IN
                 RLeq(RAdd(mine.e0, mine.e1), RAdd(other.e0, other.e1))                       \* k2 = 1 for these classes
\* rotations are proper unless mirroring was allowed; similarity / scale reproduce centroid and size exactly
Det2(A) == RSub(RMul(A[1][1], A[2][2]), RMul(A[1][2], A[2][1]))
ProperUnlessMirror == \A a \in 1..Len(als) : (~IsSymCfg(als[a].cfg) /\ als[a].cfg \notin {"affine"} /\ ~Mirror(als[a].cfg)) => Det2(als[a].fit.A) = O1
Orthogonal == \A a \in 1..Len(als) : (~IsSymCfg(als[a].cfg) /\ als[a].cfg # "affine") =>
                 LET A == als[a].fit.A IN RAdd(RSq(A[1][1]), RSq(A[2][1])) = O1 /\ RAdd(RSq(A[1][2]), RSq(A[2][2])) = O1
                                          /\ RAdd(RMul(A[1][1], A[1][2]), RMul(A[2][1], A[2][2])) = Z0
SizeExact == \A a \in 1..Len(als) : (als[a].cfg \in {"similarity", "similarity_m", "similarity_norot", "similarity_norot_m"}) =>
                 LET f == als[a].fit T == Targets[als[a].fitval]
                     uu(i) == RAdd(RSq(U(f,i)[1]), RSq(U(f,i)[2])) IN
                 /\ f.cT = Centroid(T)
                 /\ RMul(f.k2, RSum(uu, 1, N)) = Norm(Nrm2(Cen(T)), N * N)
\* complete-graph mode (VIEW NoHist, no depth bound, one initial state per configuration): every reachable <<vals, als>>;
\* the history-phrased invariant is checked in its step form on every transition; one history per transition is emitted
NoHist == <<vals, als>>
InitOne == \E c \in Configs :
          LET v1 == CHOOSE v \in DOMAIN Targets : OK(c, Targets[v]) /\ \A w \in DOMAIN Targets : OK(c, Targets[w]) => v <= w
              v2 == (v1 % Len(Targets)) + 1 IN
          /\ vals = <<v1, v2>>
          /\ als = <<[cfg |-> c, tobj |-> 1, pval |-> 0, fit |-> FitFor(c, v1), fitval |-> v1, pert |-> FALSE]>>
          /\ hist = <<[op |-> "build", a |-> 1, o |-> 1, v |-> v1, err |-> "", als |-> View(als, vals), vals |-> vals]>>
SpecOne == InitOne /\ [][Next]_vars
AfterSetTargetInSyncStep == [][ (hist' # hist /\ hist'[Len(hist')].op = "set_target" /\ hist'[Len(hist')].err = "") =>
                                  LET a == hist'[Len(hist')].a IN als'[a].tobj # 0 /\ als'[a].fitval = vals'[als'[a].tobj] ]_vars
EmitTrans == CSVWrite("%1$s", <<ToJson(hist')>>, IOEnv.OUT_FILE)
Emit == (Len(hist) = D) => CSVWrite("%1$s", <<ToJson(hist)>>, IOEnv.OUT_FILE)
EmitInit == (Len(hist) = 1) => CSVWrite("%1$s", <<ToJson([src |-> Src, targets |-> Targets])>>, IOEnv.OUT_FILE)
=======================================================================
