SPECIFICATION Spec
CONSTANTS
  Names <- N3
  KindOf <- KindC
  BadName = "q.xyz"
  Objs = {1, 2}
  Spellings <- AllSp
  D = 3
  LooseRefusal = FALSE
INVARIANT LastAcceptedWins
INVARIANT NoBadFiles
INVARIANT ImportSeesLastExport
INVARIANT Emit
PROPERTY RefusedExportChangesNothing
