---------------------------- MODULE TransCases ----------------------------
(* One-shot specification of the value-level conventions of menpo's homogeneous transforms:
   parameter vectors (as_vector / from_vector, C05), exact inverses in 3-D (C04) and the
   convenience constructors (C20).  Every case is an initial state; Next emits the case together
   with everything the specification predicts about it; the laws below are checked by TLC on the
   model (e.g. FromVec o AsVec = id, Rot3Dz restricted to the plane = Rot2D). *)
EXTENDS Mat, TLC, Json, CSV, IOUtils
CONSTANTS Kinds,         \* which families of cases to enumerate
          Wide           \* BOOLEAN: larger pools (thorough tier)
VARIABLES case, done
R(n) == <<n,1>>
Q(a,b) == Norm(a,b)
\* ================= parameterisations =====================================================
Col(M, rows, cols) == \* column-major flattening of the top `rows` rows of M - I
   [k \in 1..(rows*cols) |-> LET i == ((k-1) % rows) + 1 j == ((k-1) \div rows) + 1 IN
                             RSub(M[i][j], IF i = j THEN O1 ELSE Z0)]
RowMajor(M) == LET n == Len(M) IN [k \in 1..(n*n) |-> M[((k-1) \div n) + 1][((k-1) % n) + 1]]
\* quaternion <<w,x,y,z>> (rational, unit) -> rotation matrix
QuatM(q) == LET w == q[1] x == q[2] y == q[3] z == q[4]
                two == R(2)
                e(a,b) == RMul(two, RMul(a,b)) IN
   M4(<< <<RSub(O1, RAdd(e(y,y), e(z,z))), RSub(e(x,y), e(z,w)), RAdd(e(x,z), e(y,w))>>,
         <<RAdd(e(x,y), e(z,w)), RSub(O1, RAdd(e(x,x), e(z,z))), RSub(e(y,z), e(x,w))>>,
         <<RSub(e(x,z), e(y,w)), RAdd(e(y,z), e(x,w)), RSub(O1, RAdd(e(x,x), e(y,y)))>> >>, T0)
Canon(q) == IF q[1][1] < 0 THEN [i \in 1..4 |-> RNeg(q[i])] ELSE q
AsVec(cls, d, M, q) ==
  CASE cls = "Homogeneous"     -> RowMajor(M)
    [] cls = "Affine"          -> Col(M, d, d+1)
    [] cls = "Similarity"      -> <<RSub(M[1][1],O1), M[2][1], M[1][3], M[2][3]>>      \* 2-D only: [a, b, tx, ty]
    [] cls = "Translation"     -> [i \in 1..d |-> M[i][d+1]]
    [] cls = "NonUniformScale" -> [i \in 1..d |-> M[i][i]]
    [] cls = "UniformScale"    -> <<M[1][1]>>
    [] cls = "Rotation"        -> Canon(q)                                             \* 3-D only
NParams(cls, d) == CASE cls = "Homogeneous" -> (d+1)*(d+1) [] cls = "Affine" -> d*(d+1) [] cls = "Similarity" -> 4
                     [] cls = "Translation" -> d [] cls = "NonUniformScale" -> d [] cls = "UniformScale" -> 1 [] cls = "Rotation" -> 4
FromVec(cls, d, v) ==
  CASE cls = "Homogeneous"     -> [i \in 1..(d+1) |-> [j \in 1..(d+1) |-> v[(i-1)*(d+1) + j]]]
    [] cls = "Affine"          -> [i \in 1..(d+1) |-> [j \in 1..(d+1) |->
                                     IF i = d+1 THEN (IF j = d+1 THEN O1 ELSE Z0)
                                     ELSE RAdd(v[(j-1)*d + i], IF i = j THEN O1 ELSE Z0)]]
    [] cls = "Similarity"      -> M3(RAdd(v[1],O1), RNeg(v[2]), v[3], v[2], RAdd(v[1],O1), v[4])
    [] cls = "Translation"     -> [i \in 1..(d+1) |-> [j \in 1..(d+1) |-> IF i = j THEN O1 ELSE IF j = d+1 THEN v[i] ELSE Z0]]
    [] cls = "NonUniformScale" -> [i \in 1..(d+1) |-> [j \in 1..(d+1) |-> IF i # j THEN Z0 ELSE IF i = d+1 THEN O1 ELSE v[i]]]
    [] cls = "UniformScale"    -> [i \in 1..(d+1) |-> [j \in 1..(d+1) |-> IF i # j THEN Z0 ELSE IF i = d+1 THEN O1 ELSE v[1]]]
    [] cls = "Rotation"        -> QuatM(v)
\* ================= pools =================================================================
Q1 == <<Q(1,5), Q(2,5), Q(2,5), Q(4,5)>>          \* (1,2,2,4)/5
Q2 == <<Q(-2,3), Q(1,3), Q(2,3), Z0>>             \* negative w: canonical form flips the sign
Q3 == <<Q(1,2), Q(1,2), Q(-1,2), Q(1,2)>>
Q4 == <<Q(2,7), Q(-3,7), Q(6,7), Z0>>
Q5 == <<Q(1,9), Q(4,9), Q(-8,9), Z0>>
Q6 == <<Q(-2,11), Q(6,11), Q(9,11), Z0>>
Q7 == <<Q(2,15), Q(5,15), Q(-14,15), Z0>>
Q8 == <<Q(1,2), Q(-1,2), Q(-1,2), Q(-1,2)>>
\* general axes with components of either sign (the axis / angle clause needs rotations that are not about a coordinate axis)
Q9 == <<Q(2,3), Q(-1,3), Q(-2,3), Z0>>   Q10 == <<Q(4,9), Q(1,9), Q(-8,9), Z0>>
Q11 == <<Q(2,5), Q(-1,5), Q(-2,5), Q(4,5)>>   Q12 == <<Q(6,11), Q(2,11), Q(-9,11), Z0>>
Q13 == <<Q(4,7), Q(-2,7), Q(5,7), Q(-2,7)>>   Q14 == <<Q(1,3), Q(2,3), Q(-2,3), Z0>>
Quats == {Q1, Q2, Q3, Q4, Q5, Q6, Q7, Q8, Q11, Q13, <<Q(2,3), Q(-1,3), Q(-2,3), Z0>>, <<Q(1,3), Q(-2,3), Q(2,3), Z0>>, <<Q(4,9), Q(1,9), Q(-8,9), Z0>>}
Pool2 == [ Homogeneous |-> {H3(R(1),R(2),R(0), R(0),R(1),R(1), Q(1,10),R(0),R(1)), H3(R(2),R(0),R(1), R(1),R(1),R(0), R(0),Q(1,4),R(2))},
           Affine |-> {M3(R(2),R(1),R(3), R(-1),R(3),R(0)), M3(Q(1,2),R(2),R(-1), R(0),R(4),Q(3,2))},
           Similarity |-> {M3(Q(6,5),Q(-8,5),R(1), Q(8,5),Q(6,5),R(-2)), M3(R(0),R(-3),R(2), R(3),R(0),R(5))},
           Translation |-> {Tr2(R(2),R(-3)), Tr2(Q(1,2),R(7))},
           NonUniformScale |-> {Sc2(R(2),Q(1,2)), Sc2(R(3),R(5)), Sc2(R(-1),R(2)), Sc2(Q(-1,2),R(-3))},      \* axis flips are legal scales
           UniformScale |-> {Sc2(Q(1,2),Q(1,2)), Sc2(R(3),R(3)), Sc2(R(-2),R(-2))} ]
L3a == <<<<R(1),R(2),R(0)>>,<<R(0),R(1),R(1)>>,<<R(1),R(0),R(2)>>>>         \* det 4
L3b == <<<<R(2),R(0),R(1)>>,<<R(1),Q(1,2),R(0)>>,<<R(0),R(1),R(1)>>>>       \* det 2
H4a == << <<R(1),R(2),R(0),R(1)>>, <<R(0),R(1),R(1),R(0)>>, <<R(1),R(0),R(2),R(-1)>>, <<Q(1,10),R(0),R(0),R(1)>> >>
Pool3 == [ Homogeneous |-> {H4a},
           Affine |-> {M4(L3a, <<R(1),R(-2),R(3)>>), M4(L3b, <<Z0,Q(1,2),R(4)>>)},
           Translation |-> {Tr3(<<R(2),R(-3),Q(1,2)>>)},
           NonUniformScale |-> {Sc3(<<R(2),Q(1,2),R(3)>>), Sc3(<<R(2),R(-1),Q(1,2)>>)},
           UniformScale |-> {Sc3(<<Q(1,2),Q(1,2),Q(1,2)>>), Sc3(<<R(3),R(3),R(3)>>), Sc3(<<Q(-1,2),Q(-1,2),Q(-1,2)>>)},
           Similarity |-> {M4(MScale(R(2), Lin(RotZ(Q(3,5),Q(4,5)))), <<R(1),R(0),R(-1)>>)} ]
Src2 == << <<R(0),R(0)>>, <<R(3),R(1)>>, <<R(1),R(4)>>, <<R(-2),R(2)>> >>
Src3 == << <<R(0),R(0),R(1)>>, <<R(3),R(1),R(0)>>, <<R(1),R(4),R(2)>>, <<R(-2),R(2),R(-1)>>, <<R(1),R(-1),R(3)>> >>
\* Pythagorean angles <<cos, sin>> in all four quadrants
AnglesBase == {<<Q(3,5),Q(4,5)>>, <<Q(-3,5),Q(4,5)>>, <<Q(-4,5),Q(-3,5)>>, <<Q(5,13),Q(-12,13)>>, <<Z0,O1>>, <<R(-1),Z0>>, <<Z0,R(-1)>>, <<Q(12,13),Q(5,13)>>}
AnglesMore == {<<Q(7,25),Q(24,25)>>, <<Q(-24,25),Q(7,25)>>, <<Q(-7,25),Q(-24,25)>>, <<Q(24,25),Q(-7,25)>>, <<Q(8,17),Q(15,17)>>, <<Q(-15,17),Q(-8,17)>>,
               <<Q(20,29),Q(-21,29)>>, <<Q(-20,29),Q(21,29)>>, <<Q(99,101),Q(20,101)>>, <<Q(-99,101),Q(-20,101)>>, <<O1,Z0>>}
Angles == IF Wide THEN AnglesBase \cup AnglesMore ELSE AnglesBase
\* ================= cases ==================================================================
VecCases(d, P) == UNION {{[kind |-> "vec", d |-> d, cls |-> c, M |-> m, q |-> <<>>] : m \in P[c]} : c \in DOMAIN P}
RotVecCases == {[kind |-> "vec", d |-> 3, cls |-> "Rotation", M |-> QuatM(q), q |-> q] : q \in Quats}
\* alignment variants: from_vector must re-synchronise the target with the new state
AlCases == {[kind |-> "alvec", d |-> 2, cls |-> c, M |-> m, v |-> AsVec(c, 2, m2, <<>>), src |-> Src2]
              : <<c, m, m2>> \in {<<c, m, m2>> \in (DOMAIN Pool2 \ {"Homogeneous", "NonUniformScale"}) \X (UNION {Pool2[x] : x \in DOMAIN Pool2}) \X (UNION {Pool2[x] : x \in DOMAIN Pool2}) :
                                   m \in Pool2[c] /\ m2 \in Pool2[c]
                                   \* the scale alignment is fitted from norms: only a positive scale is recovered at construction;
                                   \* a negative one is reachable through from_vector (m2) only
                                   /\ (c = "UniformScale" => RLt(Z0, m[1][1]))}}
      \cup {[kind |-> "alvec", d |-> 3, cls |-> "Rotation", M |-> QuatM(q), v |-> Canon(q2), src |-> Src3] : q \in {Q1, Q3}, q2 \in Quats}
Rot2Cases == {[kind |-> "rot2", cs |-> a, turns |-> k, degrees |-> dg] : a \in Angles, k \in (IF Wide THEN {-2, -1, 0, 1, 3} ELSE {-1, 0, 1}), dg \in BOOLEAN}
Rot3Cases == {[kind |-> "rot3", axis |-> ax, cs |-> a, turns |-> k, degrees |-> dg] : ax \in {"x","y","z"}, a \in Angles, k \in {0, 1}, dg \in BOOLEAN}
QuatCases == {[kind |-> "quat", q |-> q] : q \in Quats}
AboutCases == {[kind |-> "about", obj |-> o, t |-> t] : o \in {"pointcloud", "trimesh", "image"},
                 t \in {Sc2(R(2),R(2)), Sc2(Q(1,2),Q(1,2)), Sc2(R(2),R(3)), Sc2(Q(1,2),R(-2)), Rot2(Q(3,5),Q(4,5)), Rot2(Z0,R(-1)), M3(O1,R(2),Z0, Z0,O1,Z0), M3(O1,R(1),Z0, R(-1),O1,Z0), M3(O1,Q(-1,2),Z0, Q(-3,2),O1,Z0)}}
ScaleCases == {[kind |-> "scalefac", factors |-> f, ndims |-> n] : f \in {<<R(2),R(2)>>, <<R(2),R(3)>>, <<Q(1,2),Q(1,2),Q(1,2)>>, <<R(1),R(2),R(1)>>, <<R(2),Z0>>, <<Z0,Z0,Z0>>}, n \in {0}}
               \cup {[kind |-> "scalefac", factors |-> <<f>>, ndims |-> n] : f \in {R(2), Q(1,4), Z0}, n \in {2, 3}}
TcCases == {[kind |-> "tcoords", shape |-> <<h, w>>] : h \in 2..(IF Wide THEN 12 ELSE 6), w \in 2..(IF Wide THEN 12 ELSE 6)}
           \* large, nearly square images: 1/(h-1) and 1/(w-1) differ by less than any "close enough" test would notice
           \cup {[kind |-> "tcoords", shape |-> sh] : sh \in {<<12001, 12002>>, <<10000, 10001>>, <<20001, 20003>>, <<4096, 4097>>}}
Inv3Cases == {[kind |-> "inv3", cls |-> c, M |-> m] : <<c, m>> \in {<<c, m>> \in (DOMAIN Pool3) \X (UNION {Pool3[x] : x \in DOMAIN Pool3}) : m \in Pool3[c]}}
             \cup {[kind |-> "inv3", cls |-> "Rotation", M |-> QuatM(q)] : q \in Quats}
\* decomposition of affine-family members (C03): rotation, scale, rotation, translation (numerically an SVD: uninterpreted)
\* must recompose to the transform; the discrete classes decompose into a copy of themselves
DecompPool(d) == LET P == IF d = 2 THEN Pool2 ELSE Pool3 IN UNION {{[kind |-> "decompose", d |-> d, cls |-> c, M |-> m] : m \in P[c]} : c \in DOMAIN P \ {"Homogeneous"}}
DecompCases == DecompPool(2) \cup DecompPool(3)
                 \cup {[kind |-> "decompose", d |-> 2, cls |-> "Affine", M |-> m] : m \in {M3(R(1),R(2),Z0, R(3),R(1),Z0), M3(Z0,O1,R(2), O1,Z0,R(-1)), M3(R(-2),Z0,Z0, Z0,R(3),R(1))}}     \* negative determinants
                 \cup {[kind |-> "decompose", d |-> 2, cls |-> "Affine", M |-> m] : m \in {M3(R(2),Q(1,2),Z0, Z0,R(-1),Z0), M3(R(1),R(1),R(2), R(2),R(-1),Z0)}}
                 \* mirrored (negative determinant) affines in 3-D: generic, a pure axis flip, a flip composed with a shear
                 \cup {[kind |-> "decompose", d |-> 3, cls |-> "Affine", M |-> m] : m \in {
                          M4(<<<<R(1),R(2),Z0>>, <<Z0,R(1),R(1)>>, <<R(1),Z0,R(-2)>>>>, <<R(1),R(-2),R(3)>>),
                          M4(<<<<R(1),Z0,Z0>>, <<Z0,R(1),Z0>>, <<Z0,Z0,R(-1)>>>>, <<Z0,Z0,Z0>>),
                          M4(<<<<R(-2),R(1),Z0>>, <<Z0,R(1),Q(1,2)>>, <<Z0,Z0,R(3)>>>>, <<R(1),R(1),R(1)>>),
                          M4(<<<<Z0,R(1),Z0>>, <<R(1),Z0,Z0>>, <<Q(1,2),Z0,R(2)>>>>, <<Z0,R(2),Z0>>)}}
                 \cup {[kind |-> "decompose", d |-> 2, cls |-> "Rotation", M |-> Rot2(Q(3,5),Q(4,5))], [kind |-> "decompose", d |-> 3, cls |-> "Rotation", M |-> RotX(Q(3,5),Q(4,5))]}
Discrete(cls) == cls \in {"Rotation", "Translation", "UniformScale", "NonUniformScale"}
\* products of projective members whose matrix is NOT in the usual normal form: bottom-right entry zero, negative or 2 (a
\* homogeneous matrix is defined up to a non-zero factor; zero times anything is not a transform)
HProdPairs == { <<H3(O1,Z0,Z0, Z0,O1,Z0, O1,Z0,O1), Tr2(R(-1),Z0)>>,          \* corner of the product: 0
                <<H3(O1,Z0,Z0, Z0,O1,Z0, O1,Z0,O1), Tr2(R(-3),R(2))>>,        \* corner: -2
                <<H3(O1,R(2),Z0, Z0,O1,O1, Z0,Z0,R(2)), Tr2(R(1),R(1))>>,     \* corner: 2
                <<H3(O1,Z0,Z0, Z0,O1,Z0, Z0,Q(1,2),O1), H3(O1,Z0,R(1), Z0,O1,R(-2), Z0,Z0,O1)>> }   \* corner: 0
HProdCases == {[kind |-> "hprod", d |-> 2, cls |-> "Homogeneous", M |-> p[1], M2 |-> p[2]] : p \in HProdPairs}
Cases == (IF "decompose" \in Kinds THEN DecompCases \cup HProdCases ELSE {}) \cup (IF "vec" \in Kinds THEN VecCases(2, Pool2) \cup VecCases(3, [c \in DOMAIN Pool3 \ {"Similarity"} |-> Pool3[c]]) \cup RotVecCases ELSE {})
         \cup (IF "alvec" \in Kinds THEN AlCases ELSE {})
         \cup (IF "rot2" \in Kinds THEN Rot2Cases ELSE {}) \cup (IF "rot3" \in Kinds THEN Rot3Cases ELSE {})
         \cup (IF "quat" \in Kinds THEN QuatCases ELSE {}) \cup (IF "about" \in Kinds THEN AboutCases ELSE {})
         \cup (IF "scalefac" \in Kinds THEN ScaleCases ELSE {}) \cup (IF "tcoords" \in Kinds THEN TcCases ELSE {})
         \cup (IF "inv3" \in Kinds THEN Inv3Cases ELSE {})
\* ================= predictions ==========================================================
OtherVecs(c) == LET P == IF c.d = 2 THEN Pool2 ELSE Pool3 IN
                IF c.cls = "Rotation" THEN {Canon(q) : q \in Quats} ELSE {AsVec(c.cls, c.d, m, <<>>) : m \in P[c.cls]}
RotAxis(ax, a) == CASE ax = "x" -> RotX(a[1], a[2]) [] ax = "y" -> RotY(a[1], a[2]) [] OTHER -> RotZ(a[1], a[2])
\* centre of the pooled objects (point cloud / mesh: mean of the points; image: shape / 2)
ObjPts == << <<R(0),R(0)>>, <<R(4),R(0)>>, <<R(4),R(2)>>, <<R(0),R(6)>> >>
ObjCentre(o) == IF o = "image" THEN <<R(3), Q(7,2)>> ELSE <<R(2), R(2)>>          \* image shape (6, 7)
AboutM(o, t) == LET c == ObjCentre(o) IN MMul(Tr2(c[1], c[2]), MMul(t, Tr2(RNeg(c[1]), RNeg(c[2]))))
TcM(sh) == M3(Z0, R(-(sh[1]-1)), R(sh[1]-1), R(sh[2]-1), Z0, Z0)       \* (u, v) -> ((1 - v)(h - 1), u (w - 1))
AllEq(f) == \A i \in 1..Len(f) : f[i] = f[1]
HasZero(f) == \E i \in 1..Len(f) : f[i] = Z0
Out(c) ==
  CASE c.kind = "vec" -> [case |-> c, vec |-> AsVec(c.cls, c.d, c.M, c.q), n |-> NParams(c.cls, c.d),
                          others |-> {[v |-> v, M |-> FromVec(c.cls, c.d, v)] : v \in OtherVecs(c)}]
    [] c.kind = "alvec" -> LET M2 == FromVec(c.cls, c.d, c.v) IN
                           [case |-> c, tgt0 |-> ApplyPts(c.M, c.src), M2 |-> M2, tgt2 |-> ApplyPts(M2, c.src)]
    [] c.kind = "rot2" -> [case |-> c, M |-> Rot2(c.cs[1], c.cs[2])]
    [] c.kind = "rot3" -> [case |-> c, M |-> RotAxis(c.axis, c.cs)]
    [] c.kind = "quat" -> [case |-> c, M |-> QuatM(c.q), canon |-> Canon(c.q)]
    [] c.kind = "about" -> [case |-> c, centre |-> ObjCentre(c.obj), M |-> AboutM(c.obj, c.t), pts |-> ObjPts]
    [] c.kind = "scalefac" -> [case |-> c, err |-> HasZero(c.factors),
                               cls |-> IF c.ndims # 0 \/ AllEq(c.factors) THEN "UniformScale" ELSE "NonUniformScale"]
    [] c.kind = "tcoords" -> [case |-> c, M |-> TcM(c.shape), Minv |-> Inv(TcM(c.shape))]
    [] c.kind = "inv3" -> [case |-> c, inv |-> Inv(c.M)]
    \* a.compose_after(b) = a o b: matrix A B (b = the second matrix, applied first)
    [] c.kind = "hprod" -> [case |-> c, P |-> MMul(c.M, c.M2)]
    [] c.kind = "decompose" -> [case |-> c, discrete |-> Discrete(c.cls), n_parts |-> IF Discrete(c.cls) THEN 1 ELSE 4, det |-> Det(Lin(c.M))]
Init == case \in Cases /\ done = FALSE
Next == done = FALSE /\ done' = TRUE /\ case' = case /\ CSVWrite("%1$s", <<ToJson(Out(case))>>, IOEnv.OUT_FILE)
Spec == Init /\ [][Next]_<<case, done>>
\* ================= laws checked on the model ============================================
IsVec == case.kind = "vec"
RoundTrip == IsVec => FromVec(case.cls, case.d, AsVec(case.cls, case.d, case.M, case.q)) = case.M
VecRoundTrip == IsVec => \A v \in OtherVecs(case) : AsVec(case.cls, case.d, FromVec(case.cls, case.d, v), v) = v
Length == IsVec => Len(AsVec(case.cls, case.d, case.M, case.q)) = NParams(case.cls, case.d)
ClassHonest(cls, M) == CASE cls = "Affine" -> IsAffine(M) [] cls = "Similarity" -> IsSimilarity(M) [] cls = "Translation" -> IsTranslation(M)
                         [] cls = "NonUniformScale" -> IsNonUniformScale(M) [] cls = "UniformScale" -> IsUniformScale(M)
                         [] cls = "Rotation" -> IsRotation(M) [] OTHER -> TRUE
PoolHonest == (IsVec \/ case.kind \in {"inv3", "decompose"}) => ClassHonest(case.cls, case.M)
\* the products are invertible projective maps although their corner entry is not 1
HProdInvertible == case.kind = "hprod" => Det(MMul(case.M, case.M2)) # Z0
FromVecHonest == IsVec => \A v \in OtherVecs(case) : ClassHonest(case.cls, FromVec(case.cls, case.d, v))
QuatIsRotation == case.kind = "quat" => IsRotation(QuatM(case.q)) /\ QuatM(Canon(case.q)) = QuatM(case.q)
Inverse3 == case.kind = "inv3" => /\ MMul(Inv(case.M), case.M) = IdM(4) /\ MMul(case.M, Inv(case.M)) = IdM(4)
                                  /\ ClassHonest(case.cls, Inv(case.M))
\* conventions agree with each other
RotZIsRot2 == case.kind = "rot3" /\ case.axis = "z" =>
                LET M == RotAxis("z", case.cs) P == Rot2(case.cs[1], case.cs[2]) IN \A i, j \in 1..2 : M[i][j] = P[i][j]
RotationsAreRotations == (case.kind = "rot2" => IsRotation(Rot2(case.cs[1], case.cs[2]))) /\ (case.kind = "rot3" => IsRotation(RotAxis(case.axis, case.cs)))
AboutFixesCentre == case.kind = "about" =>
                LET c == ObjCentre(case.obj) M == AboutM(case.obj, case.t) IN
                /\ ApplyH(M, c) = c
                /\ \A k \in 1..Len(ObjPts) : LET p == ObjPts[k] v == <<RSub(p[1], c[1]), RSub(p[2], c[2])>> tv == ApplyH(case.t, v) IN
                      ApplyH(M, p) = <<RAdd(c[1], tv[1]), RAdd(c[2], tv[2])>>
TcCorners == case.kind = "tcoords" =>
                LET M == TcM(case.shape) h == case.shape[1] w == case.shape[2] IN
                /\ ApplyH(M, <<Z0, O1>>) = <<Z0, Z0>>                      \* (u=0, v=1): top-left pixel
                /\ ApplyH(M, <<O1, O1>>) = <<Z0, R(w-1)>>
                /\ ApplyH(M, <<Z0, Z0>>) = <<R(h-1), Z0>>
                /\ ApplyH(M, <<O1, Z0>>) = <<R(h-1), R(w-1)>>
                /\ MMul(M, Inv(M)) = IdM(3)
=======================================================================
