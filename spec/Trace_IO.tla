---------------------------- MODULE Trace_IO ----------------------------
(* Code -> spec: long random export / import / chdir histories recorded from the real menpo.io on a
   temporary directory tree.  Every logged call must be a step of IO.tla with the logged arguments
   and the logged outcome (exception class; for imports: WHICH pooled object came back). *)
EXTENDS IO
Traces == JsonDeserialize(IOEnv.TRACE_FILE)
VARIABLES tid, ln
tvars == <<vars, tid, ln>>
Ev == Traces[tid].events[ln]
TInit == /\ tid \in 1..Len(Traces) /\ ln = 1
         /\ fs = [k \in Keys |-> 0] /\ cwd = "A" /\ hist = <<>> /\ TLCSet(tid, 0)
Act == CASE Ev.op = "export" -> Export(Ev.name, Ev.obj, Ev.sp, Ev.dir, Ev.ow, Ev.ext)
         [] Ev.op = "import" -> Import(Ev.name, Ev.sp, Ev.dir)
         [] Ev.op = "chdir" -> Chdir(Ev.dir)
Last == hist'[Len(hist')]
TStep == /\ ln <= Len(Traces[tid].events)
         /\ Act
         /\ Last.err = Ev.err
         /\ (Ev.op = "import" => Last.obj = Ev.obj)      \* the object that came back is the last accepted export
         /\ ln' = ln + 1 /\ tid' = tid /\ TLCSet(tid, ln)
TSpec == TInit /\ [][TStep]_tvars
Report == IF \A t \in 1..Len(Traces) : TLCGet(t) = Len(Traces[t].events) THEN TRUE
          ELSE PrintT(<<"REJECTED", {<<t, TLCGet(t)>> : t \in {u \in 1..Len(Traces) : TLCGet(u) # Len(Traces[u].events)}}>>) /\ FALSE
=======================================================================
