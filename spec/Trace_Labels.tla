---------------------------- MODULE Trace_Labels ----------------------------
(* Code -> spec for the labeller clause of C15.  One event per predefined index-based labelling
   function, recorded from the real code on a TAGGED point set (every input point unique):
     [f, n_in, idx, masks, edges, untouched, commutes, rejects_wrong_size, same_for_all_input_kinds]
   idx[j] = index of the input point that output point j IS (-1: not an input point).
   The labeller contract: the output is an injective re-indexing of the input, every output point is
   labelled, edges join output points, the input is untouched, the function commutes with transforms
   of its input, wrong sizes are refused, arrays / point clouds / labelled graphs are treated alike. *)
EXTENDS Integers, Sequences, FiniteSets, TLC, Json, IOUtils
Events == JsonDeserialize(IOEnv.TRACE_FILE)
VARIABLES i, rej
NOut(e) == Len(e.idx)
Injective(e) == \A a, b \in 1..NOut(e) : a # b => e.idx[a] # e.idx[b]
InRange(e) == \A a \in 1..NOut(e) : e.idx[a] >= 0 /\ e.idx[a] < e.n_in
Covered(e) == \A a \in 1..NOut(e) : \E m \in 1..Len(e.masks) : e.masks[m][a]
MasksFit(e) == \A m \in 1..Len(e.masks) : Len(e.masks[m]) = NOut(e)
EdgesFit(e) == \A k \in 1..Len(e.edges) : e.edges[k][1] \in 0..(NOut(e)-1) /\ e.edges[k][2] \in 0..(NOut(e)-1)
LabelsDistinct(e) == \A a, b \in 1..Len(e.labels) : a # b => e.labels[a] # e.labels[b]
EventOK(e) == /\ NOut(e) > 0 /\ Injective(e) /\ InRange(e) /\ Covered(e) /\ MasksFit(e) /\ EdgesFit(e) /\ LabelsDistinct(e)
              /\ e.untouched /\ e.commutes /\ e.rejects_wrong_size /\ e.same_for_all_input_kinds
Failed(e) == {c \in {"nonempty", "injective", "in_range", "covered", "masks_fit", "edges_fit", "labels_distinct", "untouched", "commutes", "rejects_wrong_size", "same_for_all_input_kinds"} :
                CASE c = "nonempty" -> ~(NOut(e) > 0) [] c = "injective" -> ~Injective(e) [] c = "in_range" -> ~InRange(e)
                  [] c = "covered" -> ~Covered(e) [] c = "masks_fit" -> ~MasksFit(e) [] c = "edges_fit" -> ~EdgesFit(e)
                  [] c = "labels_distinct" -> ~LabelsDistinct(e) [] c = "untouched" -> ~e.untouched [] c = "commutes" -> ~e.commutes
                  [] c = "rejects_wrong_size" -> ~e.rejects_wrong_size [] OTHER -> ~e.same_for_all_input_kinds}
Init == i = 1 /\ rej = {} /\ TLCSet(1, {})
Next == /\ i <= Len(Events) /\ i' = i + 1
        /\ rej' = IF EventOK(Events[i]) THEN rej ELSE rej \cup {i}
        /\ (EventOK(Events[i]) \/ PrintT(<<"CLAUSES", i, Failed(Events[i])>>))
        /\ TLCSet(1, rej')
Spec == Init /\ [][Next]_<<i, rej>>
Report == IF TLCGet(1) = {} THEN TRUE
          ELSE PrintT(<<"REJECTED", {<<k, 0>> : k \in TLCGet(1)}>>) /\ FALSE
=============================================================================
