SPECIFICATION Spec
CONSTANTS
  NU = 4
  ND = 3
  NT = 5
  Kinds = {"ug", "dg", "tree", "grid"}
INVARIANT ReachConsistent
INVARIANT TreeIffUnique
INVARIANT TreeDepthIsDistance
INVARIANT PrimIsMST
INVARIANT GridIsLattice
INVARIANT PredefShapes
