SPECIFICATION Spec
CONSTANTS
  Wide = FALSE
  Kinds = {"decompose"}
INVARIANT RoundTrip
INVARIANT VecRoundTrip
INVARIANT Length
INVARIANT PoolHonest
INVARIANT FromVecHonest
INVARIANT QuatIsRotation
INVARIANT Inverse3
INVARIANT RotZIsRot2
INVARIANT RotationsAreRotations
INVARIANT AboutFixesCentre
INVARIANT TcCorners
INVARIANT HProdInvertible
