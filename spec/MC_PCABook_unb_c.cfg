SPECIFICATION Spec
CONSTANTS
  Spectrum <- SpecC
  Fracs <- FracsC
  D = 1000000
VIEW ViewNoHist
INVARIANT OrigConstant
INVARIANT Accounting
INVARIANT Consistent
INVARIANT TrimIsBuild
INVARIANT TieFree
ACTION_CONSTRAINT EmitTrans
