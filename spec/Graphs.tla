---------------------------- MODULE Graphs ----------------------------
(* Declarative reference definitions for the queries of menpo.shape.graph (property C14), evaluated
   by TLC for EVERY undirected graph on 1..NU vertices, EVERY directed graph on 1..ND vertices and
   EVERY rooted tree on 2..NT vertices (small-scope exhaustive).  One initial state per graph. *)
EXTENDS Integers, Sequences, FiniteSets, TLC, Json, CSV, IOUtils
CONSTANTS NU, ND, NT, Kinds
VARIABLES g, done
Vs(n) == 0..(n-1)
UPairs(n) == {<<a, b>> \in Vs(n) \X Vs(n) : a < b}
DPairs(n) == {<<a, b>> \in Vs(n) \X Vs(n) : a # b}
\* deterministic edge weights from {1, 2, 3, 5}
Wt(a, b) == LET lo == IF a < b THEN a ELSE b hi == IF a < b THEN b ELSE a k == (lo * 3 + hi * 5 + lo * hi) % 4 IN
            CASE k = 0 -> 1 [] k = 1 -> 2 [] k = 2 -> 3 [] OTHER -> 5
\* ---- generic (directed view): Succ(e, v) ------------------------------------------------------
SuccU(e, v, n) == {w \in Vs(n) : <<v, w>> \in e \/ <<w, v>> \in e}
SuccD(e, v, n) == {w \in Vs(n) : <<v, w>> \in e}
PredD(e, v, n) == {w \in Vs(n) : <<w, v>> \in e}
Succ(dir, e, v, n) == IF dir THEN SuccD(e, v, n) ELSE SuccU(e, v, n)
RECURSIVE ReachFrom(_, _, _, _)
ReachFrom(dir, e, S, n) == LET S2 == S \cup UNION {Succ(dir, e, v, n) : v \in S} IN IF S2 = S THEN S ELSE ReachFrom(dir, e, S2, n)
\* BFS distance (number of edges); -1 = unreachable
RECURSIVE BDist(_, _, _, _, _, _, _)
BDist(dir, e, frontier, seen, t, d, n) == IF t \in frontier THEN d
                                         ELSE LET nxt == (UNION {Succ(dir, e, v, n) : v \in frontier}) \ seen IN
                                              IF nxt = {} THEN -1 ELSE BDist(dir, e, nxt, seen \cup nxt, t, d + 1, n)
DistMat(dir, e, n) == [s \in Vs(n) |-> [t \in Vs(n) |-> BDist(dir, e, {s}, {s}, t, 0, n)]]
\* weighted shortest cost: Bellman-Ford relaxation n-1 times; Inf = 1000000
Inf == 1000000
Min2(a, b) == IF a < b THEN a ELSE b
RECURSIVE MinOver(_, _)
MinOver(f(_), S) == IF S = {} THEN Inf ELSE LET x == CHOOSE y \in S : TRUE IN Min2(f(x), MinOver(f, S \ {x}))
RECURSIVE Relax(_, _, _, _, _, _)
Relax(dir, e, s, dist, k, n) ==
   IF k = 0 THEN dist
   \* (TLCEval: TLC evaluates function constructors lazily; without it every round re-evaluates all earlier rounds)
   ELSE LET nd == TLCEval([t \in Vs(n) |-> LET inc == {u \in Vs(n) : t \in Succ(dir, e, u, n) /\ dist[u] < Inf}
                                       via(u) == dist[u] + Wt(u, t) IN Min2(dist[t], MinOver(via, inc))])
        IN IF nd = dist THEN dist ELSE Relax(dir, e, s, nd, k - 1, n)          \* (a fixed point is final)
WDistFrom(dir, e, s, n) == Relax(dir, e, s, [t \in Vs(n) |-> IF t = s THEN 0 ELSE Inf], n, n)
WDistMat(dir, e, n) == [s \in Vs(n) |-> LET D == TLCEval(WDistFrom(dir, e, s, n)) IN [t \in Vs(n) |-> IF D[t] >= Inf THEN -1 ELSE D[t]]]
\* number of simple paths from s to t (s # t)
RECURSIVE NPaths(_, _, _, _, _, _)
RECURSIVE SumOver(_, _)
SumOver(f(_), S) == IF S = {} THEN 0 ELSE LET x == CHOOSE y \in S : TRUE IN f(x) + SumOver(f, S \ {x})
NPaths(dir, e, s, t, visited, n) == IF s = t THEN 1
                                    ELSE LET nxt == Succ(dir, e, s, n) \ visited  cnt(v) == NPaths(dir, e, v, t, visited \cup {v}, n) IN SumOver(cnt, nxt)
PathCount(dir, e, n) == [s \in Vs(n) |-> [t \in Vs(n) |-> NPaths(dir, e, s, t, {s}, n)]]
\* ---- undirected --------------------------------------------------------------------------------
NComp(e, n) == Cardinality({ReachFrom(FALSE, e, {v}, n) : v \in Vs(n)})
HasCycleU(e, n) == Cardinality(e) > n - NComp(e, n)            \* a forest has |V| - #components edges
IsolatedU(e, n) == {v \in Vs(n) : SuccU(e, v, n) = {}}
\* minimum spanning tree weight: minimum over all spanning trees (connected graphs only)
IsSpanningTree(t, n) == Cardinality(t) = n - 1 /\ NComp(t, n) = 1
Weight(t) == LET w(p) == Wt(p[1], p[2]) IN SumOver(w, t)
MSTWeight(e, n) == IF NComp(e, n) # 1 THEN -1
                   ELSE LET ts == {t \in SUBSET e : IsSpanningTree(t, n)} w(t) == Weight(t) IN MinOver(w, ts)
\* induced subgraph with order-preserving renumbering
Renum(m, v) == Cardinality({u \in m : u < v})
Induced(e, m) == {<<Renum(m, p[1]), Renum(m, p[2])>> : p \in {q \in e : q[1] \in m /\ q[2] \in m}}
Masks(n) == (SUBSET Vs(n)) \ {{}}
\* queries are observers: a graph object answers every query as a function of its edges alone, whatever was asked before.
\* The adapter replays each order ("w": weighted, "u": hop-count shortest paths) on ONE object per order.
\* ("w" / "u": weighted / hop-count all-pairs distances and routes; "p": find_path between every pair; "m": a minimum spanning
\*  tree (undirected graphs); "q": the read-only structure queries.  None of them may change what a later one answers.)
QueryOrders == {<<"w", "u", "w">>, <<"u", "w", "u">>, <<"w", "w", "u">>, <<"u", "u", "w">>,
                <<"p", "w", "u">>, <<"m", "w">>, <<"q", "w", "p", "u">>, <<"p", "m", "q", "w">>}
\* Prim's algorithm (scales to the random graphs; PrimIsMST checks it against the minimum over ALL spanning trees on small graphs)
RECURSIVE Prim(_, _, _, _)
Prim(e, inT, w, n) == IF inT = Vs(n) THEN w
                      ELSE LET cross == {p \in e : (p[1] \in inT) # (p[2] \in inT)} IN
                           IF cross = {} THEN -1
                           ELSE LET m == CHOOSE p \in cross : \A q \in cross : Wt(p[1], p[2]) <= Wt(q[1], q[2]) IN
                                Prim(e, inT \cup {m[1], m[2]}, w + Wt(m[1], m[2]), n)
PrimWeight(e, n) == Prim(e, {0}, 0, n)
\* big = TRUE (random graphs above the exhaustive scope): the given masks only, no path counting, Prim instead of all trees
OutUx(n, e, M, big) ==
              [kind |-> "ug", n |-> n, edges |-> e, cyc |-> HasCycleU(e, n), tree |-> (~HasCycleU(e, n) /\ Cardinality(e) = n - 1),
               iso |-> IsolatedU(e, n), nbr |-> [v \in Vs(n) |-> SuccU(e, v, n)],
               dist |-> DistMat(FALSE, e, n), wdist |-> WDistMat(FALSE, e, n), npaths |-> IF big THEN <<>> ELSE PathCount(FALSE, e, n),
               mst |-> IF IsolatedU(e, n) # {} THEN -2 ELSE IF big THEN PrimWeight(e, n) ELSE MSTWeight(e, n), orders |-> QueryOrders,
               masks |-> [m \in M |-> Induced(e, m)]]
OutU(n, e) == OutUx(n, e, Masks(n), FALSE)
\* ---- directed ----------------------------------------------------------------------------------
HasCycleD(e, n) == \E v \in Vs(n) : v \in ReachFrom(TRUE, e, SuccD(e, v, n), n)
IsolatedD(e, n) == {v \in Vs(n) : SuccD(e, v, n) = {} /\ PredD(e, v, n) = {}}
\* r is the root of e as a rooted tree: n - 1 edges and every vertex reachable from r along them (then every other vertex has
\* exactly one parent and there is no cycle).  The tree constructors must accept exactly these <<edge set, root>> pairs.
IsRootedTree(e, n, r) == Cardinality(e) = n - 1 /\ ReachFrom(TRUE, e, {r}, n) \cup {r} = Vs(n)
OutDx(n, e, M, big) ==
              [kind |-> "dg", n |-> n, edges |-> e, cyc |-> HasCycleD(e, n), iso |-> IsolatedD(e, n),
               rooted |-> {r \in Vs(n) : IsRootedTree(e, n, r)},
               children |-> [v \in Vs(n) |-> SuccD(e, v, n)], parents |-> [v \in Vs(n) |-> PredD(e, v, n)],
               dist |-> DistMat(TRUE, e, n), wdist |-> WDistMat(TRUE, e, n), npaths |-> IF big THEN <<>> ELSE PathCount(TRUE, e, n), orders |-> QueryOrders,
               masks |-> [m \in M |-> Induced(e, m)]]
OutD(n, e) == OutDx(n, e, Masks(n), FALSE)
\* ---- rooted trees: parent function over the non-root vertices --------------------------------------
TreeEdges(n, root, par) == {<<par[v], v>> : v \in Vs(n) \ {root}}
ValidTree(n, root, par) == /\ \A v \in Vs(n) \ {root} : par[v] # v
                           /\ ReachFrom(TRUE, TreeEdges(n, root, par), {root}, n) = Vs(n)
RECURSIVE Depth(_, _, _)
Depth(root, par, v) == IF v = root THEN 0 ELSE 1 + Depth(root, par, par[v])
\* masking a tree: induced subgraph on the kept vertices, then only what stays connected to the root
TreeMask(n, root, par, m) ==
   IF root \notin m THEN [err |-> TRUE, keep |-> {}, edges |-> {}, root |-> -1]
   ELSE LET e == TreeEdges(n, root, par)
            ind == {p \in e : p[1] \in m /\ p[2] \in m}
            keep == ReachFrom(TRUE, ind, {root}, n) \cap m
        IN IF Cardinality(keep) < 2 THEN [err |-> TRUE, keep |-> {}, edges |-> {}, root |-> -1]     \* a one-vertex tree cannot be represented
           ELSE [err |-> FALSE, keep |-> keep, edges |-> Induced(e, keep), root |-> Renum(keep, root)]
OutTx(n, root, par, M) == LET e == TreeEdges(n, root, par) IN
              [kind |-> "tree", n |-> n, root |-> root, edges |-> e,
               parent |-> [v \in Vs(n) |-> IF v = root THEN -1 ELSE par[v]],
               depth |-> [v \in Vs(n) |-> Depth(root, par, v)],
               children |-> [v \in Vs(n) |-> SuccD(e, v, n)],
               leaves |-> {v \in Vs(n) : SuccD(e, v, n) = {}},
               masks |-> [m \in M |-> TreeMask(n, root, par, m)]]
OutT(n, root, par) == LET e == TreeEdges(n, root, par) IN
              [kind |-> "tree", n |-> n, root |-> root, edges |-> e,
               parent |-> [v \in Vs(n) |-> IF v = root THEN -1 ELSE par[v]],
               depth |-> [v \in Vs(n) |-> Depth(root, par, v)],
               children |-> [v \in Vs(n) |-> SuccD(e, v, n)],
               leaves |-> {v \in Vs(n) : SuccD(e, v, n) = {}},
               masks |-> [m \in Masks(n) \ {Vs(n)} |-> TreeMask(n, root, par, m)]]
\* ---- predefined grids: vertex (i, j) of an h x w grid is number i * w + j (row-major); the default connectivity is the
\* 4-connected lattice: (i, j) - (i, j + 1) and (i, j) - (i + 1, j)
GridEdges(h, w) == {<<i * w + j, i * w + j + 1>> : <<i, j>> \in (0..(h-1)) \X (0..(w-2))}
                   \cup {<<i * w + j, (i + 1) * w + j>> : <<i, j>> \in (0..(h-2)) \X (0..(w-1))}
OutGrid(h, w) == LET n == h * w e == GridEdges(h, w) IN
              [kind |-> "grid", h |-> h, w |-> w, n |-> n, edges |-> e,
               nbr |-> [v \in Vs(n) |-> {u \in Vs(n) : <<u, v>> \in e \/ <<v, u>> \in e}],
               coords |-> [v \in Vs(n) |-> <<v \div w, v % w>>]]
GCases == {[kind |-> "grid", n |-> hw[1] * hw[2], e |-> {}, root |-> hw[1], par |-> <<hw[2]>>] : hw \in ((1..4) \X (1..4)) \ {<<1, 1>>}}
\* ---- predefined graphs on the vertices 0..n-1 (directed edge sets; undirected classes take the symmetric closure) ------------
ChainEdges(n, closed) == {<<i, i + 1>> : i \in 0..(n - 2)} \cup (IF closed THEN {<<n - 1, 0>>} ELSE {})
StarEdges(n, r) == {<<r, v>> : v \in Vs(n) \ {r}}
CompleteEdges(n) == {<<i, j>> \in Vs(n) \X Vs(n) : i < j}
PredefEdges(c) == CASE c.shape = "chain" -> ChainEdges(c.n, c.closed) [] c.shape = "star" -> StarEdges(c.n, c.root)
                    [] c.shape = "complete" -> CompleteEdges(c.n) [] OTHER -> {}
OutPredef(c) == [kind |-> "predef", shape |-> c.shape, n |-> c.n, closed |-> c.closed, root |-> c.root, edges |-> PredefEdges(c),
                 \* an open chain and a star are rooted trees (the tree classes accept them)
                 is_tree |-> (c.shape = "star" \/ (c.shape = "chain" /\ ~c.closed))]
PCases == {[kind |-> "predef", shape |-> sh, n |-> n, closed |-> cl, root |-> r, e |-> {}, par |-> <<>>] :
              <<sh, n, cl, r>> \in {<<sh, n, cl, r>> \in {"chain", "star", "complete", "empty"} \X (3..5) \X BOOLEAN \X (0..4) :
                    r < n /\ (sh # "chain" => ~cl) /\ (sh # "star" => r = 0)}}
\* ---- cases -----------------------------------------------------------------------------------------
UCases == UNION {{[kind |-> "ug", n |-> n, e |-> e, root |-> 0, par |-> <<>>] : e \in SUBSET UPairs(n)} : n \in 1..NU}
DCases == UNION {{[kind |-> "dg", n |-> n, e |-> e, root |-> 0, par |-> <<>>] : e \in SUBSET DPairs(n)} : n \in 1..ND}
TCases == UNION {UNION {{[kind |-> "tree", n |-> n, e |-> {}, root |-> r, par |-> p] : p \in {q \in [Vs(n) -> Vs(n)] : q[r] = r /\ ValidTree(n, r, q)}} : r \in Vs(n)} : n \in 2..NT}
\* random graphs above the exhaustive scope: drawn by the harness (seeded) and read from a file; the same declarative definitions
RndIn == IF "rnd" \in Kinds THEN JsonDeserialize(IOEnv.TRACE_FILE) ELSE <<>>
SeqSet(q) == {q[i] : i \in 1..Len(q)}
RndCases == {[kind |-> "rnd", idx |-> i] : i \in 1..Len(RndIn)}
OutRnd(i) == LET r == RndIn[i]
                 e == {<<p[1], p[2]>> : p \in SeqSet(r.edges)}
                 M == {SeqSet(m) : m \in SeqSet(r.masks)} IN
             CASE r.kind = "ug" -> OutUx(r.n, e, M, TRUE)
               [] r.kind = "dg" -> OutDx(r.n, e, M, TRUE)
               [] OTHER -> OutTx(r.n, r.root, [v \in Vs(r.n) |-> r.par[v + 1]], M \ {Vs(r.n)})
Cases == (IF "rnd" \in Kinds THEN RndCases ELSE {}) \cup (IF "ug" \in Kinds THEN UCases ELSE {}) \cup (IF "dg" \in Kinds THEN DCases ELSE {}) \cup (IF "tree" \in Kinds THEN TCases ELSE {})
         \cup (IF "grid" \in Kinds THEN GCases \cup PCases ELSE {})
Out(c) == CASE c.kind = "predef" -> OutPredef(c) [] c.kind = "grid" -> OutGrid(c.root, c.par[1]) [] c.kind = "rnd" -> OutRnd(c.idx) [] c.kind = "ug" -> OutU(c.n, c.e) [] c.kind = "dg" -> OutD(c.n, c.e) [] OTHER -> OutT(c.n, c.root, c.par)
Init == g \in Cases /\ done = FALSE
Next == done = FALSE /\ done' = TRUE /\ g' = g /\ CSVWrite("%1$s", <<ToJson(Out(g))>>, IOEnv.OUT_FILE)
Spec == Init /\ [][Next]_<<g, done>>
\* ---- cross-checks of the reference definitions against each other (design-level) ----------------------
\* a path exists iff the BFS distance is defined iff the weighted cost is defined iff some simple path exists
ReachConsistent == g.kind \in {"ug", "dg"} =>
   LET dir == g.kind = "dg" IN
   \A s, t \in Vs(g.n) : s # t =>
      LET r == t \in ReachFrom(dir, g.e, {s}, g.n) IN
      /\ (r <=> DistMat(dir, g.e, g.n)[s][t] >= 0) /\ (r <=> WDistMat(dir, g.e, g.n)[s][t] >= 0)
      /\ (r <=> PathCount(dir, g.e, g.n)[s][t] > 0)
      /\ (r => DistMat(dir, g.e, g.n)[s][t] <= WDistMat(dir, g.e, g.n)[s][t])
\* a connected acyclic undirected graph is a tree and its only spanning tree is itself
TreeIffUnique == g.kind = "ug" => ((~HasCycleU(g.e, g.n) /\ NComp(g.e, g.n) = 1) => MSTWeight(g.e, g.n) = Weight(g.e))
\* in a rooted tree depth(v) = BFS distance from the root, exactly one simple path root -> v
TreeDepthIsDistance == g.kind = "tree" =>
   LET e == TreeEdges(g.n, g.root, g.par) IN
   \A v \in Vs(g.n) : Depth(g.root, g.par, v) = DistMat(TRUE, e, g.n)[g.root][v] /\ PathCount(TRUE, e, g.n)[g.root][v] = 1
\* Prim's weight is the minimum over all spanning trees (so it may stand in for it on the random graphs)
\* the lattice: h (w - 1) + w (h - 1) edges; a vertex has as many neighbours as it has sides inside the grid; neighbours differ
\* by one step in exactly one coordinate
GridIsLattice == g.kind = "grid" =>
   LET h == g.root w == g.par[1] o == OutGrid(h, w) IN
   /\ Cardinality(o.edges) = h * (w - 1) + w * (h - 1)
   /\ \A v \in Vs(o.n) : LET i == o.coords[v][1] j == o.coords[v][2] IN
         /\ Cardinality(o.nbr[v]) = (IF i > 0 THEN 1 ELSE 0) + (IF i < h - 1 THEN 1 ELSE 0) + (IF j > 0 THEN 1 ELSE 0) + (IF j < w - 1 THEN 1 ELSE 0)
         /\ \A u \in o.nbr[v] : LET a == o.coords[u][1] - i b == o.coords[u][2] - j IN a * a + b * b = 1
\* a closed chain is one directed cycle through every vertex; an open chain / a star is a tree rooted at its first vertex / centre
PredefShapes == g.kind = "predef" =>
   LET e == PredefEdges(g) IN
   /\ (g.shape = "chain" => Cardinality(e) = (IF g.closed THEN g.n ELSE g.n - 1) /\ HasCycleD(e, g.n) = g.closed)
   /\ (g.shape = "chain" /\ ~g.closed => IsRootedTree(e, g.n, 0))
   /\ (g.shape = "star" => IsRootedTree(e, g.n, g.root))
   /\ (g.shape = "complete" => Cardinality(e) = (g.n * (g.n - 1)) \div 2)
PrimIsMST == g.kind = "ug" => (NComp(g.e, g.n) = 1 => PrimWeight(g.e, g.n) = MSTWeight(g.e, g.n))
=======================================================================
