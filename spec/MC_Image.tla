---------------------------- MODULE MC_Image ----------------------------
EXTENDS Image
Q(a,b) == <<a,b>>
Sh0 == <<5, 8>>
ZoomsQ == {Q(3,2), Q(1,2)}
ScalesQ == {<<Q(1,2),Q(1,2)>>, <<R(2),R(2)>>, <<R(2),Q(1,2)>>}
ScalesT == {<<Q(1,2),Q(1,2)>>, <<R(2),R(2)>>, <<R(2),Q(1,2)>>, <<Q(3,2),Q(3,2)>>, <<Q(3,4),R(1)>>}
BoxesQ == {<< <<R(1),Q(1,2)>>, <<Q(7,2),R(4)>> >>, << <<R(-1),R(0)>>, <<R(3),R(3)>> >>, << <<R(0),R(0)>>, <<R(2),R(2)>> >>}
BoxesT == BoxesQ \cup {<< <<R(1),R(1)>>, <<R(9),R(3)>> >>, << <<Q(1,2),Q(3,2)>>, <<Q(5,2),Q(9,2)>> >>}
\* explicit warps: template shape + template->source affine map
W(name, sh, S) == [name |-> name, shape |-> sh, S |-> S]
WarpsQ == {W("shear", <<4, 5>>, M3(R(1),Q(1,4),Q(1,2), R(0),R(1),Q(1,2))), W("fractrans", <<3, 4>>, Tr2(Q(3,4), Q(5,4)))}
Order0Q == {W("fractrans_o0", <<3, 4>>, Tr2(Q(3,4), Q(5,4))), W("inttrans_o0", <<3, 3>>, Tr2(R(1), R(2))), W("scale_o0", <<3, 3>>, Sc2(Q(3,2), Q(5,4)))}
BaseOps == {"rescale", "resize", "rotate", "mirror", "zoom", "crop", "warp", "warp_order0"}
ExtOps == {"crop_lms", "crop_true_mask", "rescale_derived", "pyramid", "about", "warp_mask", "warp_sym"}
\* extended families after one framing operation (so that they start from a non-trivial registration state)
MixOps == ExtOps \cup {"rescale", "crop", "mirror"}
QuickMixOps == ExtOps \cup {"crop"}
FullMaskOps == {"fullmask", "rotate", "about", "warp", "warp_order0", "crop", "rescale", "zoom", "warp_mask"}
Sh68 == <<6, 8>>
=============================================================================
