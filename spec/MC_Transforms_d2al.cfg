SPECIFICATION Spec
CONSTANTS
  Pool <- PoolAlign
  D = 2
  MaxObjs = 20
  MaxEntry = 200
  EvalPts <- Pts
  Ops <- AllOps
INVARIANT HonestInv
INVARIANT LadderIsFCA
INVARIANT ComposeLaw
INVARIANT InverseLaw
INVARIANT Emit
PROPERTY OperandsIntact
PROPERTY FailuresPure
PROPERTY InplaceLocal
