---------------------------- MODULE LazyList ----------------------------
(* Abstract model of menpo.base.LazyList (property C19).

   Operational side (as the code works): a lazy list is a sequence of thunks; a thunk is
   [base |-> element id, fs |-> sequence of function ids applied innermost first] - exactly
   what partial(delayed, f, x) nests around partial(f0, x).  Denotational side: the plain
   Python list of *terms* the same program denotes on an ordinary list.  `evals` logs every
   callable invocation (<<0, b>> = base element b produced, <<f, b>> = mapped function f run
   on the element that stems from b).  One action per public operation; the linearization
   point of each is the call's return. *)
EXTENDS PySlice, FiniteSets, TLC, Json, CSV, IOUtils
CONSTANTS InitLens,     \* set of lengths of the initial base list
          Ctors,        \* subset of {"iterable", "index"}
          MaxLists,     \* bound on the number of live lists
          D,            \* program depth (number of operations)
          SStarts, SStops, SSteps,   \* slice pools (integers or NoneV)
          IdxPool,      \* integer indices tried by Index
          RepPool,      \* repeat counts
          FancyPool,    \* set of index sequences
          PlainPool,    \* lengths of plain python lists added with +
          WithIter      \* BOOLEAN: include whole-list iteration
VARIABLES lz,     \* id -> Seq(thunk)            (operational)
          eager,  \* id -> Seq(term)             (denotational)
          evals,  \* sequence of invocation records
          nf,     \* number of function symbols created so far
          nb,     \* number of plain-list elements created so far
          ctor,   \* how list 1 was built: "iterable" | "index"
          hist
vars == <<lz, eager, evals, nf, nb, ctor, hist>>
Ids == DOMAIN lz
Thunk(b) == [base |-> b, fs |-> <<>>]
MapThunk(t, f) == [base |-> t.base, fs |-> Append(t.fs, f)]
Force(t) == t                                   \* the term a thunk denotes
PlainBase == 100                                \* base ids above this are elements of a plain python list:
IsPlain(b) == b > PlainBase                     \* their (identity) thunk is not instrumented, so not logged
Invocations(t) == (IF IsPlain(t.base) THEN <<>> ELSE <<<<0, t.base>>>>) \o [i \in 1..Len(t.fs) |-> <<t.fs[i], t.base>>]
RECURSIVE AllInvocations(_)
AllInvocations(s) == IF s = <<>> THEN <<>> ELSE Invocations(Head(s)) \o AllInvocations(Tail(s))
NewId == Cardinality(Ids) + 1
Rec(op, args, obs) == [op |-> op, args |-> args, obs |-> obs]
Add(id, s) == [x \in Ids \cup {id} |-> IF x = id THEN s ELSE lz[x]]
AddE(id, s) == [x \in Ids \cup {id} |-> IF x = id THEN s ELSE eager[x]]
CanGrow == Cardinality(Ids) < MaxLists /\ Len(hist) < D
Fail(op, args, e) == /\ Len(hist) < D /\ UNCHANGED <<lz, eager, evals, nf, nb, ctor>>
                     /\ hist' = Append(hist, Rec(op, args, [err |-> e]))

Init == /\ \E n \in InitLens : /\ lz = (1 :> [i \in 1..n |-> Thunk(i)])
                                 /\ eager = (1 :> [i \in 1..n |-> Thunk(i)])
                                 /\ nb = 0
        /\ ctor \in Ctors
        /\ evals = <<>> /\ nf = 0 /\ hist = <<>>

\* ---- non-reading operations: never evaluate, never change existing lists ----------------
Map(l) == /\ CanGrow
          /\ LET f == nf + 1 id == NewId
                 s == [i \in 1..Len(lz[l]) |-> MapThunk(lz[l][i], f)]
             IN /\ lz' = Add(id, s) /\ eager' = AddE(id, [i \in 1..Len(eager[l]) |-> MapThunk(eager[l][i], f)])
                /\ nf' = f /\ UNCHANGED <<evals, nb, ctor>>
                /\ hist' = Append(hist, Rec("map", <<l, f>>, [id |-> id, len |-> Len(s)]))
\* map with one callable per element (k callables offered; k # len -> ValueError)
MapEach(l, k) ==
   IF k # Len(lz[l]) THEN Fail("map_each", <<l, nf + 1, k>>, "ValueError")
   ELSE /\ CanGrow
        /\ LET id == NewId n == Len(lz[l])
               s == [i \in 1..n |-> MapThunk(lz[l][i], nf + i)]
           IN /\ lz' = Add(id, s) /\ eager' = AddE(id, [i \in 1..n |-> MapThunk(eager[l][i], nf + i)])
              /\ nf' = nf + n /\ UNCHANGED <<evals, nb, ctor>>
              /\ hist' = Append(hist, Rec("map_each", <<l, nf + 1, k>>, [id |-> id, len |-> n]))
\* an argument that is BOTH iterable and callable is refused (ambiguous)
MapAmbiguous(l) == Fail("map_ambiguous", <<l>>, "ValueError")
Slice(l, s, e, st) ==
   IF st = 0 THEN Fail("slice", <<l, s, e, st>>, "ValueError")
   ELSE /\ CanGrow
        /\ LET id == NewId idx == SliceIdx(s, e, st, Len(lz[l]))
               sq == [i \in 1..Len(idx) |-> lz[l][idx[i] + 1]]
           IN /\ lz' = Add(id, sq) /\ eager' = AddE(id, [i \in 1..Len(idx) |-> eager[l][idx[i] + 1]])
              /\ UNCHANGED <<evals, nf, nb, ctor>>
              /\ hist' = Append(hist, Rec("slice", <<l, s, e, st>>, [id |-> id, len |-> Len(sq)]))
\* indexing with an iterable of integers (list / tuple / ndarray / range)
Fancy(l, idx) ==
   LET n == Len(lz[l]) IN
   IF \E i \in 1..Len(idx) : idx[i] >= n \/ idx[i] < -n THEN Fail("fancy", <<l, idx>>, "IndexError")
   ELSE /\ CanGrow
        /\ LET id == NewId
               pos(k) == IF k < 0 THEN k + n + 1 ELSE k + 1
               sq == [i \in 1..Len(idx) |-> lz[l][pos(idx[i])]]
           IN /\ lz' = Add(id, sq) /\ eager' = AddE(id, [i \in 1..Len(idx) |-> eager[l][pos(idx[i])]])
              /\ UNCHANGED <<evals, nf, nb, ctor>>
              /\ hist' = Append(hist, Rec("fancy", <<l, idx>>, [id |-> id, len |-> Len(sq)]))
Repeat(l, k) ==
          /\ CanGrow
          /\ LET id == NewId n == Len(lz[l]) kk == IF k < 0 THEN 0 ELSE k
                 sq == [i \in 1..(n * kk) |-> lz[l][((i - 1) \div kk) + 1]]
             IN /\ lz' = Add(id, sq) /\ eager' = AddE(id, [i \in 1..(n * kk) |-> eager[l][((i - 1) \div kk) + 1]])
                /\ UNCHANGED <<evals, nf, nb, ctor>>
                /\ hist' = Append(hist, Rec("repeat", <<l, k>>, [id |-> id, len |-> Len(sq)]))
Concat(a, b) ==
          /\ CanGrow
          /\ LET id == NewId IN
                /\ lz' = Add(id, lz[a] \o lz[b]) /\ eager' = AddE(id, eager[a] \o eager[b])
                /\ UNCHANGED <<evals, nf, nb, ctor>>
                /\ hist' = Append(hist, Rec("concat", <<a, b>>, [id |-> id, len |-> Len(lz[a]) + Len(lz[b])]))
\* lazy + plain python list of k fresh elements (wrapped in constant thunks)
ConcatPlain(a, k) ==
          /\ CanGrow
          /\ LET id == NewId  new == [i \in 1..k |-> Thunk(PlainBase + nb + i)] IN
                /\ lz' = Add(id, lz[a] \o new) /\ eager' = AddE(id, eager[a] \o new)
                /\ nb' = nb + k /\ UNCHANGED <<evals, nf, ctor>>
                /\ hist' = Append(hist, Rec("concat_plain", <<a, k, PlainBase + nb + 1>>, [id |-> id, len |-> Len(lz[a]) + k]))
Copy(l) == /\ CanGrow
           /\ LET id == NewId IN
                /\ lz' = Add(id, lz[l]) /\ eager' = AddE(id, eager[l])
                /\ UNCHANGED <<evals, nf, nb, ctor>>
                /\ hist' = Append(hist, Rec("copy", <<l>>, [id |-> id, len |-> Len(lz[l])]))
LenOp(l) == /\ Len(hist) < D /\ UNCHANGED <<lz, eager, evals, nf, nb, ctor>>
            /\ hist' = Append(hist, Rec("len", <<l>>, [len |-> Len(lz[l])]))
\* ---- reading: evaluates exactly the dependencies of the element(s) read ---------------
Index(l, k) == LET n == Len(lz[l]) IN
               IF k >= n \/ k < -n THEN Fail("index", <<l, k>>, "IndexError")
               ELSE LET t == lz[l][IF k < 0 THEN k + n + 1 ELSE k + 1] IN
                    /\ Len(hist) < D
                    /\ evals' = evals \o Invocations(t)
                    /\ UNCHANGED <<lz, eager, nf, nb, ctor>>
                    /\ hist' = Append(hist, Rec("index", <<l, k>>, [val |-> Force(t), calls |-> Invocations(t)]))
Iter(l) == /\ Len(hist) < D
           /\ evals' = evals \o AllInvocations(lz[l])
           /\ UNCHANGED <<lz, eager, nf, nb, ctor>>
           /\ hist' = Append(hist, Rec("iter", <<l>>, [vals |-> [i \in 1..Len(lz[l]) |-> Force(lz[l][i])], calls |-> AllInvocations(lz[l])]))
\* partial iteration: the first element only (next(iter(l))) - iteration is lazy element by element
IterFirst(l) == /\ Len(hist) < D /\ Len(lz[l]) > 0
                /\ evals' = evals \o Invocations(lz[l][1])
                /\ UNCHANGED <<lz, eager, nf, nb, ctor>>
                /\ hist' = Append(hist, Rec("iter_first", <<l>>, [val |-> Force(lz[l][1]), calls |-> Invocations(lz[l][1])]))
Next == \E l \in Ids :
          \/ Map(l) \/ Copy(l)
          \/ \E k \in {Len(lz[l]), Len(lz[l]) + 1} : MapEach(l, k)
          \/ \E s \in SStarts, e \in SStops, st \in SSteps : Slice(l, s, e, st)
          \/ \E k \in RepPool : Repeat(l, k)
          \/ \E b \in Ids : Concat(l, b)
          \/ \E k \in PlainPool : ConcatPlain(l, k)
          \/ \E k \in IdxPool : Index(l, k)
          \/ \E idx \in FancyPool : Fancy(l, idx)
          \/ (WithIter /\ (Iter(l) \/ IterFirst(l) \/ LenOp(l) \/ MapAmbiguous(l)))
Spec == Init /\ [][Next]_vars
\* ---- properties (C19) -------------------------------------------------------------------
\* faithful: every lazy list has the length and denotes the terms of the ordinary list
Faithful == \A l \in Ids : Len(lz[l]) = Len(eager[l]) /\ \A i \in 1..Len(lz[l]) : Force(lz[l][i]) = eager[l][i]
\* lazy: nothing but index / iter evaluates anything
LazyProp == [][ (hist' # hist /\ hist'[Len(hist')].op \notin {"index", "iter", "iter_first"}) => evals' = evals ]_vars
\* a read evaluates exactly what the element depends on, each once, innermost first
ExactDeps == [][ (hist' # hist /\ hist'[Len(hist')].op = "index" /\ "val" \in DOMAIN hist'[Len(hist')].obs) =>
                   LET t == hist'[Len(hist')].obs.val IN
                   LET o == IF IsPlain(t.base) THEN 0 ELSE 1 IN
                   /\ Len(evals') = Len(evals) + o + Len(t.fs)
                   /\ (o = 1 => evals'[Len(evals) + 1] = <<0, t.base>>)
                   /\ \A i \in 1..Len(t.fs) : evals'[Len(evals) + o + i] = <<t.fs[i], t.base>> ]_vars
\* the lists an operation was applied to behave afterwards exactly as before
Immutable == [][ \A l \in Ids : lz'[l] = lz[l] /\ eager'[l] = eager[l] ]_vars
\* failed operations change nothing
FailuresPure == [][ (hist' # hist /\ "err" \in DOMAIN hist'[Len(hist')].obs) => UNCHANGED <<lz, eager, evals, nf, nb>> ]_vars
Emit == (Len(hist) = D) => CSVWrite("%1$s", <<ToJson([init |-> Len(lz[1]), ctor |-> ctor, hist |-> hist, final |-> eager])>>, IOEnv.OUT_FILE)
=======================================================================
