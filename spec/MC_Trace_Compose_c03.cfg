SPECIFICATION TSpec
CONSTANTS
  Pool <- NoPool
  EvalPts <- NoPts
  D = 1000000
  MaxObjs = 1000000
  MaxEntry = 1000000
  Ops <- AllOpsT
  Judge <- JCompose
INVARIANT LadderIsFCAT
PROPERTY OperandsIntact
PROPERTY FailuresPure
PROPERTY InplaceLocal
POSTCONDITION Report
