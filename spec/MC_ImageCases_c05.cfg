SPECIFICATION Spec
CONSTANTS
  Kinds = {"imgvec"}
  Shapes2 <- S2small
  Shapes3 <- S3
  CropShapes2 <- C2
  Wide = FALSE
INVARIANT CropSound
INVARIANT PathsAgree
INVARIANT Contiguous
