---------------------------- MODULE Warps ----------------------------
(* Interpolating warps of menpo: piecewise affine (exact over Q) and thin-plate splines
   (the spline itself is an uninterpreted symbol: only its laws are stated).
   Serves C04 (inverse = warp fitted in the reverse direction), C07 (interpolation, affine inside
   each source triangle, continuity across edges), C09 (failure mask = exact containment
   predicate; batching).  One-shot: every case is an initial state. *)
EXTENDS Mat, TLC, Json, CSV, IOUtils
CONSTANT Kinds
VARIABLES case, done
R(n) == <<n,1>>
Q(a,b) == Norm(a,b)
P(x,y) == <<R(x), R(y)>>
\* ---- exact piecewise-affine map ----------------------------------------------------------
VSub(a,b) == <<RSub(a[1],b[1]), RSub(a[2],b[2])>>
VAdd(a,b) == <<RAdd(a[1],b[1]), RAdd(a[2],b[2])>>
VScale(k,a) == <<RMul(k,a[1]), RMul(k,a[2])>>
Cross(a,b) == RSub(RMul(a[1],b[2]), RMul(a[2],b[1]))
\* barycentric coordinates of p in triangle t = <<i,j,k>> of point set S:  p = S_i + al (S_j - S_i) + be (S_k - S_i)
Bary(S, t, p) == LET v0 == VSub(S[t[2]], S[t[1]]) v1 == VSub(S[t[3]], S[t[1]]) v2 == VSub(p, S[t[1]])
                     den == Cross(v0, v1) IN
                 <<RDiv(Cross(v2, v1), den), RDiv(Cross(v0, v2), den)>>
Inside(ab) == RLe(Z0, ab[1]) /\ RLe(Z0, ab[2]) /\ RLe(RAdd(ab[1], ab[2]), O1)
Containing(S, Tris, p) == {n \in 1..Len(Tris) : Inside(Bary(S, Tris[n], p))}
InDomain(S, Tris, p) == Containing(S, Tris, p) # {}
MapIn(S, T, t, p) == LET ab == Bary(S, t, p) IN
                     VAdd(T[t[1]], VAdd(VScale(ab[1], VSub(T[t[2]], T[t[1]])), VScale(ab[2], VSub(T[t[3]], T[t[1]]))))
ApplyPWA(S, T, Tris, p) == MapIn(S, T, Tris[CHOOSE n \in Containing(S, Tris, p) : TRUE], p)
Orient(S, t) == Cross(VSub(S[t[2]], S[t[1]]), VSub(S[t[3]], S[t[1]]))
\* ---- pools ---------------------------------------------------------------------------------
FanS == <<P(0,0), P(4,0), P(4,3), P(0,4), P(2,2)>>
FanT == <<P(0,0), P(5,1), P(4,4), P(-1,3), P(2,1)>>
FanTris == <<<<1,2,5>>, <<2,3,5>>, <<3,4,5>>, <<4,1,5>>>>
QuadS == <<P(0,0), P(3,0), P(3,3), P(0,3)>>
QuadT == <<P(1,0), P(4,1), P(3,5), P(0,2)>>
QuadTris == <<<<1,2,3>>, <<1,3,4>>>>
QuadTrisOther == <<<<1,2,4>>, <<2,3,4>>>>          \* the other diagonal (used only as a decoy trilist on the target)
StripS == <<P(0,0), P(2,0), P(4,1), P(0,2), P(2,3), P(5,3)>>
StripT == <<P(0,1), P(2,0), P(5,0), P(1,3), P(3,3), P(6,4)>>
StripTris == <<<<1,2,4>>, <<2,5,4>>, <<2,3,5>>, <<3,6,5>>>>
\* "notch": the fan with one wedge left out - a domain that is NOT the convex hull of its vertices (the triangle list, not
\* a triangulation recomputed from the points, defines where the warp exists)
NotchTris == <<<<1,2,5>>, <<2,3,5>>, <<3,4,5>>>>
Meshes == [notch |-> [S |-> FanS, T |-> FanT, tris |-> NotchTris, other |-> <<<<1,2,3>>, <<1,3,4>>, <<1,3,5>>>>],
           fan |-> [S |-> FanS, T |-> FanT, tris |-> FanTris, other |-> <<<<1,2,3>>, <<1,3,4>>, <<1,3,5>>>>],
           quad |-> [S |-> QuadS, T |-> QuadT, tris |-> QuadTris, other |-> QuadTrisOther],
           strip |-> [S |-> StripS, T |-> StripT, tris |-> StripTris, other |-> <<<<1,2,3>>, <<4,5,6>>>>]]
\* sample points of a triangle by barycentric weights (interior, edges, vertices)
Weights == {<<Q(1,3),Q(1,3)>>, <<Q(1,2),Q(1,4)>>, <<Q(1,5),Q(3,5)>>, <<Q(1,2),Z0>>, <<Z0,Q(1,2)>>, <<Q(1,2),Q(1,2)>>, <<Z0,Z0>>, <<O1,Z0>>, <<Z0,O1>>}
PtAt(S, t, w) == VAdd(S[t[1]], VAdd(VScale(w[1], VSub(S[t[2]], S[t[1]])), VScale(w[2], VSub(S[t[3]], S[t[1]]))))
WSeq == <<<<Q(1,3),Q(1,3)>>, <<Q(1,2),Q(1,4)>>, <<Q(1,5),Q(3,5)>>, <<Q(1,2),Z0>>, <<Z0,Q(1,2)>>, <<Q(1,2),Q(1,2)>>, <<Z0,Z0>>, <<O1,Z0>>, <<Z0,O1>>>>
InPts(S, Tris) == [k \in 1..(Len(Tris) * Len(WSeq)) |-> PtAt(S, Tris[((k-1) \div Len(WSeq)) + 1], WSeq[((k-1) % Len(WSeq)) + 1])]
OutPts == <<P(-1,-1), P(10,1), <<Q(-1,2), R(1)>>, P(2,9)>>
\* (for the notch: points inside the hull but in the missing wedge, and one far away)
OutPtsOf(m) == IF m = "notch" THEN << <<Q(1,2), R(2)>>, P(10,1), <<Q(1,4), R(2)>>, <<Q(1,2), Q(3,2)>> >> ELSE OutPts
\* ---- cases -----------------------------------------------------------------------------------
PwaCases == {[kind |-> "pwa", mesh |-> m, cls |-> c, tgt |-> tk] : m \in DOMAIN Meshes, c \in {"PiecewiseAffine", "PythonPWA"},
               tk \in {"pointcloud", "trimesh_same", "trimesh_other"}}
\* mixed in/out sequences for the failure mask: every mask over a fixed 5-point sequence
MaskCases == {[kind |-> "mask", mesh |-> m, mask |-> mk, batch |-> b] : m \in {"fan", "quad"}, mk \in [1..5 -> BOOLEAN], b \in {0, 1, 2, 3, 5, 7}}
\* points an INFINITESIMAL step off the edges and vertices of the triangulation (the adapter takes the step as 2^-40):
\* p + eps d is inside a triangle iff every barycentric coordinate is positive, or zero with a non-negative derivative along d
\* ("inputs that differ by less than any fixed tolerance": a containment test must not snap such points onto the mesh)
GeEps(v, dv) == RLt(Z0, v) \/ (v = Z0 /\ RLe(Z0, dv))
Decided(v, dv) == v # Z0 \/ dv # Z0                         \* (a coordinate that stays exactly zero is decided by float noise)
BaryEps(S, t, pp, d) == LET ab == Bary(S, t, pp) ab2 == Bary(S, t, VAdd(pp, d))
                            da == RSub(ab2[1], ab[1]) db == RSub(ab2[2], ab[2]) IN
                        << <<ab[1], da>>, <<ab[2], db>>, <<RSub(O1, RAdd(ab[1], ab[2])), RNeg(RAdd(da, db))>> >>
InsideEps(S, t, pp, d) == \A k \in 1..3 : GeEps(BaryEps(S, t, pp, d)[k][1], BaryEps(S, t, pp, d)[k][2])
JudgedEps(S, Tris, pp, d) == \A n \in 1..Len(Tris) : \A k \in 1..3 : Decided(BaryEps(S, Tris[n], pp, d)[k][1], BaryEps(S, Tris[n], pp, d)[k][2])
InDomainEps(S, Tris, pp, d) == \E n \in 1..Len(Tris) : InsideEps(S, Tris[n], pp, d)
NudgeDirs == {P(1,0), P(-1,0), P(0,1), P(0,-1), P(1,1), P(-1,-1), P(1,-1), P(-1,1), P(2,1), P(-1,-2)}
OnEdge(S, Tris, pp) == \E n \in 1..Len(Tris) : LET ab == Bary(S, Tris[n], pp) IN Inside(ab) /\ (ab[1] = Z0 \/ ab[2] = Z0 \/ RAdd(ab[1], ab[2]) = O1)
NudgeSet(m) == LET M == Meshes[m] ins == InPts(M.S, M.tris) IN
               {<<ins[i], d>> : i \in {j \in 1..Len(ins) : OnEdge(M.S, M.tris, ins[j])}, d \in NudgeDirs}
RECURSIVE SetToSeqW(_)
SetToSeqW(X) == IF X = {} THEN <<>> ELSE LET x == CHOOSE y \in X : TRUE IN <<x>> \o SetToSeqW(X \ {x})
NudgeSeq(m) == LET M == Meshes[m] IN SetToSeqW({x \in NudgeSet(m) : JudgedEps(M.S, M.tris, x[1], x[2])})
NudgeCases == {[kind |-> "nudge", mesh |-> m, batch |-> b] : m \in {"fan", "quad"}, b \in {0, 1, 3, 7}}
TpsCases == {[kind |-> "tps", mesh |-> m, kernel |-> k, msv |-> v] : m \in DOMAIN Meshes, k \in {"default", "R2LogR2RBF", "R2LogRRBF"}, v \in {"default", "1e-3", "0"}}
Cases == (IF "pwa" \in Kinds THEN PwaCases ELSE {}) \cup (IF "mask" \in Kinds THEN MaskCases \cup NudgeCases ELSE {}) \cup (IF "tps" \in Kinds THEN TpsCases ELSE {})
MaskPts(m, mk) == LET M == Meshes[m] ins == InPts(M.S, M.tris) IN [i \in 1..5 |-> IF mk[i] THEN ins[2*i] ELSE OutPtsOf(m)[((i-1) % 4) + 1]]
Out(c) ==
  CASE c.kind = "pwa" -> LET M == Meshes[c.mesh] ins == InPts(M.S, M.tris) insT == InPts(M.T, M.tris) IN
         [case |-> c, S |-> M.S, T |-> M.T, tris |-> M.tris, other |-> M.other,
          pts |-> ins, img |-> [i \in 1..Len(ins) |-> ApplyPWA(M.S, M.T, M.tris, ins[i])],
          ptsT |-> insT, imgInv |-> [i \in 1..Len(insT) |-> ApplyPWA(M.T, M.S, M.tris, insT[i])],
          outside |-> OutPtsOf(c.mesh)]
    [] c.kind = "mask" -> LET M == Meshes[c.mesh] ps == MaskPts(c.mesh, c.mask) IN
         [case |-> c, S |-> M.S, T |-> M.T, tris |-> M.tris, pts |-> ps,
          outmask |-> [i \in 1..5 |-> ~InDomain(M.S, M.tris, ps[i])],
          img |-> [i \in 1..5 |-> IF InDomain(M.S, M.tris, ps[i]) THEN ApplyPWA(M.S, M.T, M.tris, ps[i]) ELSE <<Z0, Z0>>]]
    [] c.kind = "nudge" -> LET M == Meshes[c.mesh] ns == NudgeSeq(c.mesh) IN
         [case |-> c, S |-> M.S, T |-> M.T, tris |-> M.tris, pts |-> [i \in 1..Len(ns) |-> ns[i][1]], dirs |-> [i \in 1..Len(ns) |-> ns[i][2]],
          outmask |-> [i \in 1..Len(ns) |-> ~InDomainEps(M.S, M.tris, ns[i][1], ns[i][2])],
          img |-> [i \in 1..Len(ns) |-> ApplyPWA(M.S, M.T, M.tris, ns[i][1])]]
    [] c.kind = "tps" -> LET M == Meshes[c.mesh] IN [case |-> c, S |-> M.S, T |-> M.T]
Init == case \in Cases /\ done = FALSE
Next == done = FALSE /\ done' = TRUE /\ case' = case /\ CSVWrite("%1$s", <<ToJson(Out(case))>>, IOEnv.OUT_FILE)
Spec == Init /\ [][Next]_<<case, done>>
\* ---- laws on the model ---------------------------------------------------------------------------
IsPwa == case.kind = "pwa"
Mesh == Meshes[case.mesh]
\* both triangulations are non-degenerate and equally oriented (so the reverse warp is well defined)
WellPosed == IsPwa => \A n \in 1..Len(Mesh.tris) : RLt(Z0, Orient(Mesh.S, Mesh.tris[n])) /\ RLt(Z0, Orient(Mesh.T, Mesh.tris[n]))
Interpolates == IsPwa => \A i \in 1..Len(Mesh.S) : InDomain(Mesh.S, Mesh.tris, Mesh.S[i]) /\ ApplyPWA(Mesh.S, Mesh.T, Mesh.tris, Mesh.S[i]) = Mesh.T[i]
\* continuity: a point lying in several triangles (shared edge / vertex) has one image
Continuous == IsPwa => \A p \in {PtAt(Mesh.S, Mesh.tris[n], w) : n \in 1..Len(Mesh.tris), w \in Weights} :
                 \A a, b \in Containing(Mesh.S, Mesh.tris, p) : MapIn(Mesh.S, Mesh.T, Mesh.tris[a], p) = MapIn(Mesh.S, Mesh.T, Mesh.tris[b], p)
\* C04: the warp fitted in the reverse direction undoes the forward warp from both sides
TwoSided == IsPwa => LET ins == InPts(Mesh.S, Mesh.tris) insT == InPts(Mesh.T, Mesh.tris) IN
              /\ \A i \in 1..Len(ins) : ApplyPWA(Mesh.T, Mesh.S, Mesh.tris, ApplyPWA(Mesh.S, Mesh.T, Mesh.tris, ins[i])) = ins[i]
              /\ \A i \in 1..Len(insT) : ApplyPWA(Mesh.S, Mesh.T, Mesh.tris, ApplyPWA(Mesh.T, Mesh.S, Mesh.tris, insT[i])) = insT[i]
OutsideIsOutside == IsPwa => \A i \in 1..4 : ~InDomain(Mesh.S, Mesh.tris, OutPtsOf(case.mesh)[i])
MaskConsistent == case.kind = "mask" => \A i \in 1..5 : InDomain(Meshes[case.mesh].S, Meshes[case.mesh].tris, MaskPts(case.mesh, case.mask)[i]) = case.mask[i]
=======================================================================
