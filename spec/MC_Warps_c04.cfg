SPECIFICATION Spec
CONSTANTS
  Kinds = {"pwa", "tps"}
INVARIANT WellPosed
INVARIANT Interpolates
INVARIANT Continuous
INVARIANT TwoSided
INVARIANT OutsideIsOutside
INVARIANT MaskConsistent
