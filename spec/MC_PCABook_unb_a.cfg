SPECIFICATION Spec
CONSTANTS
  Spectrum <- SpecA
  Fracs <- FracsA
  D = 1000000
VIEW ViewNoHist
INVARIANT OrigConstant
INVARIANT Accounting
INVARIANT Consistent
INVARIANT TrimIsBuild
INVARIANT TieFree
ACTION_CONSTRAINT EmitTrans
