SPECIFICATION Spec
CONSTANTS
  Kinds = {"pwa", "mask", "tps"}
INVARIANT WellPosed
INVARIANT Interpolates
INVARIANT Continuous
INVARIANT TwoSided
INVARIANT OutsideIsOutside
INVARIANT MaskConsistent
