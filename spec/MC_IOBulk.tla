---------------------------- MODULE MC_IOBulk ----------------------------
EXTENDS IOBulk
F(d, s, e, r) == [dir |-> d, stem |-> s, ext |-> e, rank |-> r]
\* ranks follow Python's sorted() of the pathlib paths (checked by the adapter): a.ljson < a.png < a.pts < b.bmp < b.pts < m.pkl
\* < n.pkl.gz < notes.txt < sub/d.png < sub/d.pts
PoolC == {F("", "a", "ljson", 1), F("", "a", "png", 2), F("", "a", "pts", 3), F("", "b", "bmp", 4), F("", "b", "pts", 5),
          F("", "m", "pkl", 6), F("", "n", "pkl.gz", 7), F("", "notes", "txt", 8), F("sub", "d", "png", 9), F("sub", "d", "pts", 10)}
PoolQ == {F("", "a", "ljson", 1), F("", "a", "png", 2), F("", "a", "pts", 3), F("", "b", "bmp", 4), F("", "m", "pkl", 6),
          F("", "n", "pkl.gz", 7), F("", "notes", "txt", 8), F("sub", "d", "png", 9)}
PatAll == {"*", "*.png", "a.*", "sub/*", "**/*", "dir"}
=============================================================================
