---------------------------- MODULE MC_IOBulk ----------------------------
EXTENDS IOBulk
F(d, s, e, r) == [dir |-> d, stem |-> s, ext |-> e, rank |-> r]
\* ranks follow Python's sorted() of the pathlib paths (checked by the adapter): a.ljson < a.png < a.pts < ab.pts < b.bmp < b.pts
\* < m.pkl < n.pkl.gz < notes.txt < sub/d.png < sub/d.pts   (ab.pts shares a prefix, not the stem, with a.png)
PoolC == {F("", "a", "ljson", 1), F("", "a", "png", 2), F("", "a", "pts", 3), F("", "ab", "pts", 4), F("", "b", "bmp", 5), F("", "b", "pts", 6),
          F("", "m", "pkl", 7), F("", "n", "pkl.gz", 8), F("", "notes", "txt", 9), F("sub", "d", "png", 10), F("sub", "d", "pts", 11)}
PoolQ == {F("", "a", "ljson", 1), F("", "a", "png", 2), F("", "a", "pts", 3), F("", "ab", "pts", 4), F("", "b", "bmp", 5),
          F("", "n", "pkl.gz", 8), F("", "notes", "txt", 9), F("sub", "d", "png", 10)}
PatAll == {"*", "*.png", "a.*", "sub/*", "**/*", "dir"}
=============================================================================
