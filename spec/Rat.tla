---------------------------- MODULE Rat ----------------------------
(* Exact rational arithmetic for TLC: a rational is a reduced pair <<num, den>> with den > 0.
   TLC integers are 32 bit and TLC raises on overflow (it never wraps), so an overflow is a
   machinery error, never a wrong oracle; operands are cancelled before multiplying. *)
EXTENDS Integers, Sequences
RECURSIVE Gcd(_,_)
Gcd(a,b) == IF b = 0 THEN a ELSE Gcd(b, a % b)
Abs(x) == IF x < 0 THEN -x ELSE x
Norm(n,d) == LET s == IF d < 0 THEN -1 ELSE 1
                 g == Gcd(Abs(n),Abs(d))
             IN IF n = 0 THEN <<0,1>> ELSE <<(s*n) \div g, (s*d) \div g>>
RAdd(a,b) == LET g == Gcd(a[2], b[2]) IN Norm(a[1]*(b[2] \div g) + b[1]*(a[2] \div g), (a[2] \div g)*b[2])
RMul(a,b) == LET g1 == Gcd(Abs(a[1]), b[2])  g2 == Gcd(Abs(b[1]), a[2])
                 h1 == IF g1 = 0 THEN 1 ELSE g1  h2 == IF g2 = 0 THEN 1 ELSE g2
             IN IF a[1] = 0 \/ b[1] = 0 THEN <<0,1>>
                ELSE <<(a[1] \div h1) * (b[1] \div h2), (a[2] \div h2) * (b[2] \div h1)>>
RNeg(a) == <<-a[1],a[2]>>
RInv(a) == IF a[1] < 0 THEN <<-a[2], -a[1]>> ELSE <<a[2], a[1]>>
RI(n) == <<n,1>>
Z0 == <<0,1>>
O1 == <<1,1>>
RSub(a,b) == RAdd(a, RNeg(b))
RDiv(a,b) == RMul(a, RInv(b))
RLt(a,b) == a[1]*b[2] < b[1]*a[2]
RLe(a,b) == ~RLt(b,a)
RMin(a,b) == IF RLt(b,a) THEN b ELSE a
RMax(a,b) == IF RLt(a,b) THEN b ELSE a
RSq(a) == RMul(a, a)
RAbs(a) == IF a[1] < 0 THEN RNeg(a) ELSE a
IsInt(a) == a[2] = 1
\* floor / ceil / numpy round (half to even) of a reduced rational
RFloor(a) == a[1] \div a[2]                       \* TLC \div floors toward -infinity
RCeil(a) == -((-a[1]) \div a[2])
RRoundHalfEven(a) == LET f == RFloor(a) r == RSub(a, <<f,1>>) IN
                     IF RLt(r, <<1,2>>) THEN f ELSE IF RLt(<<1,2>>, r) THEN f + 1 ELSE (IF f % 2 = 0 THEN f ELSE f + 1)
RoundMode(a, mode) == CASE mode = "floor" -> RFloor(a) [] mode = "ceil" -> RCeil(a) [] OTHER -> RRoundHalfEven(a)
RECURSIVE RSum(_,_,_)
RSum(f(_), lo, hi) == IF lo > hi THEN Z0 ELSE RAdd(f(lo), RSum(f, lo+1, hi))
RECURSIVE ISum(_,_,_)
ISum(f(_), lo, hi) == IF lo > hi THEN 0 ELSE f(lo) + ISum(f, lo+1, hi)
\* integer square root by bisection; IsSq(n) iff n is a perfect square
RECURSIVE SqrtB(_,_,_)
SqrtB(n, lo, hi) == IF lo >= hi THEN lo ELSE LET m == (lo + hi + 1) \div 2 IN IF m * m <= n THEN SqrtB(n, m, hi) ELSE SqrtB(n, lo, m - 1)
ISqrt(n) == SqrtB(n, 0, IF n < 46340 THEN n ELSE 46340)
IsSq(n) == n >= 0 /\ ISqrt(n) * ISqrt(n) = n
RIsSq(a) == IsSq(a[1]) /\ IsSq(a[2])
RSqrt(a) == <<ISqrt(a[1]), ISqrt(a[2])>>
RECURSIVE Pow2(_)
Pow2(n) == n = 1 \/ (n % 2 = 0 /\ Pow2(n \div 2))
=====================================================================
