SPECIFICATION Spec
CONSTANTS
  N = 5
  D = 3
INVARIANT PosIsLast
INVARIANT Emit
PROPERTY Faithful
