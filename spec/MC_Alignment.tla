---------------------------- MODULE MC_Alignment ----------------------------
EXTENDS Alignment
SrcC == << <<0,0>>, <<3,1>>, <<1,4>>, <<-2,2>> >>
\* exact family images, noisy integer targets whose optimum is rational, mirrored targets (found by search)
TargetsC == << << <<2,-1>>, <<1,2>>, <<-2,0>>, <<0,-3>> >>,          \* 1: quarter turn + translation of Src (exact recovery)
               << <<2,-1>>, <<1,2>>, <<-3,0>>, <<0,-1>> >>,          \* 2: noisy (rotation and similarity optimum rational)
               << <<0,0>>, <<1,-1>>, <<1,-4>>, <<-4,-2>> >>,         \* 3: mirrored + noise: best orthogonal fit is a reflection
               << <<1,0>>, <<5,6>>, <<9,4>>, <<5,-4>> >>,            \* 4: mirrored, scaled (reflection optimum rational, uncentred)
               << <<0,0>>, <<3,-1>>, <<1,-5>>, <<0,-2>> >>,          \* 5: mirrored (reflection optimum rational, centred)
               << <<1,-1>>, <<1,2>>, <<-3,0>>, <<0,-3>> >>,          \* 6: noisy
               << <<0,0>>, <<5,15>>, <<-13,16>>, <<-14,-2>> >>,      \* 7: 5 * Pythagorean rotation of Src
               << <<-1,-1>>, <<5,15>>, <<-13,16>>, <<-14,-2>> >> >>  \* 8: the same + noise
AllConfigs == {"translation", "uniformscale", "rotation", "rotation_m", "similarity", "similarity_m", "similarity_norot", "similarity_norot_m", "affine", "pwa", "tps", "tps_r2logr", "tps_msv"}
PinvConfigs == {"translation", "uniformscale", "rotation", "rotation_m", "similarity", "similarity_m", "affine", "pwa", "tps"}
QuickConfigs == {"translation", "uniformscale", "rotation", "rotation_m", "similarity", "similarity_m", "similarity_norot", "similarity_norot_m", "affine", "pwa", "tps"}
=============================================================================
