---------------------------- MODULE Trace_Landmarks ----------------------------
(* Code -> spec: validates long random histories recorded from real LandmarkManagers / owners.
   Every logged call must be a step of Landmarks.tla with the logged arguments, and the outcome and
   the projection of ALL managers (ordered names, dimensions, content tokens) predicted by the
   specification must equal what was observed.  All invariants / action properties of Landmarks
   (FreshOnStore, OnlyViaGet, NoCrossSharing, OneDim, UniqueNames, OrderKept) are evaluated on the
   recorded executions as well. *)
EXTENDS Landmarks
Traces == JsonDeserialize(IOEnv.TRACE_FILE)
VARIABLES tid, ln
tvars == <<vars, tid, ln>>
Ev == Traces[tid].events[ln]
TInit == /\ tid \in 1..Len(Traces) /\ ln = 1
         /\ heap = <<>> /\ mgr = (1 :> <<>>) @@ (2 :> <<>>) /\ own = (1 :> 2) /\ held = {} /\ clock = 1 /\ hist = <<>>
         /\ TLCSet(tid, 0)
\* the recorder is not limited to three held shapes
NewShapeT(d) == /\ heap' = Append(heap, [dim |-> d, val |-> clock]) /\ clock' = clock + 1
                /\ held' = held \cup {NewObj} /\ UNCHANGED <<mgr, own>>
                /\ Step("new", <<d>>, NewObj)
Act == CASE Ev.op = "new" -> NewShapeT(Ev.args[1])
         [] Ev.op = "mutate" -> Mutate(Ev.args[1])
         [] Ev.op = "set" -> Set(Ev.args[1], Ev.args[2], Ev.args[3])
         [] Ev.op = "get" -> Get(Ev.args[1], Ev.args[2])
         [] Ev.op = "del" -> Del(Ev.args[1], Ev.args[2])
         [] Ev.op = "keys" -> Keys(Ev.args[1])
         [] Ev.op = "copy_mgr" -> CopyMgr(Ev.args[1])
         [] Ev.op = "assign" -> Assign(Ev.args[1], Ev.args[2])
Last == hist'[Len(hist')]
TStep == /\ ln <= Len(Traces[tid].events)
         /\ Act
         /\ Last.err = Ev.err /\ Last.keys = Ev.keys
         /\ (Ev.op \in {"new", "get", "copy_mgr", "assign"} /\ Ev.err = "" => Last.res = Ev.res)
         /\ Last.mgrs = Ev.mgrs                      \* predicted projection of every manager == observed
         /\ ln' = ln + 1 /\ tid' = tid
         /\ TLCSet(tid, ln)
TSpec == TInit /\ [][TStep]_tvars
Report == IF \A t \in 1..Len(Traces) : TLCGet(t) = Len(Traces[t].events) THEN TRUE
          ELSE PrintT(<<"REJECTED", {<<t, TLCGet(t)>> : t \in {u \in 1..Len(Traces) : TLCGet(u) # Len(Traces[u].events)}}>>) /\ FALSE
=======================================================================
