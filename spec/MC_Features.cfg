SPECIFICATION Spec
CONSTANTS
  Kinds = {"wrap", "norm"}
INVARIANT ZeroMean
INVARIANT UnitStat
INVARIANT ShapeRule
