SPECIFICATION Spec
CONSTANTS
  Kinds = {"crop", "patch"}
  Shapes2 <- S2
  Shapes3 <- S3
  CropShapes2 <- C2
  Wide = FALSE
INVARIANT CropSound
INVARIANT PathsAgree
INVARIANT Contiguous
