SPECIFICATION Spec
CONSTANTS
  Kinds = {"mask"}
INVARIANT WellPosed
INVARIANT Interpolates
INVARIANT Continuous
INVARIANT TwoSided
INVARIANT OutsideIsOutside
INVARIANT MaskConsistent
