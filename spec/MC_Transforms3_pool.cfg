SPECIFICATION Spec
CONSTANTS
  Pool <- PoolFull
  D = 0
  MaxObjs = 20
  MaxEntry = 400
  EvalPts <- Pts
  Ops <- AllOps
INVARIANT HonestInv
INVARIANT LadderIsFCA
INVARIANT ComposeLaw
INVARIANT InverseLaw
INVARIANT Emit
PROPERTY OperandsIntact
PROPERTY FailuresPure
PROPERTY InplaceLocal
