SPECIFICATION Spec
CONSTANTS
  Spectrum <- SpecA
  Fracs <- FracsA
  D = 3
INVARIANT OrigConstant
INVARIANT Accounting
INVARIANT Consistent
INVARIANT TrimIsBuild
INVARIANT TieFree
INVARIANT Emit
