SPECIFICATION Spec
CONSTANTS
  Pool <- PoolSmall
  D = 2
  MaxObjs = 20
  MaxEntry = 200
  EvalPts <- Pts
  Ops <- PureOps
INVARIANT HonestInv
INVARIANT LadderIsFCA
INVARIANT ComposeLaw
INVARIANT InverseLaw
INVARIANT Emit
PROPERTY OperandsIntact
PROPERTY FailuresPure
PROPERTY InplaceLocal
