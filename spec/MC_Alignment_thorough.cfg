SPECIFICATION Spec
CONSTANTS
  Src <- SrcC
  Targets <- TargetsC
  Configs <- AllConfigs
  D = 4
  MaxAls = 2
  EditVals = {1, 2, 3, 4, 5, 6, 7, 8}
  PairAll = FALSE
  WithPerturb = TRUE
  WithPinv = FALSE
INVARIANT HistoryIndependent
INVARIANT AfterSetTargetInSync
INVARIANT Optimal
INVARIANT ProperUnlessMirror
INVARIANT Orthogonal
INVARIANT SizeExact
INVARIANT Emit
INVARIANT EmitInit
PROPERTY BadTargetRejected
PROPERTY CopiesIndependent
