SPECIFICATION Spec
CONSTANTS
  Inits <- InitsSmall
  D = 4
  Unknown = "nope"
INVARIANT Coverage
INVARIANT WellFormed
INVARIANT OrderKept
INVARIANT Emit
PROPERTY LabelOrderKept
PROPERTY FailuresPure
