---------------------------- MODULE MC_IO ----------------------------
EXTENDS IO
NamesA == {"lm.v1.ljson", "x.pkl.gz"}
NamesB == {"p.pts", "img.png", "m.pkl"}
KindC == [n \in NamesA \cup NamesB \cup {"pic.bmp"} |->
            CASE n = "lm.v1.ljson" -> "ljson" [] n = "x.pkl.gz" -> "pklgz" [] n = "p.pts" -> "pts" [] n = "img.png" -> "png" [] n = "m.pkl" -> "pkl" [] OTHER -> "bmp"]
N1 == {"lm.v1.ljson"}
N2 == {"x.pkl.gz"}
N3 == {"p.pts"}
N4 == {"img.png"}
N5 == {"m.pkl"}
AllSp == {"rel_str", "rel_path", "abs_str", "abs_path"}
=============================================================================
