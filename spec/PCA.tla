---------------------------- MODULE PCA ----------------------------
(* The statistics a PCA model is a function of, over Q (properties C10, C11).
   A data set is a sequence of integer sample vectors.  The abstract model of a batch is
        [n, mean, C]     C = sum (x - m)(x - m)^T / (n - 1),   m = the mean, or 0 when not centred
   - everything menpo's model exposes (eigenvalues, components, variance, projections) is a function
   of it: U C U^T = diag(lambda), U U^T = I, lambda descending and positive.
   Incremental updates (C11): the state after ANY way of cutting the sample sequence into an initial
   batch and increments is DEFINED as the batch model of the concatenation; the running sufficient
   statistics (n, Sx, Sxx) are shown by TLC to reproduce it for every composition of n. *)
EXTENDS Rat, FiniteSets, TLC, Json, CSV, IOUtils
CONSTANTS DataSets, Kinds, MaxChunks
VARIABLES case, done
Dm(X) == Len(X[1])
SumVec(X, lo, hi) == [k \in 1..Dm(X) |-> LET f(i) == X[i][k] IN ISum(f, lo, hi)]
SumOuter(X, lo, hi) == [a \in 1..Dm(X) |-> [b \in 1..Dm(X) |-> LET f(i) == X[i][a] * X[i][b] IN ISum(f, lo, hi)]]
\* direct definition on the first n samples
Mean(X, n, centre) == [k \in 1..Dm(X) |-> IF centre THEN Norm(SumVec(X, 1, n)[k], n) ELSE Z0]
CovDirect(X, n, centre) ==
   LET m == Mean(X, n, centre) IN
   [a \in 1..Dm(X) |-> [b \in 1..Dm(X) |->
      LET f(i) == RMul(RSub(RI(X[i][a]), m[a]), RSub(RI(X[i][b]), m[b])) IN RMul(RSum(f, 1, n), <<1, n - 1>>)]]
\* from running sufficient statistics: (n Sxx - Sx Sx^T) / (n (n - 1))   [centred]   Sxx / (n - 1)   [uncentred]
CovFromSums(n, sx, sxx, centre) ==
   [a \in 1..Len(sx) |-> [b \in 1..Len(sx) |->
      IF centre THEN Norm(n * sxx[a][b] - sx[a] * sx[b], n * (n - 1)) ELSE Norm(sxx[a][b], n - 1)]]
\* compositions of n with a first part >= 2 and at most MaxChunks parts
RECURSIVE Comps(_, _)
Comps(n, parts) == IF parts = 1 THEN {<<n>>} ELSE {<<n>>} \cup UNION {{<<k>> \o c : c \in Comps(n - k, parts - 1)} : k \in 1..(n - 1)}
Compositions(n) == {c \in Comps(n, MaxChunks) : c[1] >= 2 /\ Len(c) >= 2}
RECURSIVE Prefix(_, _)
Prefix(c, k) == IF k = 0 THEN 0 ELSE c[k] + Prefix(c, k - 1)
Cases == (IF "batch" \in Kinds THEN {[kind |-> "batch", ds |-> d, centre |-> ce, comp |-> <<>>] : d \in DOMAIN DataSets, ce \in BOOLEAN} ELSE {})
         \cup (IF "incr" \in Kinds THEN UNION {{[kind |-> "incr", ds |-> d, centre |-> ce, comp |-> c] : ce \in BOOLEAN, c \in Compositions(Len(DataSets[d]))} : d \in DOMAIN DataSets} ELSE {})
Stats(X, n, centre) == [n |-> n, mean |-> Mean(X, n, centre), C |-> CovDirect(X, n, centre), trace |-> LET f(k) == CovDirect(X, n, centre)[k][k] IN RSum(f, 1, Dm(X))]
Out(c) == LET X == DataSets[c.ds] IN
          IF c.kind = "batch" THEN [case |-> c, X |-> X, stats |-> Stats(X, Len(X), c.centre)]
          ELSE [case |-> c, X |-> X, steps |-> [k \in 1..Len(c.comp) |-> Stats(X, Prefix(c.comp, k), c.centre)]]
Init == case \in Cases /\ done = FALSE
Next == done = FALSE /\ done' = TRUE /\ case' = case /\ CSVWrite("%1$s", <<ToJson(Out(case))>>, IOEnv.OUT_FILE)
Spec == Init /\ [][Next]_<<case, done>>
\* ---- laws on the model -----------------------------------------------------------------------------
\* chunking independence: running sums over ANY prefix structure give the batch statistics
SumsGiveBatch == LET X == DataSets[case.ds] IN
   \A n \in 2..Len(X) : CovFromSums(n, SumVec(X, 1, n), SumOuter(X, 1, n), case.centre) = CovDirect(X, n, case.centre)
\* additivity of the sufficient statistics across an arbitrary cut
Additive == LET X == DataSets[case.ds] IN
   case.kind = "incr" => \A k \in 1..(Len(case.comp) - 1) :
       LET a == Prefix(case.comp, k) b == Prefix(case.comp, k + 1) IN
       /\ SumVec(X, 1, b) = [i \in 1..Dm(X) |-> SumVec(X, 1, a)[i] + SumVec(X, a + 1, b)[i]]
       /\ SumOuter(X, 1, b) = [i \in 1..Dm(X) |-> [j \in 1..Dm(X) |-> SumOuter(X, 1, a)[i][j] + SumOuter(X, a + 1, b)[i][j]]]
Symmetric == LET X == DataSets[case.ds] C == CovDirect(X, Len(X), case.centre) IN \A a, b \in 1..Dm(X) : C[a][b] = C[b][a]
NonNegDiag == LET X == DataSets[case.ds] C == CovDirect(X, Len(X), case.centre) IN \A a \in 1..Dm(X) : ~RLt(C[a][a], Z0)
=====================================================================
