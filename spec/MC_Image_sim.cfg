SPECIFICATION Spec
CONSTANTS
  Shape0 <- Sh0
  D = 3
  Scales <- ScalesQ
  RotKeys = {"r90", "p345", "p345n"}
  Modes = {"ceil", "round", "floor"}
  CropBoxes <- BoxesQ
  Zooms <- ZoomsQ
  Warps <- WarpsQ
  Order0Warps <- Order0Q
  Ops <- BaseOps
INVARIANT Registered
INVARIANT ValidInsideOriginal
INVARIANT Emit
