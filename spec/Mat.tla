---------------------------- MODULE Mat ----------------------------
(* Square matrices over Q (sequences of rows), homogeneous application to points, and the
   class-honesty predicates of menpo's homogeneous transform family. *)
EXTENDS Rat, FiniteSets
Dim(A) == Len(A)
MMul(A,B) == [i \in 1..Len(A) |-> [j \in 1..Len(A) |->
               LET t(k) == RMul(A[i][k], B[k][j]) IN RSum(t, 1, Len(A))]]
MT(A) == [i \in 1..Len(A) |-> [j \in 1..Len(A) |-> A[j][i]]]
IdM(n) == [i \in 1..n |-> [j \in 1..n |-> IF i = j THEN O1 ELSE Z0]]
MAddM(A,B) == [i \in 1..Len(A) |-> [j \in 1..Len(A) |-> RAdd(A[i][j], B[i][j])]]
MScale(k,A) == [i \in 1..Len(A) |-> [j \in 1..Len(A) |-> RMul(k, A[i][j])]]
Minor(A,r,c) == LET n == Len(A) IN
   [i \in 1..(n-1) |-> [j \in 1..(n-1) |-> A[IF i < r THEN i ELSE i+1][IF j < c THEN j ELSE j+1]]]
RECURSIVE Det(_)
Det(A) == IF Len(A) = 1 THEN A[1][1]
          ELSE LET t(j) == RMul(IF j % 2 = 1 THEN A[1][j] ELSE RNeg(A[1][j]), Det(Minor(A,1,j)))
               IN RSum(t, 1, Len(A))
Inv(A) == LET n == Len(A) d == Det(A) IN
   [i \in 1..n |-> [j \in 1..n |->
      RMul(RInv(d), RMul(IF (i+j) % 2 = 0 THEN O1 ELSE <<-1,1>>, IF n = 1 THEN O1 ELSE Det(Minor(A,j,i))))]]
\* apply a homogeneous (d+1)x(d+1) matrix to a point (sequence of d rationals), with perspective division
ApplyH(M, p) == LET n == Len(M) d == n - 1
                    hp == [k \in 1..n |-> IF k <= d THEN p[k] ELSE O1]
                    row(i) == LET t(k) == RMul(M[i][k], hp[k]) IN RSum(t, 1, n)
                    w == row(n)
                IN [i \in 1..d |-> RMul(row(i), RInv(w))]
HW(M, p) == LET n == Len(M) d == n - 1
                hp == [k \in 1..n |-> IF k <= d THEN p[k] ELSE O1]
                t(k) == RMul(M[n][k], hp[k]) IN RSum(t, 1, n)
ApplyPts(M, P) == [i \in 1..Len(P) |-> ApplyH(M, P[i])]
Lin(M) == LET d == Len(M) - 1 IN [i \in 1..d |-> [j \in 1..d |-> M[i][j]]]
LastRowAffine(M) == LET n == Len(M) IN \A j \in 1..n : M[n][j] = (IF j = n THEN O1 ELSE Z0)
TransZero(M) == LET n == Len(M) IN \A i \in 1..(n-1) : M[i][n] = Z0
IsAffine(M) == LastRowAffine(M)
IsTranslation(M) == IsAffine(M) /\ Lin(M) = IdM(Len(M)-1)
IsDiagLin(M) == LET d == Len(M)-1 IN \A i,j \in 1..d : i # j => M[i][j] = Z0
IsNonUniformScale(M) == IsAffine(M) /\ TransZero(M) /\ IsDiagLin(M)
IsUniformScale(M) == IsNonUniformScale(M) /\ \A i \in 1..(Len(M)-1) : M[i][i] = M[1][1]
\* similarity: L L^T = k I with k > 0 and det L > 0
IsSimilarity(M) == IsAffine(M) /\ LET L == Lin(M) P == MMul(L, MT(L)) d == Len(L) IN
                     /\ \A i,j \in 1..d : i # j => P[i][j] = Z0
                     /\ \A i \in 1..d : P[i][i] = P[1][1]
                     /\ RLt(Z0, P[1][1]) /\ RLt(Z0, Det(L))
IsRotation(M) == IsAffine(M) /\ TransZero(M) /\ MMul(Lin(M), MT(Lin(M))) = IdM(Len(M)-1) /\ Det(Lin(M)) = O1
\* 2-D constructors (3x3)
M3(a,b,c,d,e,f) == <<<<a,b,c>>,<<d,e,f>>,<<Z0,Z0,O1>>>>
H3(a,b,c,d,e,f,g,h,i) == <<<<a,b,c>>,<<d,e,f>>,<<g,h,i>>>>
Tr2(t0,t1) == M3(O1,Z0,t0, Z0,O1,t1)
Sc2(s0,s1) == M3(s0,Z0,Z0, Z0,s1,Z0)
Lin2(a,b,c,d) == M3(a,b,Z0, c,d,Z0)
Rot2(c,s) == M3(c,RNeg(s),Z0, s,c,Z0)
\* 3-D constructors (4x4)
M4(L, t) == << <<L[1][1],L[1][2],L[1][3],t[1]>>, <<L[2][1],L[2][2],L[2][3],t[2]>>, <<L[3][1],L[3][2],L[3][3],t[3]>>, <<Z0,Z0,Z0,O1>> >>
Id3 == <<<<O1,Z0,Z0>>,<<Z0,O1,Z0>>,<<Z0,Z0,O1>>>>
T0 == <<Z0,Z0,Z0>>
Tr3(t) == M4(Id3, t)
Sc3(s) == M4(<<<<s[1],Z0,Z0>>,<<Z0,s[2],Z0>>,<<Z0,Z0,s[3]>>>>, T0)
RotX(c,s) == M4(<<<<O1,Z0,Z0>>,<<Z0,c,RNeg(s)>>,<<Z0,s,c>>>>, T0)
RotY(c,s) == M4(<<<<c,Z0,s>>,<<Z0,O1,Z0>>,<<RNeg(s),Z0,c>>>>, T0)
RotZ(c,s) == M4(<<<<c,RNeg(s),Z0>>,<<s,c,Z0>>,<<Z0,Z0,O1>>>>, T0)
=====================================================================
