SPECIFICATION Spec
CONSTANTS
  Wide = FALSE
  Kinds = {"rot2", "rot3", "quat", "about", "scalefac", "tcoords"}
INVARIANT RoundTrip
INVARIANT VecRoundTrip
INVARIANT Length
INVARIANT PoolHonest
INVARIANT FromVecHonest
INVARIANT QuatIsRotation
INVARIANT Inverse3
INVARIANT RotZIsRot2
INVARIANT RotationsAreRotations
INVARIANT AboutFixesCentre
INVARIANT TcCorners
