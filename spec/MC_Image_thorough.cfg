SPECIFICATION Spec
CONSTANTS
  Shape0 <- Sh0
  D = 2
  Scales <- ScalesT
  RotKeys = {"r90", "r180", "r270", "p345", "p345n", "p51213"}
  Modes = {"ceil", "round", "floor"}
  CropBoxes <- BoxesT
  Zooms <- ZoomsQ
  Warps <- WarpsQ
  Order0Warps <- Order0Q
INVARIANT Registered
INVARIANT ValidInsideOriginal
INVARIANT Emit
