SPECIFICATION Spec
CONSTANTS
  Kinds = {"vmask", "tmask", "geom"}
  Dims = {2, 3}
  Wide = TRUE
  LmCfgs = {0, 1, 2, 3, 4, 5, 6, 7, 8, 9, 10}
INVARIANT StructureKept
INVARIANT VecRoundTrip
INVARIANT VMaskSound
INVARIANT TMaskSound
INVARIANT GeomSound
