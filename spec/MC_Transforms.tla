---------------------------- MODULE MC_Transforms ----------------------------
EXTENDS Transforms
R(n) == <<n,1>>
Q(a,b) == <<a,b>>
\* source point set of the alignments (asymmetric, general position) and evaluation points
Src == << <<R(0),R(0)>>, <<R(3),R(1)>>, <<R(1),R(4)>>, <<R(-2),R(2)>> >>
AlObj(c, M) == [cls |-> c, al |-> TRUE, M |-> M, src |-> Src, tgt |-> ApplyPts(M, Src), members |-> <<>>]
Pts == << <<R(1),R(0)>>, <<R(0),R(1)>>, <<R(2),R(3)>>, <<R(-1),R(2)>> >>
\* the 12 classes of the homogeneous family + an opaque (non-composable) transform
P_H   == Obj("Homogeneous", FALSE, H3(R(1),R(2),R(0), R(0),R(1),R(1), Q(1,10),R(0),R(1)))
P_A   == Obj("Affine", FALSE, M3(R(2),R(1),R(3), R(-1),R(3),R(0)))
P_S   == Obj("Similarity", FALSE, M3(Q(6,5),Q(-8,5),R(1), Q(8,5),Q(6,5),R(-2)))
P_R   == Obj("Rotation", FALSE, Rot2(Q(3,5),Q(4,5)))
P_T   == Obj("Translation", FALSE, Tr2(R(2),R(-3)))
P_U   == Obj("UniformScale", FALSE, Sc2(Q(1,2),Q(1,2)))
P_N   == Obj("NonUniformScale", FALSE, Sc2(R(2),Q(1,2)))
P_AA  == AlObj("Affine", M3(R(1),R(2),R(1), R(0),R(1),R(-1)))
P_AS  == AlObj("Similarity", M3(R(0),R(-2),R(1), R(2),R(0),R(0)))
P_AR  == AlObj("Rotation", Rot2(Q(4,5),Q(-3,5)))
P_AT  == AlObj("Translation", Tr2(R(-1),R(4)))
P_AU  == AlObj("UniformScale", Sc2(R(2),R(2)))
P_O   == Obj("Opaque", FALSE, M3(R(1),R(1),R(0), R(0),R(2),R(1)))
PoolFull == <<P_H, P_A, P_S, P_R, P_T, P_U, P_N, P_AA, P_AS, P_AR, P_AT, P_AU, P_O>>
PoolSmall == <<P_H, P_A, P_R, P_T, P_U, P_N, P_AS, P_AR, P_O>>
\* the alignment variants among themselves (two of the same class included), with the plain members they accept in place:
\* depth-2 programs reach "an in-place composition, then a pure composition of two alignments of the same class"
P_AT2 == AlObj("Translation", Tr2(R(3),R(1)))
P_AU2 == AlObj("UniformScale", Sc2(Q(1,2),Q(1,2)))
PoolAlign == <<P_AT, P_AT2, P_AU, P_AU2, P_AR, P_AS, P_AA, P_T, P_U>>
PoolTiny == <<P_A, P_R, P_AS, P_N, P_O>>
OnlyPinv == {"pinv"}
AllOps == {"before","after","before_inplace","after_inplace","pinv"}
PureOps == {"before","after","pinv"}
=============================================================================
