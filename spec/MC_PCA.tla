---------------------------- MODULE MC_PCA ----------------------------
EXTENDS PCA
\* n > d, n < d, n = d; one set whose first two samples have an exactly zero mean (known finding K1)
DS == [ tall |-> << <<1,0,2>>, <<3,1,0>>, <<0,2,1>>, <<2,2,3>>, <<4,0,1>>, <<1,3,2>>, <<0,1,4>> >>,
        wide |-> << <<1,0,2,3,1>>, <<3,1,0,2,0>>, <<0,2,1,1,4>>, <<2,2,3,0,1>> >>,
        square |-> << <<2,0,1,3>>, <<0,1,4,1>>, <<3,2,0,0>>, <<1,1,2,5>> >>,
        zeromean |-> << <<1,-2,0>>, <<-1,2,0>>, <<3,1,2>>, <<0,4,-1>>, <<2,-1,1>>, <<-2,0,3>> >>,
        tall2 |-> << <<5,1>>, <<2,2>>, <<0,4>>, <<3,3>>, <<1,0>>, <<4,5>> >>,
        \* a feature that is identically zero (planar shapes, a padded column): the mean has an exactly-zero ENTRY but is not zero
        zerocol |-> << <<1,0,2>>, <<3,0,0>>, <<0,0,1>>, <<2,0,3>>, <<4,0,1>>, <<1,0,4>> >> ]
DSQuick == [k \in {"tall2", "wide", "zeromean", "square", "zerocol"} |-> DS[k]]
=============================================================================
