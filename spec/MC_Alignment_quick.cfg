SPECIFICATION Spec
CONSTANTS
  Src <- SrcC
  Targets <- TargetsC
  Configs <- QuickConfigs
  D = 3
  MaxAls = 2
  EditVals = {2, 3, 6}
  PairAll = FALSE
  WithPerturb = TRUE
  WithPinv = FALSE
INVARIANT HistoryIndependent
INVARIANT AfterSetTargetInSync
INVARIANT Optimal
INVARIANT ProperUnlessMirror
INVARIANT Orthogonal
INVARIANT SizeExact
INVARIANT Emit
INVARIANT EmitInit
PROPERTY BadTargetRejected
PROPERTY CopiesIndependent
