SPECIFICATION Spec
CONSTANTS
  Design = "asimpl"
  D = 4
  Batches = {0, 2}
INVARIANT Pure
