SPECIFICATION Spec
CONSTANTS
  NU = 1
  ND = 1
  NT = 2
  Kinds = {"rnd"}
INVARIANT ReachConsistent
INVARIANT TreeIffUnique
INVARIANT TreeDepthIsDistance
