SPECIFICATION TSpec
CONSTANTS
  Names <- NamesT
  KindOf <- KindT
  BadName = "q.xyz"
  Objs = {1, 2}
  Spellings <- SpT
  D = 100000
  LooseRefusal = TRUE
INVARIANT LastAcceptedWins
INVARIANT NoBadFiles
PROPERTY RefusedExportChangesNothing
POSTCONDITION Report
