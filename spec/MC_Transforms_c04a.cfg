SPECIFICATION Spec
CONSTANTS
  Pool <- PoolFull
  D = 1
  MaxObjs = 20
  MaxEntry = 200
  EvalPts <- Pts
  Ops <- OnlyPinv
INVARIANT HonestInv
INVARIANT LadderIsFCA
INVARIANT ComposeLaw
INVARIANT InverseLaw
INVARIANT Emit
PROPERTY OperandsIntact
PROPERTY FailuresPure
PROPERTY InplaceLocal
