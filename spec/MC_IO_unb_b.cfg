SPECIFICATION Spec
CONSTANTS
  Names <- NamesB
  KindOf <- KindC
  BadName = "q.xyz"
  Objs = {1, 2}
  Spellings <- AllSp
  D = 1000000
  LooseRefusal = FALSE
VIEW NoHist
INVARIANT NoBadFiles
PROPERTY RefusedExportChangesNothing
PROPERTY StepSound
ACTION_CONSTRAINT EmitTrans
