SPECIFICATION Spec
CONSTANTS
  Names = {"a", "b"}
  Dims = {2, 3}
  D = 4
  MaxObjs = 7
  MaxMgrs = 4
  OwnerDim = 2
INVARIANT NoCrossSharing
INVARIANT OneDim
INVARIANT UniqueNames
INVARIANT Emit
PROPERTY FreshOnStore
PROPERTY OnlyViaGet
PROPERTY FailuresPure
PROPERTY OrderKept
