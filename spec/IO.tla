---------------------------- MODULE IO ----------------------------
(* File-system protocol of menpo.io export / import (property C16).
   fs : <<dir, name>> -> content token (0 = no such file).  A path can be SPELLED as a str or a Path,
   relative (resolved against the current working directory, which can change) or absolute; all
   spellings of the same file must behave alike.  Exporting to an existing file without overwrite
   is refused with OverwriteError and changes nothing; an extension the exporter does not know, or
   an explicit extension that contradicts the file name, is a ValueError (and no file appears);
   importing returns the canonical form of what the LAST ACCEPTED export to that file wrote. *)
EXTENDS Integers, Sequences, FiniteSets, TLC, Json, CSV, IOUtils
CONSTANTS Names,        \* file names with a known kind
          KindOf,       \* name -> "ljson" | "pts" | "pkl" | "pklgz" | "png" | "bmp"
          BadName,      \* a file name with an unknown extension
          Objs,         \* object ids per export
          Spellings, D,
          LooseRefusal  \* TRUE: when an export is refused for two reasons at once either error may be reported
Dirs == {"A", "B"}
VARIABLES fs, cwd, hist
vars == <<fs, cwd, hist>>
Keys == Dirs \X (Names \cup {BadName})
Rel(sp) == sp \in {"rel_str", "rel_path"}
Target(sp, dir) == IF Rel(sp) THEN cwd ELSE dir
RecX(op, name, obj, sp, dir, ow, err, key, ext) ==
   [op |-> op, name |-> name, obj |-> obj, sp |-> sp, dir |-> dir, ow |-> ow, err |-> err, ext |-> ext,
    key |-> key, content |-> IF key = <<"", "">> THEN 0 ELSE fs'[key], cwd |-> cwd']
Rec(op, name, obj, sp, dir, ow, err, key) == RecX(op, name, obj, sp, dir, ow, err, key, "")
Init == fs = [k \in Keys |-> 0] /\ cwd = "A" /\ hist = <<>>
\* the existence check comes first, then the extension checks, then the file is opened for writing
Export(name, obj, sp, dir, ow, ext) ==    \* ext: "" (none given) | "good" (matches the name) | "bad" (contradicts it)
   /\ Len(hist) < D
   /\ LET key == <<Target(sp, dir), name>> IN
      /\ UNCHANGED cwd
      /\ IF fs[key] # 0 /\ ~ow THEN /\ fs' = fs
                                     /\ \/ hist' = Append(hist, RecX("export", name, obj, sp, dir, ow, "OverwriteError", key, ext))
                                        \/ (LooseRefusal /\ (name = BadName \/ ext = "bad")
                                            /\ hist' = Append(hist, RecX("export", name, obj, sp, dir, ow, "ValueError", key, ext)))
         ELSE IF name = BadName \/ ext = "bad" THEN fs' = fs /\ hist' = Append(hist, RecX("export", name, obj, sp, dir, ow, "ValueError", key, ext))
         ELSE fs' = [fs EXCEPT ![key] = obj] /\ hist' = Append(hist, RecX("export", name, obj, sp, dir, ow, "", key, ext))
Import(name, sp, dir) ==
   /\ Len(hist) < D /\ name # BadName
   /\ LET key == <<Target(sp, dir), name>> IN
      /\ UNCHANGED <<fs, cwd>>
      /\ hist' = Append(hist, Rec("import", name, fs[key], sp, dir, FALSE, IF fs[key] = 0 THEN "ValueError" ELSE "", key))
Chdir(d) == /\ Len(hist) < D /\ d # cwd /\ cwd' = d /\ UNCHANGED fs
            /\ hist' = Append(hist, Rec("chdir", "", 0, "", d, FALSE, "", <<"", "">>))
Next == \/ \E name \in Names \cup {BadName}, obj \in Objs, sp \in Spellings, dir \in Dirs, ow \in BOOLEAN, ext \in {"", "bad"} :
              /\ (Rel(sp) => dir = "A") /\ (ext = "bad" => (name # BadName /\ obj = 1))
              /\ (name = BadName => (obj = 1 /\ ~ow))
              /\ Export(name, obj, sp, dir, ow, ext)
        \/ \E name \in Names, sp \in Spellings, dir \in Dirs : (Rel(sp) => dir = "A") /\ Import(name, sp, dir)
        \/ \E d \in Dirs : Chdir(d)
Spec == Init /\ [][Next]_vars
\* ---- properties ------------------------------------------------------------------------------------
RefusedExportChangesNothing == [][ (hist' # hist /\ hist'[Len(hist')].err # "") => fs' = fs ]_vars
\* the content of every file is what the last accepted export to it wrote
RECURSIVE LastAccepted(_, _)
LastAccepted(h, key) == IF h = <<>> THEN 0
                        ELSE LET e == h[Len(h)] IN
                             IF e.op = "export" /\ e.err = "" /\ e.key = key THEN e.obj ELSE LastAccepted(SubSeq(h, 1, Len(h) - 1), key)
LastAcceptedWins == \A k \in Keys : fs[k] = LastAccepted(hist, k)
NoBadFiles == \A d \in Dirs : fs[<<d, BadName>>] = 0
\* an import returns the object of the last accepted export, however the path is spelled
ImportSeesLastExport == (hist # <<>> /\ hist[Len(hist)].op = "import") => hist[Len(hist)].obj = LastAccepted(hist, hist[Len(hist)].key)
\* complete-graph mode (VIEW NoHist, no depth bound): the file system and the working directory are a finite state; the
\* history-defined invariants above are replaced by their inductive step form, checked on EVERY transition
NoHist == <<fs, cwd>>
StepSound == [][ hist' # hist => LET e == hist'[Len(hist')] IN
                   CASE e.op = "export" /\ e.err = "" -> fs' = [fs EXCEPT ![e.key] = e.obj] /\ cwd' = cwd
                     [] e.op = "import" -> fs' = fs /\ cwd' = cwd /\ e.obj = fs[e.key]
                     [] e.op = "chdir" -> fs' = fs
                     [] OTHER -> fs' = fs /\ cwd' = cwd ]_vars
EmitTrans == CSVWrite("%1$s", <<ToJson(hist')>>, IOEnv.OUT_FILE)
Emit == (Len(hist) = D) => CSVWrite("%1$s", <<ToJson(hist)>>, IOEnv.OUT_FILE)
=======================================================================
